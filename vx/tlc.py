"""Running SANY / TLC on the specifications in /verif/specs and reading back
what TLC explored: state counts, coverage, emitted behaviours (JSON printed by
the spec with PrintT(<<"CASE", ToJson(..)>>)), error traces."""
import glob
import json
import os
import re
import shutil
import subprocess
import time

from . import common

JAR = "/opt/veriftools/tla/tla2tools.jar"
DEPS = "/opt/veriftools/tla/CommunityModules-deps.jar"
CP = JAR + ":" + DEPS


class TLCError(RuntimeError):
    """Machinery failure (parse error, TLC crash) -> exit 2."""


class TLCResult(object):
    def __init__(self):
        self.ok = False            # finished with no error reported
        self.violated = None       # name of violated invariant / property
        self.generated = 0
        self.distinct = 0
        self.depth = 0
        self.cases = []            # emitted JSON objects
        self.trace = []            # error trace: list of dict var -> text
        self.coverage = {}         # action name -> (distinct, total)
        self.wall = 0.0
        self.out = ""
        self.rc = None
        self.postcondition_failed = False

    def summary(self):
        return dict(generated=self.generated, distinct=self.distinct, depth=self.depth,
                    cases=len(self.cases), violated=self.violated, wall=round(self.wall, 2))


def _stage(workdir, extra_files):
    os.makedirs(workdir, exist_ok=True)
    for f in glob.glob(os.path.join(common.SPECS, "*.tla")):
        shutil.copy(f, workdir)
    for name, text in (extra_files or {}).items():
        with open(os.path.join(workdir, name), "w") as fh:
            fh.write(text)


def sany(module, workdir=None, extra_files=None):
    workdir = workdir or common.scratch("sany")
    _stage(workdir, extra_files)
    p = subprocess.run(["java", "-cp", CP, "tla2sany.SANY", module + ".tla"], cwd=workdir,
                       capture_output=True, text=True)
    ok = p.returncode == 0 and "Semantic errors" not in p.stdout and "*** Errors" not in p.stdout \
        and "Parse Error" not in p.stdout
    return ok, p.stdout + p.stderr


_CASE_PREFIX = '<<"CASE", "'


def parse_cases(text):
    cases = []
    for line in text.splitlines():
        i = line.find(_CASE_PREFIX)
        if i < 0:
            continue
        body = line[i + len(_CASE_PREFIX):]
        j = body.rfind('">>')
        if j < 0:
            continue
        body = body[:j]
        try:
            s = json.loads('"' + body + '"')
            cases.append(json.loads(s))
        except Exception as e:  # pragma: no cover
            raise TLCError("cannot parse emitted case: %r (%s)" % (line[:200], e))
    return cases


_RE_STATES = re.compile(r"(\d+) states generated, (\d+) distinct states found")
_RE_DEPTH = re.compile(r"The depth of the complete state graph search is (\d+)")
_RE_SIMSTATES = re.compile(r"The number of states generated: (\d+)")
_RE_INV = re.compile(r"Error: Invariant (\S+) is violated")
_RE_ACTPROP = re.compile(r"Error: Action property (\S+) is violated")
_RE_COV = re.compile(r"^<(\w+) line (\d+), col \d+ to line \d+, col \d+ of module (\w+)>: (\d+):(\d+)", re.M)


def run(module, cfg, *, name=None, workers=None, simulate=None, depth=None, seed=None,
        env=None, coverage=False, timeout=3600, extra_files=None, expect_ok=True,
        java_opts=(), dump=None, deadlock=None, keep=False):
    """Run TLC on <module>.tla with the configuration text `cfg`.

    simulate: None for exhaustive BFS, else dict(num=.., file=optional prefix)
    Returns a TLCResult.  Raises TLCError on machinery failure.
    """
    name = name or module
    workdir = common.scratch("tlc-" + name + "-" + common.stable_hash([cfg, simulate, seed, time.time()]))
    files = dict(extra_files or {})
    files[name + ".cfg"] = cfg
    _stage(workdir, files)
    meta = os.path.join(workdir, "meta")
    # (TLC leaves an empty tlc-<n> directory in java.io.tmpdir per run: keep those inside the scratch root, which is removed)
    cmd = ["java", "-XX:+UseParallelGC", "-Xmx8g", "-Djava.io.tmpdir=" + common.scratch("jtmp")] + list(java_opts) + ["-cp", CP, "tlc2.TLC",
           "-metadir", meta, "-noGenerateSpecTE", "-config", name + ".cfg",
           "-workers", str(workers or common.NCPU)]
    if simulate is not None:
        spec = "num=%d" % simulate.get("num", 100)
        if simulate.get("file"):
            spec = "file=%s,%s" % (simulate["file"], spec)
        cmd += ["-simulate", spec]
        if depth:
            cmd += ["-depth", str(depth)]
        cmd += ["-seed", str(seed if seed is not None else 0)]
    if coverage:
        cmd += ["-coverage", "1"]
    if dump:
        cmd += ["-dump", "dot,actionlabels", dump]
    if deadlock is False:
        cmd += ["-deadlock"]
    cmd.append(module)
    e = dict(os.environ)
    e.update(env or {})
    t0 = time.time()
    outpath = os.path.join(workdir, "tlc.out")
    with open(outpath, "w") as fh:
        try:
            p = subprocess.run(cmd, cwd=workdir, stdout=fh, stderr=subprocess.STDOUT, env=e, timeout=timeout)
            rc = p.returncode
        except subprocess.TimeoutExpired:
            raise TLCError("TLC timed out after %ss on %s" % (timeout, name))
    r = TLCResult()
    r.wall = time.time() - t0
    r.rc = rc
    out = open(outpath, errors="replace").read()
    r.out = out
    m = None
    for m in _RE_STATES.finditer(out):
        pass
    if m:
        r.generated, r.distinct = int(m.group(1)), int(m.group(2))
    else:
        m = _RE_SIMSTATES.search(out)
        if m:
            r.generated = r.distinct = int(m.group(1))
    m = _RE_DEPTH.search(out)
    if m:
        r.depth = int(m.group(1))
    r.cases = parse_cases(out)
    mi = _RE_INV.search(out) or _RE_ACTPROP.search(out)
    if mi:
        r.violated = mi.group(1)
    elif "Error: Deadlock reached" in out:
        r.violated = "Deadlock"
    elif "Temporal properties were violated" in out:
        r.violated = "Temporal"
    if "Postcondition" in out and "violated" in out:
        r.postcondition_failed = True
    if r.violated:
        r.trace = parse_trace(out)
    for mc in _RE_COV.finditer(out):
        # coverage may be reported more than once (periodically and at the end): keep the largest counts
        prev = r.coverage.get(mc.group(1), (0, 0))
        r.coverage[mc.group(1)] = (max(prev[0], int(mc.group(4))), max(prev[1], int(mc.group(5))))
    finished = ("Model checking completed" in out) or ("Finished in" in out) or (simulate is not None and rc in (0, 12))
    r.ok = (rc == 0) and r.violated is None and not r.postcondition_failed
    machinery_bad = (
        "Parsing or semantic analysis failed" in out
        or "Semantic errors" in out
        or "TLC threw an unexpected exception" in out
        or "java.lang." in out and "Exception" in out and r.violated is None and not r.postcondition_failed
        or (rc not in (0, 12, 13) and r.violated is None and not r.postcondition_failed)
        or not finished and r.violated is None and simulate is None
    )
    if machinery_bad:
        tail = "\n".join(out.splitlines()[-40:])
        raise TLCError("TLC failed on %s (rc=%s):\n%s" % (name, rc, tail))
    if not keep:
        shutil.rmtree(meta, ignore_errors=True)
    r.workdir = workdir
    return r


def tla(v):
    """Python value -> TLA+ expression text (ints, bools, str, list->tuple, set, dict->record)."""
    if isinstance(v, bool):
        return "TRUE" if v else "FALSE"
    if isinstance(v, int):
        return str(v) if v >= 0 else "(%d)" % v
    if isinstance(v, str):
        return '"%s"' % v
    if isinstance(v, (list, tuple)):
        return "<<" + ", ".join(tla(x) for x in v) + ">>"
    if isinstance(v, (set, frozenset)):
        return "{" + ", ".join(tla(x) for x in sorted(v, key=repr)) + "}"
    if isinstance(v, dict):
        if not v:
            raise ValueError("empty record")
        return "[" + ", ".join("%s |-> %s" % (k, tla(x)) for k, x in v.items()) + "]"
    raise TypeError(type(v))


class Raw(str):
    """TLA+ text passed through unchanged by run_mc."""


def run_mc(base, consts, cfg_tail, *, name=None, extends=(), defs="", **kw):
    """Generate MC_<name>.tla EXTENDS base with one definition per constant (so that negative
    numbers, tuples, records are possible), a cfg substituting them, and run TLC on it."""
    name = name or ("MC_" + base)
    lines = ["---- MODULE %s ----" % name, "EXTENDS " + ", ".join((base,) + tuple(extends)), ""]
    cfg = []
    if "SPECIFICATION" not in cfg_tail and "INIT" not in cfg_tail:
        cfg.append("SPECIFICATION Spec")
    if consts:
        cfg.append("CONSTANTS")
    for k, v in consts.items():
        lines.append("mc_%s == %s" % (k, v if isinstance(v, Raw) else tla(v)))
        cfg.append("  %s <- mc_%s" % (k, k))
    lines.append(defs)
    lines.append("====")
    cfg.append(cfg_tail)
    files = dict(kw.pop("extra_files", None) or {})
    files[name + ".tla"] = "\n".join(lines) + "\n"
    return run(name, "\n".join(cfg) + "\n", name=name, extra_files=files, **kw)


def parse_trace(out):
    """Error trace as list of (header, {var: text}) from TLC's textual output."""
    states = []
    cur = None
    curvar = None
    for line in out.splitlines():
        m = re.match(r"^State (\d+): (.*)$", line)
        if m:
            cur = {"_n": int(m.group(1)), "_action": m.group(2)}
            states.append(cur)
            curvar = None
            continue
        if cur is None:
            continue
        m = re.match(r"^(/\\ )?(\w+) = (.*)$", line)
        if m:
            curvar = m.group(2)
            cur[curvar] = m.group(3)
        elif line.strip() == "":
            curvar = None
            if states and "_done" not in cur:
                cur["_done"] = True
        elif curvar and "_done" not in cur:
            cur[curvar] += " " + line.strip()
    for s in states:
        s.pop("_done", None)
    return states


# ---------------------------------------------------------------------------
# A small reader for TLA+ values as TLC prints them (records, tuples, sets,
# functions written with :> and @@, strings, integers, booleans).

def parse_value(text):
    pos = [0]
    n = len(text)

    def ws():
        while pos[0] < n and text[pos[0]] in " \n\t\r":
            pos[0] += 1

    def peek(s):
        ws()
        return text.startswith(s, pos[0])

    def eat(s):
        ws()
        if not text.startswith(s, pos[0]):
            raise ValueError("expected %r at %d in %r" % (s, pos[0], text[max(0, pos[0] - 20):pos[0] + 20]))
        pos[0] += len(s)

    def value():
        ws()
        c = text[pos[0]]
        if text.startswith("<<", pos[0]):
            pos[0] += 2
            items = []
            if peek(">>"):
                eat(">>")
                return items
            while True:
                items.append(value())
                if peek(","):
                    eat(",")
                else:
                    eat(">>")
                    return items
        if c == "{":
            pos[0] += 1
            items = []
            if peek("}"):
                eat("}")
                return {"$set": items}
            while True:
                items.append(value())
                if peek(","):
                    eat(",")
                else:
                    eat("}")
                    return {"$set": items}
        if c == "[":
            pos[0] += 1
            rec = {}
            while True:
                ws()
                m = re.match(r"\w+", text[pos[0]:])
                k = m.group(0)
                pos[0] += len(k)
                eat("|->")
                rec[k] = value()
                if peek(","):
                    eat(",")
                else:
                    eat("]")
                    return rec
        if c == "(":
            pos[0] += 1
            fn = []
            while True:
                k = value()
                eat(":>")
                v = value()
                fn.append((k, v))
                if peek("@@"):
                    eat("@@")
                else:
                    eat(")")
                    return {"$fn": fn}
        if c == '"':
            j = pos[0] + 1
            buf = []
            while text[j] != '"':
                if text[j] == "\\":
                    j += 1
                buf.append(text[j])
                j += 1
            pos[0] = j + 1
            return "".join(buf)
        m = re.match(r"-?\d+", text[pos[0]:])
        if m:
            pos[0] += len(m.group(0))
            return int(m.group(0))
        m = re.match(r"\w+", text[pos[0]:])
        if m:
            pos[0] += len(m.group(0))
            w = m.group(0)
            return {"TRUE": True, "FALSE": False}.get(w, w)
        raise ValueError("cannot parse TLA+ value at %d: %r" % (pos[0], text[pos[0]:pos[0] + 40]))

    v = value()
    ws()
    return v
