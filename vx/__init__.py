"""vx: harness binding the TLA+ specifications in /verif/specs to xyzpy."""
