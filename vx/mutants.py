"""Mutation self-test of the machinery: each canned mutant is applied to a scratch copy of the
package (outside /repo and /verif), the owning property's quick check is run with VX_REPO
pointing at the copy, and must print a VIOLATION line and exit 1.

    ./check selftest                 # all mutants
    VX_MUTANTS=C01 ./check selftest  # those of one property
    python -m vx.mutants NAME        # one mutant by name
"""
import os
import shutil
import subprocess
import sys
import tempfile

from . import common

# (name, property, file, old, new)
MUTANTS = [
    ("unshuffle-no-sort", "C01", "xyzpy/gen/combo_runner.py",
     "enum_results = sorted(zip(enum, results_linear), key=lambda x: x[0])",
     "enum_results = list(zip(enum, results_linear))"),
    ("collect-completion-order", "C01", "xyzpy/gen/combo_runner.py",
     "        for kws, future in zip(settings, futures):",
     "        for kws, future in zip(settings, sorted(futures, key=lambda f: not getattr(f, 'done', False))):"),
    ("product-reversed-axes", "C01", "xyzpy/gen/combo_runner.py",
     "        for combo_params in itertools.product(*combo_values):\n            loc = case_params + combo_params",
     "        for combo_params in itertools.product(*combo_values[::-1]):\n            combo_params = combo_params[::-1]\n            loc = case_params + combo_params"),
    ("write-in-place", "C11", "xyzpy/gen/cropping.py",
     '        with open(tmp_fname, "wb") as file:\n            pickle.dump(obj, file)\n        os.replace(tmp_fname, fname)',
     '        with open(fname, "wb") as file:\n            pickle.dump(obj, file)'),
    ("shared-temp-name", "C11", "xyzpy/gen/cropping.py",
     'tmp_fname = "{}.{}-{}.tmp".format(fname, os.getpid(), uuid.uuid4().hex)',
     'tmp_fname = fname + ".tmp"'),
    ("temp-name-matches-glob", "C11", "xyzpy/gen/cropping.py",
     'tmp_fname = "{}.{}-{}.tmp".format(fname, os.getpid(), uuid.uuid4().hex)',
     'tmp_fname = "{}.{}-{}.tmp.jbdmp".format(fname[:-6], os.getpid(), uuid.uuid4().hex)'),
    ("rename-before-write", "C11", "xyzpy/gen/cropping.py",
     '        with open(tmp_fname, "wb") as file:\n            pickle.dump(obj, file)\n        os.replace(tmp_fname, fname)',
     '        with open(tmp_fname, "wb") as file:\n            os.replace(tmp_fname, fname)\n            pickle.dump(obj, file)'),
    ("replace-before-flush", "C11", "xyzpy/gen/cropping.py",
     '        with open(tmp_fname, "wb") as file:\n            pickle.dump(obj, file)\n        os.replace(tmp_fname, fname)',
     '        with open(tmp_fname, "wb") as file:\n            pickle.dump(obj, file)\n            os.fsync(file.fileno())\n            os.replace(tmp_fname, fname)'),
    ("constants-dropped-when-shuffled", "C01", "xyzpy/gen/combo_runner.py",
     "            kws.update(constants)\n",
     "            kws.update(constants if not (shuffle and len(combo_values) > 2) else {})\n"),
]


def make_copy(file, old, new):
    root = tempfile.mkdtemp(prefix="vx-mut-")
    shutil.copytree(os.path.join(common.REPO, "xyzpy"), os.path.join(root, "xyzpy"),
                    ignore=shutil.ignore_patterns("__pycache__"))
    p = os.path.join(root, file)
    s = open(p).read()
    if old not in s:
        shutil.rmtree(root)
        raise RuntimeError("mutant pattern not found in %s" % file)
    open(p, "w").write(s.replace(old, new, 1))
    return root


def run_one(m, tier="quick"):
    name, prop, file, old, new = m
    root = make_copy(file, old, new)
    try:
        env = dict(os.environ, VX_REPO=root, VX_NO_EVIDENCE="1")
        p = subprocess.run([os.path.join(common.VERIF, "check"), prop, "--tier", tier], env=env,
                           capture_output=True, text=True)
        caught = p.returncode == 1 and ("VIOLATION property=%s" % prop) in p.stdout
        return caught, p.returncode, p.stdout[-600:]
    finally:
        shutil.rmtree(root, ignore_errors=True)


def seeded():
    """The independently seeded changes kept under /verif/seeded/<id>/ (patch.diff + meta.json)."""
    import json
    root = os.path.join(common.VERIF, "seeded")
    out = []
    for d in sorted(os.listdir(root)) if os.path.isdir(root) else []:
        pf = os.path.join(root, d, "patch.diff")
        mf = os.path.join(root, d, "meta.json")
        if os.path.exists(pf) and os.path.exists(mf):
            meta = json.load(open(mf))
            out.append((d, meta.get("property", d.split("-")[0]), pf))
    return out


def run_seeded(sid, prop, patchfile, tier="quick"):
    root = tempfile.mkdtemp(prefix="vx-seed-")
    try:
        shutil.copytree(os.path.join(common.REPO, "xyzpy"), os.path.join(root, "xyzpy"), ignore=shutil.ignore_patterns("__pycache__"))
        if os.path.isdir(os.path.join(common.REPO, "tests")):
            shutil.copytree(os.path.join(common.REPO, "tests"), os.path.join(root, "tests"), ignore=shutil.ignore_patterns("__pycache__"))
        p = subprocess.run(["patch", "-p1", "-s", "-i", patchfile], cwd=root, capture_output=True, text=True)
        if p.returncode != 0:
            return None, "patch does not apply: " + (p.stdout + p.stderr)[-200:]
        env = dict(os.environ, VX_REPO=root)
        p = subprocess.run([os.path.join(common.VERIF, "check"), prop, "--tier", tier], env=env, capture_output=True, text=True)
        caught = p.returncode == 1 and ("VIOLATION property=%s" % prop) in p.stdout
        return caught, p.stdout[-400:]
    finally:
        shutil.rmtree(root, ignore_errors=True)


def main(argv=None):
    argv = argv if argv is not None else sys.argv[1:]
    sel = os.environ.get("VX_MUTANTS")
    todo = [m for m in MUTANTS if (not argv or m[0] in argv) and (not sel or m[1] in sel.split(","))]
    missed = 0
    for m in todo:
        caught, rc, tail = run_one(m)
        print("%-34s %s %s (rc=%s)" % (m[0], m[1], "CAUGHT" if caught else "MISSED", rc))
        if not caught:
            missed += 1
            print(tail)
    nseed = 0
    for sid, prop, pf in seeded():
        if (argv and sid not in argv) or (sel and prop not in sel.split(",")):
            continue
        nseed += 1
        caught, tail = run_seeded(sid, prop, pf)
        print("seeded %-27s %s %s" % (sid, prop, "CAUGHT" if caught else ("MISSED" if caught is False else "N/A")))
        if not caught:
            missed += 1
            print(tail)
    print("mutants: %d canned + %d seeded, missed: %d" % (len(todo), nseed, missed))
    return 1 if missed else 0


if __name__ == "__main__":
    sys.exit(main())
