"""Binding between Infiniplot.tla cases and the real xyzpy.infiniplot (property C18).

Two directions only (no re-implementation of infiniplot's logic):
  * abstract case -> concrete call: `build_call` (cell numbers -> Dataset values, dim numbers -> names,
    coordinate indices -> labels, option tokens -> keyword arguments);
  * real figure -> abstract observations: `read_figure` (lines / meshes per panel with their points,
    style values, panel titles and grid positions).
`compare` then checks the observations against the draw list TLC emitted for the case.
"""
import math
import re
from fractions import Fraction

import numpy as np

PROPS = ["hue", "color", "marker", "markersize", "linestyle", "linewidth", "col", "row"]
NAMES = "abcde"
RTOL = 1e-9


# ---------------------------------------------------------------------------
# abstract -> concrete

def dim_name(d):
    return NAMES[d - 1]


def coord_rank(case, d, i):
    """data refinement: the coordinate values of a (mappable) dim are stored ascending, descending or rotated
    (a concatenated sweep) depending on the case; index i (the spec's coordinate) -> rank of its value"""
    s = case["sizes"][d - 1]
    h = (int(case.get("num", 0)) + 3 * int(case.get("anum", 0)) + 5 * d) % 3
    if s < 2 or h == 0:
        return i
    if h == 1:
        return s + 1 - i            # descending
    return i % s + 1                # 2, 3, .., s, 1


def coord_label(case, d, i):
    """label (coordinate value) of index i (1-based) of dim d; the x / y dims of lines and heat maps are evenly
    spaced ascending floats, the other dims ints whose stored order varies with the case (coord_rank)"""
    n = len(case["sizes"])
    mode = case["mode"]
    if mode != "hist" and d == n:
        return 10.0 * i
    if mode == "heat" and d == n - 1:
        return 1.0 * i
    return coord_value(case, d, coord_rank(case, d, i))


_UNEVEN = ([1, 2, 1000], [1, 10, 10000])


def coord_value(case, d, r):
    """data refinement: the value of the coordinate of rank r (1-based) of dim d - evenly spaced, or very
    unevenly spaced (two values closer than 1/256 of the range), positive or negative, depending on the case"""
    h = (int(case.get("num", 0)) // 3 + int(case.get("anum", 0)) + 7 * d) % 4
    if h == 0:
        return 100 * d + 10 * r
    if h == 1:
        return 10000 * d + _UNEVEN[0][r - 1]
    if h == 2:
        return -10000 * d - _UNEVEN[0][r - 1]          # descending with the rank
    return 100000 * d + _UNEVEN[1][r - 1]


def target_name(t):
    return dim_name(t[0]) if len(t) == 1 else tuple(dim_name(d) for d in t)


def code_label(case, t, code):
    """coordinate code of the spec -> the label the code under test shows (plain: int, fused: tuple)"""
    if len(t) == 1:
        return coord_label(case, t[0], code)
    return (coord_label(case, t[0], code // 4), coord_label(case, t[1], code % 4))


def frac(n, d):
    return None if d == 0 else Fraction(n, d)


def storage_perm(case, n, k=0):
    """permutation of the dims in which variable number k of the case is stored (identity for 1 case in 3)"""
    h = int(case.get("num", 0)) + int(case.get("anum", 0)) + k
    ident = tuple(range(n))
    if n < 2 or h % 3 == 0:
        return ident
    cands = [tuple(reversed(ident)), ident[1:] + ident[:1], ident[2:] + ident[:2], (1, 0) + ident[2:],
             ident[:-2] + (ident[-1], ident[-2])]
    cands = [c for c in cands if c != ident]
    return cands[(h // 3) % len(cands)]


def build_call(case):
    """-> (ds, args, kwargs) for xyz.infiniplot(ds, *args, **kwargs)"""
    import xarray as xr

    sizes = case["sizes"]
    n = len(sizes)
    ncells = int(np.prod(sizes))
    dims = [dim_name(d) for d in range(1, n + 1)]
    coords = {dim_name(d): [coord_label(case, d, i) for i in range(1, sizes[d - 1] + 1)] for d in range(1, n + 1)}
    cells = np.arange(ncells, dtype=float).reshape(sizes)

    def var(vals, nulls):
        a = np.array(vals, dtype=float)
        flat = a.reshape(-1)
        for c in nulls:
            flat[c] = np.nan
        return (dims, a)

    mode = case["mode"]
    kw = {}
    if mode == "lines":
        data = {"y": var(cells + 1, case["ynull"])}
        if case["xvar"]:
            # the x variable has only the dims case["xdims"] (all of y's, only the line dim, or the line dim and
            # one more); its value at a cell is 1000 + the cell with the dims it does not have at index 1
            xd = sorted(case.get("xdims") or range(1, n + 1))
            full = var(cells + 1000, case["xnull"])[1]
            take = tuple(slice(None) if d in xd else 0 for d in range(1, n + 1))
            data["xv"] = ([dim_name(d) for d in xd], np.array(full[take], copy=True))
            args = ("xv", "y")
            kw["xlink"] = dims[-1]
        else:
            args = (dims[-1], "y")
    elif mode == "heat":
        data = {"z": var(cells + 1, case["ynull"])}
        if n == 2:
            # plain 2-D heat map (nothing mapped, nothing aggregated): a missing cell is NaN, +inf or -inf
            z = data["z"][1].reshape(-1)
            for c in case["ynull"]:
                k = (c + int(case.get("num", 0))) % 3
                if k:
                    z[c] = np.inf if k == 1 else -np.inf
        args = (dims[-1], dims[-2], "z")
    else:
        data = {"xv": var(2 * cells, case["ynull"])}
        args = ("xv",)
    # data refinement: the same abstract dataset, but (for 2 cases in 3) every variable is *stored* with its
    # dims in a non-identity permutation of tuple(ds.dims) - coordinates first, then the variable assigned
    # with permuted dims.  Nothing the property talks about depends on the storage layout.
    ds = xr.Dataset(coords=coords)
    for k, (name, (dd, a)) in enumerate(data.items()):
        m = len(dd)
        perm = storage_perm(case, m, k)
        ds[name] = (tuple(dd[i] for i in perm), np.ascontiguousarray(np.transpose(a, perm)))
        if perm != tuple(range(m)):
            assert ds[name].dims != tuple(dd) and ds[name].shape == tuple(a.shape[i] for i in perm)
        assert np.array_equal(ds[name].transpose(*dd).values, a, equal_nan=True)
    assert tuple(ds.sizes) == tuple(dims), (tuple(ds.sizes), dims)

    for p, t in zip(PROPS, case["pm"]):
        if not t:
            continue
        kw[p] = target_name(t)
        if len(t) == 1 and case["ordd"][t[0] - 1]:
            kw[p + "_order"] = [coord_label(case, t[0], i) for i in case["ordd"][t[0] - 1]]
    if mode == "lines":
        kw["join_across_missing"] = bool(case["join"])
        if case["agg"] != "none":
            kw["aggregate"] = True if case["agg"] == "all" else dim_name(min(case["aggd"]))
            kw["aggregate_method"] = case["meth"]
            kw["aggregate_err_range"] = {"q": 0.5, "std": "std", "stderr": "stderr"}[case["err"]]
        if case["pal"]:
            kw["palette"] = "viridis"
    elif mode == "heat":
        if case["agg"] == "all":
            kw["aggregate"] = True
        if case["aggd"]:
            kw["aggregate_method"] = case["meth"]
        if case["pal"]:
            kw["palette"] = "viridis"
    else:
        hb = case["hb"]
        b = case["bins"]
        if b == "n4":
            kw["bins"] = 4
        elif b == "nN":
            kw["bins"] = ncells
        elif b in ("e1", "e3", "eu", "en", "ee"):
            kw["bins"] = [(hb["e0"] + k * hb["w"] + hb.get("q", 0) * k * (k + 1)) / hb["den"] for k in range(hb["nb"] + 1)]
        kw["bins_density"] = bool(case["dens"])
        if case["pal"]:
            kw["palette"] = "viridis"
    return ds, args, kw


# ---------------------------------------------------------------------------
# real figure -> observations

_TITLE = re.compile(r"\$\\bf\{(.+?)\}\$=(.*?)(?=, \$\\bf\{|$)")


def _dash(line):
    pat = getattr(line, "_unscaled_dash_pattern", None)
    if pat is None:
        return ("ls", str(line.get_linestyle()))
    off, seq = pat
    return ("dash", None if seq is None else (round(float(off), 9), tuple(round(float(v), 9) for v in seq)))


def read_figure(axs):
    import matplotlib as mpl
    from matplotlib.collections import QuadMesh

    panels = []
    for (i, j), ax in np.ndenumerate(axs):
        try:
            ss = ax.get_subplotspec()
            grid = (ss.rowspan.start, ss.colspan.start)
        except Exception:  # noqa
            grid = (i, j)
        text = " ;; ".join(t.get_text() for t in ax.texts)
        title = {}
        for t in ax.texts:
            for name, val in _TITLE.findall(t.get_text()):
                title[name.replace(r"\_", "_")] = val.strip()
        lines = []
        for ln in ax.lines:
            xy = np.asarray(ln.get_xydata(), dtype=float).reshape(-1, 2)
            lines.append(dict(
                pts=[(float(a), float(b)) for a, b in xy],
                color=tuple(round(float(v), 6) for v in mpl.colors.to_rgba(ln.get_color())),
                marker=str(ln.get_marker()),
                linestyle=_dash(ln),
                linewidth=round(float(ln.get_linewidth()), 9),
                markersize=round(float(ln.get_markersize()), 9),
                label=str(ln.get_label()),
            ))
        meshes = []
        for c in ax.collections:
            if isinstance(c, QuadMesh):
                arr = c.get_array()
                co = np.asarray(c.get_coordinates(), dtype=float)
                cen = (co[:-1, :-1] + co[1:, :-1] + co[:-1, 1:] + co[1:, 1:]) / 4.0
                meshes.append(dict(arr=np.ma.filled(np.ma.asarray(arr, dtype=float), np.nan), centres=cen))
        panels.append(dict(pos=(i, j), grid=grid, text=text, title=title, lines=lines, meshes=meshes))
    return panels


# ---------------------------------------------------------------------------
# comparison

def _same(real, want):
    """real float vs expected Fraction / None(NaN)"""
    if want is None:
        return isinstance(real, float) and math.isnan(real)
    if isinstance(real, float) and math.isnan(real):
        return False
    w = float(want)
    return abs(real - w) <= RTOL * max(1.0, abs(w))


def _pts_match(real_pts, want_pts):
    return len(real_pts) == len(want_pts) and all(_same(r[0], w[0]) and _same(r[1], w[1]) for r, w in zip(real_pts, want_pts))


def expected_points(case, d):
    """draw record -> [(x, y)] with Fractions / None"""
    mode = case["mode"]
    out = []
    for xn, xd, yn, yd in d["pts"]:
        if mode == "lines" and not case["xvar"]:
            x = Fraction(coord_label(case, len(case["sizes"]), xn)) if xd else None
        else:
            x = frac(xn, xd)
        out.append((x, frac(yn, yd)))
    return out


def style_limits():
    """number of distinct default values the code under test has per cycling property"""
    lim = {"marker": 15, "linestyle": 6}
    try:
        from xyzpy.plot import infiniplot as ip

        lim["marker"] = len(set(ip._MARKERS_DEFAULT))
        lim["linestyle"] = len(set(map(repr, ip._LINESTYLES_DEFAULT)))
    except Exception:  # noqa
        pass
    return lim


def _title_problems(case, panel, d):
    """the panel a slice was found in must be labelled with the slice's own row / col coordinate"""
    out = []
    notes = []
    for p in (6, 7):       # col, row
        t = case["eff"][p]
        if not t:
            continue
        name = target_name(t)
        name = name if isinstance(name, str) else ", ".join(name)
        want = str(code_label(case, t, d["lab"][p]))
        if name not in panel["title"]:
            notes.append("panel title %r does not name %s" % (panel["text"], name))
        elif panel["title"][name] != want:
            out.append("slice with %s=%s is drawn in the panel titled %r" % (name, want, panel["text"]))
    return out, notes


def _grid_problems(case, placed):
    """same row coordinate <=> same grid row, same col coordinate <=> same grid column"""
    out = []
    for p, axis, word in ((7, 0, "row"), (6, 1, "col")):
        if not case["eff"][p]:
            continue
        by_coord, by_grid = {}, {}
        for d, panel in placed:
            by_coord.setdefault(d["lab"][p], set()).add(panel["grid"][axis])
            by_grid.setdefault(panel["grid"][axis], set()).add(d["lab"][p])
        if any(len(v) > 1 for v in by_coord.values()):
            out.append("slices with the same %s coordinate lie in different grid %ss" % (word, word))
        if any(len(v) > 1 for v in by_grid.values()):
            out.append("slices with different %s coordinates share a grid %s" % (word, word))
    return out


def _palette_notes(case, placed_lines):
    """not demanded by the property (only distinctness is): with a palette and only `color` mapped the colour is
    the palette at the rank position the spec assigns (np.linspace(0, 1, N)[i])"""
    eff = case["eff"]
    if not (case.get("pal") and eff[1] and not eff[0]):
        return []
    import matplotlib as mpl

    cmap = mpl.colormaps["viridis"]
    for d, ln in placed_lines:
        n_, d_ = d["cpos"]
        want = tuple(round(float(v), 6) for v in cmap(n_ / d_))
        if any(abs(a - b) > 1e-4 for a, b in zip(want, ln["color"])):
            return ["palette colour is not the colormap at the rank position of the coordinate"]
    return []


def _style_problems(case, placed_lines):
    """equal mapped coordinate => equal style value; different => different while defaults remain"""
    out = []
    lim = style_limits()
    eff = case["eff"]
    attrs = []
    if eff[0] or eff[1]:
        attrs.append(("color", (0, 1)))
    for p, a in ((2, "marker"), (3, "markersize"), (4, "linestyle"), (5, "linewidth")):
        if eff[p]:
            attrs.append((a, (p,)))
    for attr, ps in attrs:
        seen = {}
        for d, ln in placed_lines:
            key = tuple(d["lab"][p] for p in ps)
            idx = max(d["sty"][p] for p in ps)
            seen.setdefault(key, []).append((ln[attr], idx, d))
        for key, vals in seen.items():
            if len(set(v[0] for v in vals)) > 1:
                out.append("%s: lines with the same mapped coordinate %s carry different values %s"
                           % (attr, list(key), sorted(set(map(str, (v[0] for v in vals))))[:3]))
        keys = list(seen)
        for a in range(len(keys)):
            for b in range(a + 1, len(keys)):
                va, ia, _ = seen[keys[a]][0]
                vb, ib, _ = seen[keys[b]][0]
                if attr in lim and (ia > lim[attr] or ib > lim[attr]):
                    continue       # the cycle of defaults is exhausted
                if va == vb:
                    out.append("%s: different mapped coordinates %s and %s share the value %s"
                               % (attr, list(keys[a]), list(keys[b]), va))
    return out[:6]


def compare_lines(case, panels):
    """lines / hist: every expected draw exactly once, in the right panel, right points, right styles"""
    problems, notes = [], []
    mode = case["mode"]
    real = [(pn, ln) for pn in panels for ln in pn["lines"]]
    used = [False] * len(real)
    exp = [(d, expected_points(case, d)) for d in case["draws"]]
    placed, placed_lines = [], []
    # group expected draws with identical points (only possible for histograms)
    groups = []
    for d, pts in exp:
        for g in groups:
            if g[0] == pts:
                g[1].append(d)
                break
        else:
            groups.append((pts, [d]))
    for pts, ds_ in groups:
        hits = [k for k, (pn, ln) in enumerate(real) if not used[k] and _pts_match(ln["pts"], pts)]
        need = [d for d in ds_ if not d["opt"]]
        optional = [d for d in ds_ if d["opt"]]
        if len(hits) < len(need):
            problems.append(("missing", "%d slice(s) with data expected as lines with points %s, found %d such line(s)"
                             % (len(need), [(float(x) if x is not None else None, float(y) if y is not None else None) for x, y in pts][:4], len(hits))))
        elif len(hits) > len(need) + len(optional):
            problems.append(("duplicate", "slice drawn %d times (expected %d): points %s"
                             % (len(hits), len(need), [(float(x) if x is not None else None, float(y) if y is not None else None) for x, y in pts][:4])))
        for k in hits:
            used[k] = True
        if len(ds_) == 1 and len(hits) == 1:
            placed.append((ds_[0], real[hits[0]][0]))
            placed_lines.append((ds_[0], real[hits[0]][1]))
        elif len(hits) == len(need) and len(need) > 1 and not optional:
            # ambiguous (equal histograms): compare the multisets of panels
            want = sorted((d["ri"], d["ci"]) for d in need)
            got = sorted((real[k][0]["pos"][0] + 1, real[k][0]["pos"][1] + 1) for k in hits)
            if want != got:
                notes.append("equal histograms: panel positions %s vs expected %s" % (got, want))
    for k, (pn, ln) in enumerate(real):
        if used[k]:
            continue
        ys = [p[1] for p in ln["pts"]]
        if mode == "hist" and not case["dens"] and all(y == 0 for y in ys):
            continue        # an all-zero count line of an empty combination: neither demanded nor forbidden
        kind = "empty" if all(math.isnan(y) for y in ys) or all(math.isnan(p[0]) for p in ln["pts"]) else "extra"
        problems.append((kind, "a line that is no slice's data is drawn in panel %s: %s" % (pn["pos"], ln["pts"][:4])))
    for d, pn in placed:
        tp, tn = _title_problems(case, pn, d)
        problems += [("panel", m) for m in tp]
        notes += tn
        if (pn["pos"][0] + 1, pn["pos"][1] + 1) != (d["ri"], d["ci"]):
            notes.append("panel index %s differs from the model's (%d, %d)" % (pn["pos"], d["ri"] - 1, d["ci"] - 1))
    problems += [("panel", m) for m in _grid_problems(case, placed)]
    problems += [("style", m) for m in _style_problems(case, placed_lines)]
    notes += _palette_notes(case, placed_lines)
    return problems, notes


def _sat(rgba):
    import matplotlib as mpl

    return float(mpl.colors.rgb_to_hsv(np.asarray(rgba[:3], dtype=float))[1])


def compare_heat(case, panels):
    problems, notes = [], []
    n = len(case["sizes"])
    nx, ny = case["sizes"][-1], case["sizes"][-2]
    xs = [coord_label(case, n, i) for i in range(1, nx + 1)]
    ys = [coord_label(case, n - 1, i) for i in range(1, ny + 1)]
    placed = []
    sat_pairs = []
    null_cols, data_cols = set(), set()
    names = []
    for p in (6, 7):
        if case["eff"][p]:
            nm = target_name(case["eff"][p])
            names.append(nm if isinstance(nm, str) else ", ".join(nm))
    titles_ok = all(nm in pn["title"] for pn in panels for nm in names)
    if not titles_ok:
        notes.append("panel titles do not name the row/col dims: panels paired by position")
    for d in case["draws"]:
        want = [[frac(*d["pts"][yi][xi]) for xi in range(nx)] for yi in range(ny)]
        has = any(v is not None for row in want for v in row)
        # the panel of this slice: by its title if the titles are readable, else by position
        cand = []
        for pn in panels:
            if not titles_ok:
                if (pn["pos"][0] + 1, pn["pos"][1] + 1) == (d["ri"], d["ci"]):
                    cand.append(pn)
                continue
            ok = True
            for p in (6, 7):
                t = case["eff"][p]
                if not t:
                    continue
                name = target_name(t)
                name = name if isinstance(name, str) else ", ".join(name)
                if pn["title"].get(name) != str(code_label(case, t, d["lab"][p])):
                    ok = False
            if ok:
                cand.append(pn)
        if len(cand) != 1:
            if has:
                problems.append(("panel", "%d panels are titled with row/col coordinate %s of a slice that has data"
                                 % (len(cand), [d["lab"][7], d["lab"][6]])))
            continue
        pn = cand[0]
        placed.append((d, pn))
        if not pn["meshes"]:
            if has:
                problems.append(("missing", "no mesh in panel %r" % pn["text"]))
            continue
        if len(pn["meshes"]) > 1:
            notes.append("%d meshes in panel %r" % (len(pn["meshes"]), pn["text"]))
        for m in pn["meshes"]:
            arr, cen = m["arr"], m["centres"]
            if arr.shape[:2] != (ny, nx) or cen.shape[:2] != (ny, nx):
                problems.append(("mesh", "mesh of shape %s in panel %r, expected %s" % (arr.shape[:2], pn["text"], (ny, nx))))
                continue
            for yi in range(ny):
                for xi in range(nx):
                    # the cell whose centre is (x, y)
                    hit = [(a, b) for a in range(ny) for b in range(nx)
                           if abs(cen[a, b, 0] - xs[xi]) < 1e-6 and abs(cen[a, b, 1] - ys[yi]) < 1e-6]
                    if len(hit) != 1:
                        problems.append(("mesh", "no mesh cell centred at (%s, %s) in panel %r" % (xs[xi], ys[yi], pn["text"])))
                        continue
                    v = arr[hit[0]]
                    w = want[yi][xi]
                    if arr.ndim == 2:
                        if not _same(float(v), w):
                            problems.append(("mesh", "panel %r cell (x=%s, y=%s) shows %s, expected %s"
                                             % (pn["text"], xs[xi], ys[yi], float(v), None if w is None else float(w))))
                    else:
                        col = tuple(round(float(c), 6) for c in v)
                        if w is None:
                            null_cols.add(col)
                        else:
                            data_cols.add(col)
                            sat_pairs.append((w, _sat(col), (pn["text"], xs[xi], ys[yi])))
    # colour-coded meshes (no palette): the colour must be a strictly monotone function of z over the whole figure
    sat_pairs.sort(key=lambda t: t[0])
    for a, b in zip(sat_pairs, sat_pairs[1:]):
        if a[0] == b[0]:
            if abs(a[1] - b[1]) > 1e-6:
                problems.append(("mesh", "equal z %s shown with different colours at %s and %s" % (float(a[0]), a[2], b[2])))
        elif not a[1] < b[1] - 1e-9:
            problems.append(("mesh", "colour is not increasing with z: z=%s at %s vs z=%s at %s"
                             % (float(a[0]), a[2], float(b[0]), b[2])))
    if null_cols & data_cols:
        problems.append(("mesh", "a missing cell has the colour of a data cell"))
    problems += [("panel", m) for m in _grid_problems(case, placed)]
    return problems[:8], notes
