"""Accumulates what a check run covered and found; writes evidence and replay
files; applies the known-findings list."""
import json
import os
import time

from . import common

LEVEL = "model_checking"


def load_findings():
    p = os.path.join(common.VERIF, "known_findings.json")
    if not os.path.exists(p):
        return {"open": [], "fixed": []}
    return json.load(open(p))


class Report(object):
    def __init__(self, prop, tier, seed):
        self.prop = prop
        self.tier = tier
        self.seed = seed
        self.t0 = time.time()
        self.states = 0
        self.transitions = 0
        self.tlc_runs = []
        self.traces = 0            # behaviours replayed into the implementation / recorded traces accepted
        self.evaluations = 0
        self.distinct = set()      # hashes of distinct non-trivial cases
        self.samples = []
        self.rule = ""
        self.exhaustive = False
        self.assumptions = []
        self.violations = []       # list of dict(case=, what=, key=)
        self.notes = []
        self.extra = {}
        self.coverage_actions = {}

    # -- TLC ---------------------------------------------------------------
    def add_tlc(self, name, r):
        self.states += r.distinct
        self.transitions += r.generated
        self.tlc_runs.append(dict(name=name, **r.summary()))
        for k, v in r.coverage.items():
            a = self.coverage_actions.setdefault(k, [0, 0])
            a[0] += v[0]
            a[1] += v[1]

    # -- implementation side -------------------------------------------------
    def add_case(self, case_key, nontrivial=True, sample=None, traces=1):
        self.evaluations += 1
        self.traces += traces
        if nontrivial:
            self.distinct.add(common.stable_hash(case_key))
        if sample is not None and len(self.samples) < 5:
            self.samples.append(common.jsonable(sample))

    def add_violation(self, case, what, key=None):
        self.violations.append(dict(case=common.jsonable(case), what=str(what), key=common.jsonable(key or {})))

    def note(self, s):
        self.notes.append(s)

    # -- output ---------------------------------------------------------------
    def finish(self):
        """Write replays + evidence, print verdict lines, return exit code."""
        findings = load_findings()
        opens = [f for f in findings.get("open", []) if f.get("property") == self.prop]
        # runs against a scratch copy (VX_REPO != /repo: mutation self-tests) must not overwrite
        # the evidence and replays that belong to /repo
        foreign = os.environ.get("VX_NO_EVIDENCE") == "1" or common.REPO != "/repo"
        outroot = common.VERIF if not foreign else os.path.join("/tmp", "vx-foreign-%d" % os.getuid())
        rdir = os.path.join(outroot, "replays", self.prop)
        new, known = [], {}
        for v in self.violations:
            hit = None
            for f in opens:
                if all(v["key"].get(k) == val for k, val in f.get("match", {}).items()):
                    hit = f
                    break
            if hit is not None:
                known.setdefault(hit["id"], (hit, []))[1].append(v)
            else:
                new.append(v)
        for fid, (f, vs) in sorted(known.items()):
            print("KNOWN-FINDING: property=%s %s [%s; %d case(s) this run]" % (self.prop, f["text"], fid, len(vs)))
        # de-duplicate new violations by key for reporting (keep all in count)
        shown = {}
        for v in new:
            k = common.stable_hash([v["key"], v["what"][:80]])
            shown.setdefault(k, v)
        paths = []
        if shown:
            os.makedirs(rdir, exist_ok=True)
        for i, (k, v) in enumerate(sorted(shown.items())):
            if i >= 20:
                break
            p = os.path.join(rdir, "%s.json" % k)
            with open(p, "w") as fh:
                json.dump(dict(property=self.prop, case=v["case"], what=v["what"], key=v["key"]), fh, indent=1, sort_keys=True)
            paths.append(p)
            print("VIOLATION property=%s replay=%s" % (self.prop, p))
            print("  what: " + v["what"][:400].replace("\n", " | "))
        wall = time.time() - self.t0
        cov = dict(
            states=int(self.states),
            transitions=int(self.transitions),
            traces_validated_against_impl=int(self.traces),
            samples=self.samples or [{"note": "no case emitted"}],
            evaluations=int(self.evaluations),
            distinct_nontrivial=len(self.distinct),
            rule=self.rule,
            exhaustive=bool(self.exhaustive),
            tlc_runs=self.tlc_runs,
            spec_action_coverage={k: v for k, v in sorted(self.coverage_actions.items())},
            known_findings_hit=sorted(known.keys()),
            notes=self.notes,
        )
        cov.update(self.extra)
        ev = dict(
            property_id=self.prop,
            tier=self.tier,
            seed=int(self.seed),
            level=LEVEL,
            coverage=cov,
            assumptions=self.assumptions,
            wall_s=round(wall, 2),
            violations=len(new),
        )
        os.makedirs(os.path.join(outroot, "evidence"), exist_ok=True)
        with open(os.path.join(outroot, "evidence", self.prop + ".json"), "w") as fh:
            json.dump(ev, fh, indent=1, sort_keys=True)
        print("%s tier=%s seed=%s: states=%d transitions=%d impl_cases=%d distinct=%d violations=%d known=%d wall=%.1fs"
              % (self.prop, self.tier, self.seed, self.states, self.transitions, self.evaluations,
                 len(self.distinct), len(new), sum(len(vs) for _, vs in known.values()), wall))
        return 1 if new else 0
