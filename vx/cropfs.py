"""C11: binding of CropFS.tla to the real grow / reap(wait=True) / progress queries through the
deterministic scheduler of vx/fsproxy.py."""
import os
import pickle
import shutil
import tempfile
import traceback

from . import common, fsproxy, tlc


def make_fn(seeding=False):
    def fn(a, b=0):
        if seeding:
            # a reproducible user function: seeds the global generators on every call
            import random as _r
            import numpy as _np
            _r.seed(1234)
            _np.random.seed(1234)
        return float(100 * a + b)
    return fn


class Setup(object):
    """A sown crop in a temp dir: NB batches of one argument 'a' (values 1..n)."""

    def __init__(self, n, num_batches, seeding=False):
        self.xyz = common.use_repo()
        self.tmp = tempfile.mkdtemp(prefix="cfs-", dir=common.scratch("cfs"))
        self.n = n
        fn = make_fn(seeding)
        crop = self.xyz.Crop(fn=fn, name="c11", parent_dir=self.tmp, num_batches=num_batches)
        crop.sow_combos({"a": list(range(1, n + 1))}, verbosity=0)
        self.nb = crop.num_batches
        self.location = crop.location
        self.results = os.path.join(crop.location, "results")
        self.expect = tuple(float(100 * a) for a in range(1, n + 1))

    def handle(self):
        return self.xyz.Crop(name="c11", parent_dir=self.tmp)

    def clear_results(self):
        for f in os.listdir(self.results):
            os.remove(os.path.join(self.results, f))

    def close(self):
        shutil.rmtree(self.tmp, ignore_errors=True)


def grower(setup, batch):
    crop = setup.handle()

    def run():
        setup.xyz.grow(batch, crop=crop, verbosity=0)
        return "grown"
    return run


def reaper(setup):
    crop = setup.handle()

    def run():
        return crop.reap(wait=True, clean_up=False)
    return run


def poller(setup, npolls, out):
    crop = setup.handle()

    def run():
        for _ in range(npolls):
            out.append(crop.num_results)
        return "polled"
    return run


def truth_complete(setup):
    """batch ids whose result file holds a complete pickle right now (read without the proxy)"""
    import re as _re
    done = set()
    for f in fsproxy._real["listdir"](setup.results):
        m = _re.match(r"^xyz-result-(\d+)\.jbdmp$", f)
        if m:
            try:
                with fsproxy._real["open"](os.path.join(setup.results, f), "rb") as fh:
                    pickle.load(fh)
                done.add(int(m.group(1)))
            except Exception:
                pass
    return done


def full_poller(setup, npolls, out):
    """A poller that asks every progress query; after each answer the truth of that very instant is recorded (no other
    actor can move between the query's last file operation and this)."""
    crop = setup.handle()

    def run():
        for _ in range(npolls):
            n = crop.num_results
            out.append(("num_results", n, sorted(truth_complete(setup))))
            m = tuple(crop.missing_results())
            out.append(("missing_results", list(m), sorted(truth_complete(setup))))
            r = bool(crop.is_ready_to_reap())
            out.append(("is_ready_to_reap", r, sorted(truth_complete(setup))))
        return "polled"
    return run


def judge_full_poller(setup, out):
    allb = set(range(1, setup.nb + 1))
    for call, val, truth in out:
        truth = set(truth)
        if call == "num_results" and val > len(truth):
            return "num_results=%d although only the results %r were complete at that instant" % (val, sorted(truth)), "poller_overcount"
        if call == "missing_results" and not (allb - set(val)) <= truth:
            return ("missing_results()=%r counts batch(es) %r as finished although only %r were complete at that instant" % (
                val, sorted((allb - set(val)) - truth), sorted(truth))), "poller_missing"
        if call == "is_ready_to_reap" and val and truth != allb:
            return "is_ready_to_reap() is True although only %r were complete" % sorted(truth), "poller_ready"
    return None, None


def record_programs(setup, writers):
    """writers: list of (name, batch, fakepid).  Runs each grower alone under the proxy and
    returns {name: [op, ...]} with op = (kind, p[, q]); temp names share one registry."""
    names = {}
    progs = {}
    for name, batch, pid in writers:
        s = fsproxy.Sched(setup.results)
        s.names = names
        s.add(name, grower(setup, batch), pid)
        with fsproxy.Installed(s):
            s.start()
            ok = s.finish_round_robin()
        a = s.actors[name]
        if a.exc is not None:
            raise common.LibraryFailure("a single grower, alone, fails: grow(%d) raised %r" % (batch, a.exc))
        progs[name] = list(a.trace)
        setup.clear_results()
    return progs, names


def model_constants(progs, writers, nb, npolls, with_reaper=True, max_sleeps=2, max_crashes=0, record=False, pollers=None):
    names = set("res%d" % i for i in range(1, nb + 1))
    counted = set(names)
    P = {}
    full = {}
    for w, ops in progs.items():
        seq = []
        cnt = {}
        cur = {}
        for op in ops:
            k = op[0]
            p = op[1]
            q = op[2] if len(op) > 2 else "-"
            names.add(p) if k not in ("list", "sleep") and p != "results" else None
            if q != "-":
                names.add(q)
            if k == "write":
                cnt[p] = cnt.get(p, 0) + 1
            seq.append(dict(k=k, p=p, q=q, s=0))
        P[w] = seq
        full[w] = cnt
    for n in list(names):
        if n.startswith("tmpc"):
            counted.add(n)
    names.discard("results")
    consts = dict(
        Writers=set(P),
        Prog=tlc.Raw("(" + " @@ ".join('"%s" :> %s' % (w, tlc.tla(P[w]) if P[w] else "<<>>") for w in sorted(P)) + ")"),
        BatchOf=tlc.Raw("(" + " @@ ".join('"%s" :> %d' % (w, b) for w, b, _ in writers) + ")"),
        FullOf=tlc.Raw("(" + " @@ ".join('"%s" :> [n \\in mc_Names |-> %s]' % (
            w, " ".join("IF n = \"%s\" THEN %d ELSE" % (n, c) for n, c in sorted(full[w].items())) + " 0") for w in sorted(P)) + ")"),
        NB=nb, Names=names, Counted=counted, Pollers=set(pollers or ()) or tlc.Raw("{}"), NPolls=npolls, MaxSleeps=max_sleeps, WithReaper=with_reaper,
        MaxCrashes=max_crashes, Record=record,
        Pre=tlc.Raw('[n \\in mc_Names |-> "absent"]'), SowFiles=tlc.Raw("{}"), DataFiles=tlc.Raw("{}"), WithRecovery=False)
    # Names must be defined before FullOf in the generated module: dict order is preserved
    ordered = {}
    for k in ("Names", "Writers", "Prog", "BatchOf", "FullOf", "NB", "Counted", "Pollers", "NPolls", "MaxSleeps", "WithReaper", "MaxCrashes", "Record",
              "Pre", "SowFiles", "DataFiles", "WithRecovery"):
        ordered[k] = consts[k]
    return ordered


INVS = ["TypeOK", "ReaperNeverSeesPartial", "ReaperExact", "PollerNeverCountsPartial"]


def run_model(name, consts, *, emit=False, simulate=None, depth=None, seed=None, workers=None, invariants=INVS, coverage=False):
    tail = "".join("INVARIANT %s\n" % i for i in invariants)
    if emit:
        tail += "INVARIANT EmitCase\n"
    tail += "CHECK_DEADLOCK FALSE\n"
    return tlc.run_mc("CropFS", consts, tail, name=name, workers=workers, simulate=simulate, depth=depth, seed=seed, coverage=coverage)


def schedule_from_trace(trace):
    """Derive (actor, kind) steps from a TLC error trace by diffing pc / rpc / npoll / sleeps."""
    steps = []
    prev = None
    for st in trace:
        cur = dict(pc=tlc.parse_value(st["pc"]), rpc=tlc.parse_value(st["rpc"]), ri=tlc.parse_value(st["ri"]),
                   npoll=tlc.parse_value(st["npoll"]), sleeps=tlc.parse_value(st["sleeps"]), rgot=tlc.parse_value(st["rgot"]))
        if prev is not None:
            ppc = dict(prev["pc"]["$fn"]) if isinstance(prev["pc"], dict) and "$fn" in prev["pc"] else prev["pc"]
            cpc = dict(cur["pc"]["$fn"]) if isinstance(cur["pc"], dict) and "$fn" in cur["pc"] else cur["pc"]
            moved = [w for w in cpc if cpc[w] != ppc[w]]
            if moved:
                steps.append((moved[0], None))
            elif cur["npoll"] != prev["npoll"]:
                steps.append(("poller", "list"))
            else:
                steps.append(("reaper", None))
        prev = cur
    return steps


def execute(setup, writers, steps, npolls, with_reaper=True, fullpoll=False):
    """Run the real actors under the given schedule.  Returns a dict of observations."""
    setup.clear_results()
    s = fsproxy.Sched(setup.results)
    polled = []
    poll_obs = []
    for name, batch, pid in writers:
        s.add(name, grower(setup, batch), pid)
    if with_reaper:
        s.add("reaper", reaper(setup), 7001)
    fullout = []
    if fullpoll:
        s.add("poller", full_poller(setup, max(1, npolls), fullout), 7002)
    elif npolls:
        s.add("poller", poller(setup, npolls, polled), 7002)

    def on_list(actor):
        # at the instant the poller lists results/: which counted names hold complete pickles?
        if actor.name != "poller":
            return
        complete, partial = 0, []
        import fnmatch
        for f in fsproxy._real["listdir"](setup.results):
            if fnmatch.fnmatch(f, fsproxy.GLOB):
                try:
                    with fsproxy._real["open"](os.path.join(setup.results, f), "rb") as fh:
                        pickle.load(fh)
                    complete += 1
                except Exception:
                    partial.append(f)
        poll_obs.append((complete, partial))
    s.on_list = on_list
    drift = []
    with fsproxy.Installed(s):
        s.start()
        try:
            drift = s.run_schedule(steps)
            finished = s.finish_round_robin()
        finally:
            s.release_all()
    obs = dict(drift=drift, polled=polled, poll_obs=poll_obs, log=list(s.log), fullpoll=fullout)
    for a in s.actors.values():
        obs[a.name] = dict(result=a.result, exc=a.exc, trace=list(a.trace), state=a.state)
    return obs


def judge(setup, obs, with_reaper, expect_reaper_done=True):
    """The property on the real execution: returns (problem, tag) or (None, None)."""
    if with_reaper:
        r = obs["reaper"]
        if r["exc"] is not None:
            return ("reap(wait=True) raised %s: %s under the schedule %s" % (
                type(r["exc"]).__name__, str(r["exc"])[:160], compact(obs["log"])), "reaper_raised")
        if r["state"] == "done" and r["result"] is not None:
            if tuple(r["result"]) != setup.expect:
                return ("reap(wait=True) returned %r, the direct run gives %r" % (r["result"], setup.expect), "reaper_wrong")
    if obs.get("fullpoll"):
        prob, tag = judge_full_poller(setup, obs["fullpoll"])
        if prob:
            return prob + " (schedule %s)" % compact(obs["log"]), tag
    for k, (n, (complete, partial)) in enumerate(zip(obs["polled"], obs["poll_obs"])):
        if partial:
            return ("poll %d: num_results=%d counted the partly written file(s) %r under the schedule %s" % (
                k, n, partial, compact(obs["log"])), "poller_partial")
        if n > complete:
            return ("poll %d: num_results=%d although only %d complete result file(s) existed at that instant (schedule %s)" % (
                k, n, complete, compact(obs["log"])), "poller_overcount")
    for name, o in obs.items():
        if isinstance(o, dict) and name not in ("reaper", "poller") and "exc" in o and o["exc"] is not None:
            return ("grower %s raised %s: %s" % (name, type(o["exc"]).__name__, str(o["exc"])[:160]), "grower_raised")
    return None, None


def compact(log):
    return " ".join("%s:%s" % (a[:1] + a[-1:], l[0][:2]) for a, l in log[:60])


def progress_during_growth(rep, nsim=80):
    """C08 'at every moment': a progress poller interleaved with two growers (no reaper).  TLC checks
    PollerNeverCountsPartial over all interleavings of the recorded grower programs; counterexamples and simulated
    schedules are replayed on the real code."""
    setup = Setup(4, 2)
    try:
        writers = [("g1", 1, 9101), ("g2", 2, 9102)]
        progs, names = record_programs(setup, writers)
        consts = model_constants(progs, writers, setup.nb, npolls=2, with_reaper=False, max_sleeps=0)
        r = run_model("MC_C08_poll", consts, invariants=["TypeOK", "PollerNeverCountsPartial"], workers=max(2, common.NCPU // 4))
        rep.add_tlc("CropFS poller vs two growers (PollerNeverCountsPartial)", r)
        todo = []
        if r.violated == "PollerNeverCountsPartial":
            todo.append(("counterexample", schedule_from_trace(r.trace)))
        else:
            econsts = dict(consts)
            econsts["Record"] = True
            e = run_model("MC_C08_poll_sim", econsts, emit=True, simulate=dict(num=nsim), depth=80, seed=rep.seed, workers=1, invariants=[])
            rep.add_tlc("CropFS poller simulate", e)
            seen = {}
            for c in e.cases:
                seen.setdefault(common.stable_hash(c["hist"]), c)
            todo = [("schedule", [(a, k) for a, k in c["hist"]]) for c in seen.values()]
        for kind, steps in todo:
            obs = execute(setup, writers, steps, npolls=2, with_reaper=False)
            prob, tag = judge(setup, obs, False)
            case = dict(kind="poll_" + kind, steps=[list(s) for s in steps])
            rep.add_case(["poll", steps], sample=None)
            if prob:
                rep.add_violation(case, prob, key=dict(tag=tag, kind="poll"))
            elif kind == "counterexample":
                rep.note("model_imprecision: poller counterexample did not reproduce on the real code")
    finally:
        setup.close()


def record_poller_program(setup, names):
    """The operations one round of the full poller performs on results/ (on the quiescent crop)."""
    s = fsproxy.Sched(setup.results)
    s.names = names
    out = []
    s.add("poller", full_poller(setup, 1, out), 7002)
    with fsproxy.Installed(s):
        s.start()
        s.finish_round_robin()
    a = s.actors["poller"]
    if a.exc is not None:
        raise common.LibraryFailure("progress queries on a quiescent crop fail: %r" % (a.exc,))
    return list(a.trace)


def full_poller_config(rep, label, n, nb, wr, nsim, with_reaper=False):
    """growers + the full progress poller (num_results, missing_results, is_ready_to_reap) as recorded programs."""
    setup = Setup(n, nb)
    try:
        writers = [(w, b, 9200 + k) for k, (w, b) in enumerate(wr)]
        progs, names = record_programs(setup, writers)
        progs["poller"] = record_poller_program(setup, names)
        allw = writers + [("poller", 0, 7002)]
        consts = model_constants(progs, allw, setup.nb, npolls=0, with_reaper=with_reaper, max_sleeps=2, pollers={"poller"})
        consts["BatchOf"] = tlc.Raw("(" + " @@ ".join('"%s" :> %d' % (w, b) for w, b, _ in allw) + ")")
        r = run_model("MC_%s_chk" % label, consts, invariants=["TypeOK", "PollerNeverCountsPartial"], workers=max(2, common.NCPU // 4))
        rep.add_tlc("%s: growers + full poller (PollerNeverCountsPartial)" % label, r)
        todo = []
        if r.violated == "PollerNeverCountsPartial":
            todo.append(("counterexample", schedule_from_trace(r.trace)))
        econsts = dict(consts)
        econsts["Record"] = True
        e = run_model("MC_%s_sim" % label, econsts, emit=True, simulate=dict(num=nsim), depth=120, seed=rep.seed, workers=1, invariants=[])
        rep.add_tlc("%s simulate" % label, e)
        seen = {}
        for c in e.cases:
            seen.setdefault(common.stable_hash(c["hist"]), c)
        todo += [("schedule", [(a, k) for a, k in c["hist"]]) for c in seen.values()]
        for kind, steps in todo:
            obs = execute(setup, writers, steps, npolls=1, with_reaper=with_reaper, fullpoll=True)
            prob, tag = judge(setup, obs, with_reaper)
            case = dict(kind="fullpoll_" + kind, config=label, steps=[list(x) for x in steps])
            rep.add_case(["fullpoll", label, steps], sample=None)
            if obs["drift"]:
                rep.note("model_drift in %s: %s" % (label, obs["drift"][0]))
            if prob:
                rep.add_violation(case, prob, key=dict(tag=tag, config=label))
    finally:
        setup.close()
