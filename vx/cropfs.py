"""C11: binding of CropFS.tla to the real grow / reap(wait=True) / progress queries through the
deterministic scheduler of vx/fsproxy.py."""
import os
import pickle
import shutil
import tempfile
import traceback

from . import common, fsproxy, tlc


def make_fn():
    def fn(a, b=0):
        return float(100 * a + b)
    return fn


class Setup(object):
    """A sown crop in a temp dir: NB batches of one argument 'a' (values 1..n)."""

    def __init__(self, n, num_batches):
        self.xyz = common.use_repo()
        self.tmp = tempfile.mkdtemp(prefix="cfs-", dir=common.scratch("cfs"))
        self.n = n
        fn = make_fn()
        crop = self.xyz.Crop(fn=fn, name="c11", parent_dir=self.tmp, num_batches=num_batches)
        crop.sow_combos({"a": list(range(1, n + 1))}, verbosity=0)
        self.nb = crop.num_batches
        self.location = crop.location
        self.results = os.path.join(crop.location, "results")
        self.expect = tuple(float(100 * a) for a in range(1, n + 1))

    def handle(self):
        return self.xyz.Crop(name="c11", parent_dir=self.tmp)

    def clear_results(self):
        for f in os.listdir(self.results):
            os.remove(os.path.join(self.results, f))

    def close(self):
        shutil.rmtree(self.tmp, ignore_errors=True)


def grower(setup, batch):
    crop = setup.handle()

    def run():
        setup.xyz.grow(batch, crop=crop, verbosity=0)
        return "grown"
    return run


def reaper(setup):
    crop = setup.handle()

    def run():
        return crop.reap(wait=True, clean_up=False)
    return run


def poller(setup, npolls, out):
    crop = setup.handle()

    def run():
        for _ in range(npolls):
            out.append(crop.num_results)
        return "polled"
    return run


def record_programs(setup, writers):
    """writers: list of (name, batch, fakepid).  Runs each grower alone under the proxy and
    returns {name: [op, ...]} with op = (kind, p[, q]); temp names share one registry."""
    names = {}
    progs = {}
    for name, batch, pid in writers:
        s = fsproxy.Sched(setup.results)
        s.names = names
        s.add(name, grower(setup, batch), pid)
        with fsproxy.Installed(s):
            s.start()
            ok = s.finish_round_robin()
        a = s.actors[name]
        if a.exc is not None:
            raise RuntimeError("recording grow(%d) failed: %r" % (batch, a.exc))
        progs[name] = list(a.trace)
        setup.clear_results()
    return progs, names


def model_constants(progs, writers, nb, npolls, with_reaper=True, max_sleeps=2, max_crashes=0, record=False):
    names = set("res%d" % i for i in range(1, nb + 1))
    counted = set(names)
    P = {}
    full = {}
    for w, ops in progs.items():
        seq = []
        cnt = {}
        cur = {}
        for op in ops:
            k = op[0]
            p = op[1]
            q = op[2] if len(op) > 2 else "-"
            names.add(p) if k not in ("list", "sleep") and p != "results" else None
            if q != "-":
                names.add(q)
            if k == "write":
                cnt[p] = cnt.get(p, 0) + 1
            seq.append(dict(k=k, p=p, q=q, s=0))
        P[w] = seq
        full[w] = cnt
    for n in list(names):
        if n.startswith("tmpc"):
            counted.add(n)
    names.discard("results")
    consts = dict(
        Writers=set(P),
        Prog=tlc.Raw("(" + " @@ ".join('"%s" :> %s' % (w, tlc.tla(P[w]) if P[w] else "<<>>") for w in sorted(P)) + ")"),
        BatchOf=tlc.Raw("(" + " @@ ".join('"%s" :> %d' % (w, b) for w, b, _ in writers) + ")"),
        FullOf=tlc.Raw("(" + " @@ ".join('"%s" :> [n \\in mc_Names |-> %s]' % (
            w, " ".join("IF n = \"%s\" THEN %d ELSE" % (n, c) for n, c in sorted(full[w].items())) + " 0") for w in sorted(P)) + ")"),
        NB=nb, Names=names, Counted=counted, NPolls=npolls, MaxSleeps=max_sleeps, WithReaper=with_reaper,
        MaxCrashes=max_crashes, Record=record,
        Pre=tlc.Raw('[n \\in mc_Names |-> "absent"]'), SowFiles=tlc.Raw("{}"), DataFiles=tlc.Raw("{}"), WithRecovery=False)
    # Names must be defined before FullOf in the generated module: dict order is preserved
    ordered = {}
    for k in ("Names", "Writers", "Prog", "BatchOf", "FullOf", "NB", "Counted", "NPolls", "MaxSleeps", "WithReaper", "MaxCrashes", "Record",
              "Pre", "SowFiles", "DataFiles", "WithRecovery"):
        ordered[k] = consts[k]
    return ordered


INVS = ["TypeOK", "ReaperNeverSeesPartial", "ReaperExact", "PollerNeverCountsPartial"]


def run_model(name, consts, *, emit=False, simulate=None, depth=None, seed=None, workers=None, invariants=INVS, coverage=False):
    tail = "".join("INVARIANT %s\n" % i for i in invariants)
    if emit:
        tail += "INVARIANT EmitCase\n"
    tail += "CHECK_DEADLOCK FALSE\n"
    return tlc.run_mc("CropFS", consts, tail, name=name, workers=workers, simulate=simulate, depth=depth, seed=seed, coverage=coverage)


def schedule_from_trace(trace):
    """Derive (actor, kind) steps from a TLC error trace by diffing pc / rpc / npoll / sleeps."""
    steps = []
    prev = None
    for st in trace:
        cur = dict(pc=tlc.parse_value(st["pc"]), rpc=tlc.parse_value(st["rpc"]), ri=tlc.parse_value(st["ri"]),
                   npoll=tlc.parse_value(st["npoll"]), sleeps=tlc.parse_value(st["sleeps"]), rgot=tlc.parse_value(st["rgot"]))
        if prev is not None:
            ppc = dict(prev["pc"]["$fn"]) if isinstance(prev["pc"], dict) and "$fn" in prev["pc"] else prev["pc"]
            cpc = dict(cur["pc"]["$fn"]) if isinstance(cur["pc"], dict) and "$fn" in cur["pc"] else cur["pc"]
            moved = [w for w in cpc if cpc[w] != ppc[w]]
            if moved:
                steps.append((moved[0], None))
            elif cur["npoll"] != prev["npoll"]:
                steps.append(("poller", "list"))
            else:
                steps.append(("reaper", None))
        prev = cur
    return steps


def execute(setup, writers, steps, npolls, with_reaper=True):
    """Run the real actors under the given schedule.  Returns a dict of observations."""
    setup.clear_results()
    s = fsproxy.Sched(setup.results)
    polled = []
    poll_obs = []
    for name, batch, pid in writers:
        s.add(name, grower(setup, batch), pid)
    if with_reaper:
        s.add("reaper", reaper(setup), 7001)
    if npolls:
        s.add("poller", poller(setup, npolls, polled), 7002)

    def on_list(actor):
        # at the instant the poller lists results/: which counted names hold complete pickles?
        if actor.name != "poller":
            return
        complete, partial = 0, []
        import fnmatch
        for f in fsproxy._real["listdir"](setup.results):
            if fnmatch.fnmatch(f, fsproxy.GLOB):
                try:
                    with fsproxy._real["open"](os.path.join(setup.results, f), "rb") as fh:
                        pickle.load(fh)
                    complete += 1
                except Exception:
                    partial.append(f)
        poll_obs.append((complete, partial))
    s.on_list = on_list
    drift = []
    with fsproxy.Installed(s):
        s.start()
        try:
            drift = s.run_schedule(steps)
            finished = s.finish_round_robin()
        finally:
            s.release_all()
    obs = dict(drift=drift, polled=polled, poll_obs=poll_obs, log=list(s.log))
    for a in s.actors.values():
        obs[a.name] = dict(result=a.result, exc=a.exc, trace=list(a.trace), state=a.state)
    return obs


def judge(setup, obs, with_reaper, expect_reaper_done=True):
    """The property on the real execution: returns (problem, tag) or (None, None)."""
    if with_reaper:
        r = obs["reaper"]
        if r["exc"] is not None:
            return ("reap(wait=True) raised %s: %s under the schedule %s" % (
                type(r["exc"]).__name__, str(r["exc"])[:160], compact(obs["log"])), "reaper_raised")
        if r["state"] == "done" and r["result"] is not None:
            if tuple(r["result"]) != setup.expect:
                return ("reap(wait=True) returned %r, the direct run gives %r" % (r["result"], setup.expect), "reaper_wrong")
    for k, (n, (complete, partial)) in enumerate(zip(obs["polled"], obs["poll_obs"])):
        if partial:
            return ("poll %d: num_results=%d counted the partly written file(s) %r under the schedule %s" % (
                k, n, partial, compact(obs["log"])), "poller_partial")
        if n > complete:
            return ("poll %d: num_results=%d although only %d complete result file(s) existed at that instant (schedule %s)" % (
                k, n, complete, compact(obs["log"])), "poller_overcount")
    for name, o in obs.items():
        if isinstance(o, dict) and name not in ("reaper", "poller") and "exc" in o and o["exc"] is not None:
            return ("grower %s raised %s: %s" % (name, type(o["exc"]).__name__, str(o["exc"])[:160]), "grower_raised")
    return None, None


def compact(log):
    return " ".join("%s:%s" % (a[:1] + a[-1:], l[0][:2]) for a, l in log[:60])


def progress_during_growth(rep, nsim=80):
    """C08 'at every moment': a progress poller interleaved with two growers (no reaper).  TLC checks
    PollerNeverCountsPartial over all interleavings of the recorded grower programs; counterexamples and simulated
    schedules are replayed on the real code."""
    setup = Setup(4, 2)
    try:
        writers = [("g1", 1, 9101), ("g2", 2, 9102)]
        progs, names = record_programs(setup, writers)
        consts = model_constants(progs, writers, setup.nb, npolls=2, with_reaper=False, max_sleeps=0)
        r = run_model("MC_C08_poll", consts, invariants=["TypeOK", "PollerNeverCountsPartial"], workers=max(2, common.NCPU // 4))
        rep.add_tlc("CropFS poller vs two growers (PollerNeverCountsPartial)", r)
        todo = []
        if r.violated == "PollerNeverCountsPartial":
            todo.append(("counterexample", schedule_from_trace(r.trace)))
        else:
            econsts = dict(consts)
            econsts["Record"] = True
            e = run_model("MC_C08_poll_sim", econsts, emit=True, simulate=dict(num=nsim), depth=80, seed=rep.seed, workers=1, invariants=[])
            rep.add_tlc("CropFS poller simulate", e)
            seen = {}
            for c in e.cases:
                seen.setdefault(common.stable_hash(c["hist"]), c)
            todo = [("schedule", [(a, k) for a, k in c["hist"]]) for c in seen.values()]
        for kind, steps in todo:
            obs = execute(setup, writers, steps, npolls=2, with_reaper=False)
            prob, tag = judge(setup, obs, False)
            case = dict(kind="poll_" + kind, steps=[list(s) for s in steps])
            rep.add_case(["poll", steps], sample=None)
            if prob:
                rep.add_violation(case, prob, key=dict(tag=tag, kind="poll"))
            elif kind == "counterexample":
                rep.note("model_imprecision: poller counterexample did not reproduce on the real code")
    finally:
        setup.close()
