"""Replay of Sweep.tla behaviours into xyzpy's sweep entry points (C01, C02, C03)."""
import itertools
import math
import os
import random as _random

import numpy as np

from . import common, tlc

GRID_NAMES = ["q1", "b", "m", "a", "z"]     # given order deliberately not alphabetical
CASE_NAMES = ["w", "c", "k", "d"]
CONSTS = {"kattr": 7, "t": [0.5, 1.5]}
RES = {"bigres": ("r", 1)}
ATTRS = {"note": "hello"}


def values_for(name, n, flavour):
    """Concrete values for value indices 1..n; sort order == index order."""
    if flavour == "int":
        return [10 * (i + 1) for i in range(n)]
    if flavour == "float":
        # floats that need all 17 significant digits (1/3, 4/3, ...): the function must get exactly the value given
        return [i + 1.0 / 3.0 for i in range(n)]
    if flavour == "str":
        return ["s%s%02d" % (name, i) for i in range(n)]
    if flavour == "mixed":
        return values_for(name, n, ["int", "float", "str"][ord(name[0]) % 3])
    if flavour == "tup":
        # argument values that are themselves (hashable, sortable) sequences
        return [(i, i + 1) for i in range(n)]
    if flavour == "hetero":
        # ints and floats within one argument (each value must arrive with the type it was given)
        return [10 * (i + 1) if i % 2 == 0 else 10 * (i + 1) + 0.5 for i in range(n)]
    if flavour == "hetero_str":
        # numbers and strings within one argument (no sort order: only for nested / flat outputs)
        return [[10 * (i + 1), 10 * (i + 1) + 0.5, "s%s%02d" % (name, i)][i % 3] for i in range(n)]
    raise ValueError(flavour)


class Concrete(object):
    """Concrete inputs for an abstract configuration."""

    def __init__(self, case, variant):
        cfg = case["cfg"]
        self.cfg = cfg
        self.variant = variant
        fl = variant.get("values", "int")
        self.grid_names = GRID_NAMES[:len(cfg["grid"])]
        self.case_names = CASE_NAMES[:cfg["nca"]]
        self.grid_vals = {nm: values_for(nm, n, fl) for nm, n in zip(self.grid_names, cfg["grid"])}
        if variant.get("grid_order") and not cfg.get("dup"):
            # grid values given in a non-ascending order (positions / coordinates follow the order given)
            for j, nm in enumerate(self.grid_names):
                v = self.grid_vals[nm]
                if variant["grid_order"] == "desc" or len(v) < 3:
                    self.grid_vals[nm] = v[::-1]
                else:
                    r = 1 + (j % (len(v) - 1))
                    self.grid_vals[nm] = v[r:] + v[:r][::-1]
        if cfg.get("dup") and self.grid_names:
            nm = self.grid_names[0]
            self.grid_vals[nm] = list(range(1, cfg["grid"][0] + 1))
        ncv = max([4] + [v for c in cfg["cases"] for v in c])
        self.case_vals = {nm: values_for(nm, ncv, fl) for nm in self.case_names}
        self.fn_args = self.case_names + self.grid_names
        meta = cfg["meta"]
        self.constants = {}
        if meta["cattr"]:
            self.constants["kattr"] = CONSTS["kattr"]
        if meta["cdim"]:
            self.constants["t"] = CONSTS["t"]
        self.resources = dict(RES) if meta["res"] else {}
        self.attrs = dict(ATTRS) if meta["attrs"] else {}
        if self.attrs and variant.get("seq_attr") and cfg["kind"] == "df":
            self.attrs["note"] = ("he", "llo")          # a sequence-valued attribute: recorded whole in every row
        # id <-> kwargs bijection from the spec's enumeration
        self.id_of = {}
        self.id_of_loose = {}
        self.kwargs_of = {}
        for i, loc in enumerate(case["settings"]):
            kw = self.loc_kwargs(loc)
            self.id_of[self.key(kw)] = i + 1
            self.id_of_loose[self.key_loose(kw)] = i + 1
            self.kwargs_of[i + 1] = kw

    def loc_kwargs(self, loc):
        kw = {}
        for nm, v in zip(self.fn_args, loc):
            vals = self.case_vals[nm] if nm in self.case_vals else self.grid_vals[nm]
            kw[nm] = vals[v - 1]
        return kw

    def key(self, kw):
        # type-strict: 1, 1.0, True and '1' are different argument values
        return tuple((nm, type(kw[nm]).__name__, kw[nm]) for nm in self.fn_args)

    def key_loose(self, kw):
        # for values read back from a table column (where ints next to floats have become floats)
        return tuple((nm, kw[nm]) for nm in self.fn_args)

    def combos(self):
        spelling = self.variant.get("spelling", "dict")
        items = [(nm, list(self.grid_vals[nm])) for nm in self.grid_names]
        if self.cfg.get("dup") and items:
            # two equal values for the first grid argument, spelled with the same or another type
            nm, vals = items[0]
            v0 = vals[0]
            twin = {0: v0, 1: (float(v0) if isinstance(v0, int) else v0), 2: (True if v0 == 1 else v0)}[self.variant.get("dupkind", 0)]
            items[0] = (nm, vals + [twin])
        if self.cfg["overlap"] and self.variant.get("scalar_overlap"):
            # the overlapping argument's grid value given as a bare scalar
            items.append((self.case_names[0], self.case_vals[self.case_names[0]][0]))
        elif self.cfg["overlap"]:
            items.append((self.case_names[0], list(self.case_vals[self.case_names[0]][:2])))
        if not items:
            return None
        if self.cfg["overlap"] and self.variant.get("scalar_overlap"):
            spelling = "dict"          # (the other spellings wrap every value list)
        if spelling == "iter":
            # values given as single-pass iterables (generator / iterator objects)
            return {k: (x for x in v) if i % 2 == 0 else iter(v) for i, (k, v) in enumerate(items)}
        if spelling == "dict":
            return dict(items)
        if spelling == "tuple":
            if len(items) == 1:
                return items[0]          # single ('a', [..]) pair
            return tuple(items)
        return [(k, tuple(v)) for k, v in items]

    def cases(self, as_dict=True):
        out = []
        for c in self.cfg["cases"]:
            d = {nm: self.case_vals[nm][v - 1] for nm, v in zip(self.case_names, c)}
            if as_dict and self.variant.get("case_key_order") and len(out) % 2 == 1:
                d = dict(reversed(list(d.items())))       # same case, keys written in another order
            if not as_dict and len(self.case_names) == 1 and self.variant.get("bare_cases") and self.variant.get("values") != "tup":
                out.append(d[self.case_names[0]])          # fn_args='w', cases=(v1, v2, ...): values not wrapped in tuples
            else:
                out.append(d if as_dict else tuple(d[nm] for nm in self.case_names))
        return out


class CallLog(object):
    def __init__(self, conc, result_kind):
        self.conc = conc
        self.kind = result_kind
        self.calls = []
        self.bad_kwargs = []

    decoy = False

    def __call__(self, **kw):
        if self.decoy:
            return make_result(1, self.kind)
        conc = self.conc
        extra = dict(kw)
        core = {}
        for nm in conc.fn_args:
            if nm in extra:
                core[nm] = extra.pop(nm)
        want_extra = {**conc.resources, **conc.constants}
        if set(core) != set(conc.fn_args) or _neq(extra, want_extra):
            self.bad_kwargs.append(repr(kw))
        i = conc.id_of.get(conc.key(core)) if set(core) == set(conc.fn_args) else None
        self.calls.append(i if i is not None else -1)
        return make_result(i if i is not None else -1, self.kind)


def _neq(a, b):
    if set(a) != set(b):
        return True
    for k in a:
        if repr(a[k]) != repr(b[k]):
            return True
    return False


def make_result(i, kind):
    if kind == "scalar":
        return float(i)
    if kind == "int":
        return int(i)
    if kind == "tuple2":
        return (float(i), float(2 * i))
    if kind == "array":
        return np.array([float(i), i + 0.5])
    if kind == "array1":
        return np.array([float(i)])            # an array that happens to hold one element stays an array
    if kind == "list2d":
        return [[float(i), 0.0], [1.0, float(-i)]]
    if kind == "str":
        return "tok%d" % i
    if kind == "strbool":
        return ("tok%d" % i, i % 2 == 0)
    if kind == "bool":
        return i % 2 == 0
    raise ValueError(kind)


def project_leaf(x, kind, comp=None):
    """Real leaf -> (id or 0, problem-or-None). comp = component index when split."""
    try:
        if kind in ("scalar", "int") or (kind == "tuple2" and comp is not None):
            mul = 1 if comp in (None, 0) else 2
            if x is None:
                return None, "None leaf"
            v = float(x)
            if math.isnan(v):
                return 0, None
            if v / mul != int(v / mul):
                return None, "non-token value %r" % (x,)
            return int(v / mul), None
        if kind == "tuple2":
            if len(x) != 2:
                return None, "placeholder/result of wrong length %r" % (x,)
            a, b = (np.asarray(x[0], dtype=float), np.asarray(x[1], dtype=float))
            if a.shape != () or b.shape != ():
                return None, "wrong shape %r" % (x,)
            if np.isnan(a) and np.isnan(b):
                return 0, None
            if float(b) != 2 * float(a):
                return None, "inconsistent tuple %r" % (x,)
            return int(a), None
        if kind == "array":
            if len(x) != 2:
                return None, "placeholder/result of wrong length %r" % (x,)
            a = np.asarray([np.asarray(v, dtype=float) for v in x], dtype=float)
            if a.shape != (2,):
                return None, "wrong shape %r" % (x,)
            if np.isnan(a).all():
                return 0, None
            if a[1] != a[0] + 0.5:
                return None, "inconsistent array %r" % (x,)
            return int(a[0]), None
        if kind == "array1":
            if not isinstance(x, np.ndarray) or x.shape != (1,):
                return None, "the one-element array result came back as %r" % (x,)
            v = float(x[0])
            return (0 if math.isnan(v) else int(v)), None
        if kind == "list2d":
            a = np.asarray([[np.asarray(v, dtype=float) for v in row] for row in x], dtype=float)
            if a.shape != (2, 2):
                return None, "wrong shape %r" % (x,)
            if np.isnan(a).all():
                return 0, None
            if a[0, 1] != 0.0 or a[1, 0] != 1.0 or a[1, 1] != -a[0, 0]:
                return None, "inconsistent nested list %r" % (x,)
            return int(a[0, 0]), None
        if kind == "str":
            if x is None:
                return 0, None
            if isinstance(x, float) and math.isnan(x):
                return None, "NaN placeholder for a str result (should be None)"
            return int(str(x)[3:]), None
        if kind == "bool":
            if x is None:
                return 0, None
            if isinstance(x, (bool, np.bool_)):
                return (-2 if bool(x) else -3), None      # a bool says only whether its setting's id is even (-2) or odd (-3)
            return None, "non-bool leaf %r for a bool result" % (x,)
        if kind == "strbool":
            if x is None:
                return None, "None leaf for tuple result"
            if len(x) != 2:
                return None, "wrong length %r" % (x,)
            if all(v is None or (isinstance(v, (float, np.ndarray)) and np.isnan(v)) for v in x):
                return 0, None
            return int(str(x[0])[3:]), None
    except Exception as e:  # noqa
        return None, "cannot project %r: %s" % (x, e)
    return None, "unknown kind"


def flatten_nested(nested, axes_lens):
    """Row-major leaves of an n-deep nested tuple; returns (leaves, problem)."""
    level = [nested]
    for d, n in enumerate(axes_lens):
        nxt = []
        for x in level:
            try:
                if len(x) != n:
                    return None, "axis %d has length %d, expected %d" % (d, len(x), n)
            except TypeError:
                return None, "axis %d: not a sequence: %r" % (d, x)
            nxt.extend(x)
        level = nxt
    return level, None


# -- scripted executors --------------------------------------------------------

class _Future(object):
    def __init__(self, ex, i, thunk, style):
        self.ex, self.i, self.thunk = ex, i, thunk
        self._finished = False      # (the future offers result() or get() only, as documented)
        self.value = None
        self.exc = None
        if style == "submit":
            self.result = self._get
        else:
            self.get = self._get

    def run(self):
        if not self._finished:
            try:
                self.value = self.thunk()
            except BaseException as e:  # noqa
                self.exc = e
            self._finished = True

    def _get(self, timeout=None):
        self.ex.demand(self)
        if self.exc is not None:
            raise self.exc
        return self.value


class Scripted(object):
    """Runs submitted calls in the completion order of the TLC behaviour (hist)."""

    def __init__(self, hist, id_of_call, style):
        self.hist = [tuple(e) for e in hist]
        self.ptr = 0
        self.id_of_call = id_of_call
        self.style = style
        self.futs = {}
        self.drift = []
        self.strict = True
        self.nsub = 0

    def _advance(self, ev):
        """Consume hist up to and including ev, running Complete events on the way."""
        if not self.strict:
            return
        p = self.ptr
        while p < len(self.hist):
            e = self.hist[p]
            if e[0] == "C":
                f = self.futs.get(e[1])
                if f is None:
                    break
                f.run()
                p += 1
                continue
            if e == ev:
                self.ptr = p + 1
                # run completions that directly follow
                while self.ptr < len(self.hist) and self.hist[self.ptr][0] == "C" and self.hist[self.ptr][1] in self.futs:
                    self.futs[self.hist[self.ptr][1]].run()
                    self.ptr += 1
                return
            break
        self.drift.append("real code issued %r where the behaviour has %r" % (ev, self.hist[p] if p < len(self.hist) else None))
        self.strict = False

    def _submit(self, fn, args, kwds):
        i = self.id_of_call(kwds)
        self.nsub += 1
        f = _Future(self, i, lambda: fn(*args, **kwds), self.style if self.style != "mppool" else "apply")
        if i in self.futs or i is None:
            # not a call the behaviour knows: run permissively
            self.strict = False
            self.drift.append("unexpected submission %r" % (kwds,))
            i = ("x", self.nsub)
        self.futs[i] = f
        self._advance(("S", i))
        return f

    def demand(self, f):
        self._advance(("G", f.i))
        f.run()   # permissive fallback: never dead-lock

    def finish(self):
        for f in self.futs.values():
            f.run()


class SubmitExec(Scripted):
    def __init__(self, hist, id_of_call):
        Scripted.__init__(self, hist, id_of_call, "submit")

    def submit(self, fn, *args, **kwds):
        return self._submit(fn, args, kwds)


class ApplyExec(Scripted):
    def __init__(self, hist, id_of_call):
        Scripted.__init__(self, hist, id_of_call, "apply")

    def apply_async(self, fn, *args, **kwds):
        return self._submit(fn, args, kwds)


def make_mppool(hist, id_of_call):
    import multiprocessing.pool as mpp

    class FakePool(mpp.Pool):
        def __init__(self):  # no processes
            self.s = Scripted(hist, id_of_call, "mppool")

        def apply_async(self, fn, args=(), kwds=None, callback=None, error_callback=None):
            return self.s._submit(fn, tuple(args), dict(kwds or {}))

        def __del__(self):
            pass

        def __reduce__(self):
            raise NotImplementedError

    return FakePool()


class ForcedShuffle(object):
    """Patch random.shuffle so that a shuffle applies the behaviour's permutation."""

    def __init__(self, order):
        self.order = order
        self.used = 0

    def __enter__(self):
        self.orig = _random.shuffle
        order = self.order

        def shuffle(lst, *a, **k):
            self.used += 1
            if len(lst) == len(order):
                lst[:] = [lst[i - 1] for i in order]
            else:
                self.orig(lst)

        _random.shuffle = shuffle
        return self

    def __exit__(self, *a):
        _random.shuffle = self.orig


# -- configuration generation ---------------------------------------------------

META0 = dict(cattr=False, cdim=False, res=False, attrs=False, tdim=False)


def grids(max_args, max_vals, max_n, min_args=0):
    out = []
    for k in range(min_args, max_args + 1):
        for g in itertools.product(range(1, max_vals + 1), repeat=k):
            if math.prod(g) <= max_n:
                out.append(list(g))
    return out


def case_sets(nca, nvals, max_cases, ordered=True):
    """Sequences of distinct cases over nca arguments with values 1..nvals."""
    allc = list(itertools.product(range(1, nvals + 1), repeat=nca))
    out = []
    for k in range(1, max_cases + 1):
        it = itertools.permutations(allc, k) if ordered else itertools.combinations(allc, k)
        for cs in it:
            out.append([list(c) for c in cs])
    return out


def mk(grid, nca=0, cases=(), overlap=False, shuffle=False, pool=False, kind="nested", meta=None, dup=False):
    return dict(grid=list(grid), nca=nca, cases=[list(c) for c in cases], overlap=overlap, dup=dup,
                shuffle=shuffle, pool=pool, kind=kind, meta=dict(meta or META0))


def cfg_tla(c):
    # empty sequences must be typed consistently for TLC: <<>> is fine
    return tlc.tla(c)


def run_model(name, configs, max_perm, df="unshuffled", emit=True, workers=None, simulate=None, depth=None,
              seed=None, coverage=False):
    consts = dict(Configs=tlc.Raw("{" + ",\n  ".join(cfg_tla(c) for c in configs) + "}"),
                  MaxPerm=max_perm, DfSettings=df)
    tail = ("INVARIANT TypeOK\nINVARIANT ExactlyOnce\nINVARIANT Placement\nINVARIANT FlatOrder\n"
            "INVARIANT RejectBeforeRun\nINVARIANT UnionAxes\nINVARIANT RowPairing\n"
            "PROPERTY OnlyRequestedOnce\n%sCHECK_DEADLOCK FALSE\n" % ("INVARIANT EmitCase\n" if emit else ""))
    return tlc.run_mc("Sweep", consts, tail, name=name, workers=workers, simulate=simulate, depth=depth,
                      seed=seed, coverage=coverage)


# -- the replay -------------------------------------------------------------------

T_VALUES = [0.5, 1.5]
VAR_DIMS_SPELLINGS = [{"v": ["t"]}, {"v": "t"}, (("v", ("t",)),), {("v",): "t"}, [[], ["t"]], {("v",): ("t",), "x": ()}]


def _ds_fn(log, mode, first_index=None):
    """Wrap the call log so that results have the shape the Dataset variant needs."""
    def fn(**kw):
        i = log(**kw)          # log returns make_result(i, 'int')
        if mode == "autovar":
            # a labelled result whose internal coordinate depends on the first swept argument: t = [j, j + 1]
            import xarray as xr
            j = first_index(i)
            return xr.Dataset({"x": float(i), "v": ("t", np.array([float(i), i + 0.5]))}, coords={"t": [j, j + 1]})
        if mode == "x":
            return float(i)
        if mode == "xmix":
            # the first setting returns a Python int, the others non-integral floats
            return int(i) if i == 1 else float(i) + 0.25
        if mode == "xy":
            return float(i), float(2 * i)
        if mode == "xv":
            return float(i), np.array([float(i), i + 0.5])
        if mode == "auto":
            import xarray as xr
            return xr.Dataset({"x": float(i), "v": ("t", np.array([float(i), i + 0.5]))}, coords={"t": T_VALUES})
        if mode == "autolab":
            # a labelled result that carries a scalar non-index coordinate depending on the swept arguments: part of "what the
            # function returned" at that point
            import xarray as xr
            return xr.Dataset({"x": float(i), "v": ("t", np.array([float(i), i + 0.5]))}, coords={"t": T_VALUES, "lab": 3.0 * i})
        if mode == "autoc":
            # labelled output whose internal dimension has no coordinate of its own: a constant names it
            import xarray as xr
            return xr.Dataset({"x": float(i), "v": ("t", np.array([float(i), i + 0.5]))})
        if mode == "autodict":
            return {"x": float(i), "y": float(2 * i)}
        raise ValueError(mode)
    return fn


def replay_case(case, variant):
    """Run one TLC behaviour through the real code. Returns (problem or None, drift list)."""
    xyz = common.use_repo()
    from xyzpy.gen import combo_runner as cr
    from xyzpy.gen import case_runner as car
    cfg = case["cfg"]
    conc = Concrete(case, variant)
    kind = cfg["kind"]
    rkind = variant.get("result", "scalar")
    if kind in ("ds", "df"):
        log = CallLog(conc, "int")
    else:
        log = CallLog(conc, rkind)
    split = bool(variant.get("split")) and rkind == "tuple2" and kind in ("nested", "flat")

    def id_of_call(kw):
        core = {nm: kw[nm] for nm in conc.fn_args if nm in kw}
        if set(core) != set(conc.fn_args):
            return None
        return conc.id_of.get(conc.key(core))

    executor = None
    if cfg["pool"]:
        style = variant.get("exec", "submit")
        if style == "submit":
            executor = SubmitExec(case["hist"], id_of_call)
        elif style == "apply":
            executor = ApplyExec(case["hist"], id_of_call)
        else:
            executor = make_mppool(case["hist"], id_of_call)
    shuffle = variant.get("noshuffle", False)          # False or 0: both mean "do not shuffle"
    if cfg["shuffle"]:
        shuffle = variant.get("seed", True)
    opts = dict(shuffle=shuffle, verbosity=0)
    if executor is not None:
        opts["executor"] = executor
    consts = {**conc.constants}
    combos = conc.combos()
    cases = conc.cases(as_dict=True) if cfg["nca"] else None
    if cases is not None and len(cases) == 1 and variant.get("bare_case"):
        cases = cases[0]          # a single case may be given as the dict itself
    cases_t = conc.cases(as_dict=variant.get("cases_as_dict", True)) if cfg["nca"] else None
    entry = variant.get("entry", "core")
    fn = log
    drift = []
    err = None
    res = None
    try:
        with ForcedShuffle(case["order"] if cfg["shuffle"] and not cfg["overlap"] else [1]) as fs:
            if kind in ("nested", "flat"):
                if entry == "case_runner" and cfg["nca"] and kind == "flat" and variant.get("infer_fn_args") and not cfg["overlap"]:
                    # argument names inferred from the signature; all but the first case argument keyword-only
                    names = list(conc.case_names)
                    src = "def wrapped(%s%s, **rest):\n    return target(%s, **rest)\n" % (
                        names[0], "".join(", *, " + ", ".join(names[1:])) if len(names) > 1 else "",
                        ", ".join("%s=%s" % (n_, n_) for n_ in names))
                    ns = {"target": fn}
                    exec(src, ns)
                    tcases = conc.cases(as_dict=False)
                    if len(names) == 1:
                        tcases = [c_ if isinstance(c_, tuple) else (c_,) for c_ in tcases]
                    import inspect
                    res = car.case_runner(ns["wrapped"], tuple(inspect.signature(ns["wrapped"]).parameters)[:len(names)] and None, tcases,
                                          combos=combos, constants={**conc.resources, **consts}, split=split, **opts)
                elif entry == "case_runner" and cfg["nca"] >= 2 and kind == "flat" and variant.get("sig_perm") and not cfg["overlap"]:
                    # explicit fn_args in another order than the function's own signature: tuple cases follow fn_args
                    names = list(conc.case_names)
                    src = "def wrapped(%s, **rest):\n    return target(%s, **rest)\n" % (
                        ", ".join(reversed(names)), ", ".join("%s=%s" % (n_, n_) for n_ in names))
                    ns = {"target": fn}
                    exec(src, ns)
                    res = car.case_runner(ns["wrapped"], tuple(names), conc.cases(as_dict=False),
                                          combos=combos, constants={**conc.resources, **consts}, split=split, **opts)
                elif (entry == "case_runner" and cfg["nca"] >= 2 and kind == "flat" and variant.get("kw_cases") and not cfg["overlap"]
                      and not (cases is not None and isinstance(cases, dict))):
                    # a function that names only its first swept argument and takes the others through **kwargs: cases spelled
                    # as dicts carry keys that are not among the (inferred or explicit) fn_args - every key must reach the call
                    names = list(conc.case_names)
                    src = "def wrapped(%s, **rest):\n    return target(%s=%s, **rest)\n" % (names[0], names[0], names[0])
                    ns = {"target": fn}
                    exec(src, ns)
                    res = car.case_runner(ns["wrapped"], None if variant.get("bare_cases") else (names[0],), conc.cases(as_dict=True),
                                          combos=combos, constants={**conc.resources, **consts}, split=split, **opts)
                elif entry == "case_runner" and cfg["nca"] and kind == "flat":
                    res = car.case_runner(fn, conc.case_names[0] if (len(conc.case_names) == 1 and variant.get("bare_cases")
                                                                     and variant.get("values") != "tup") else conc.case_names, cases_t,
                                          combos=combos, constants={**conc.resources, **consts}, split=split, **opts)
                else:
                    res = cr.combo_runner(fn, combos, cases=cases, constants={**conc.resources, **consts} or None,
                                          split=split, flat=(kind == "flat"), **opts)
            else:
                mode = variant.get("ds", "x")
                to_df = kind == "df"
                var_names = {"x": "x", "xy": ["x", "y"], "xv": ["x", "v"], "auto": None, "autodict": None, "autovar": None, "xmix": "x", "autoc": None, "autolab": None}[mode]
                var_dims = None
                var_coords = None
                if mode == "xv":
                    var_dims = VAR_DIMS_SPELLINGS[variant.get("vds", 0)]
                    if not cfg["meta"]["cdim"]:
                        var_coords = {"t": T_VALUES}
                dfn = _ds_fn(log, mode, first_index=lambda i: (case["settings"][i - 1][0] if 1 <= i <= len(case["settings"]) and case["settings"][i - 1] else 1))
                if variant.get("sig_perm") and cfg["nca"] >= 2 and not cfg["overlap"]:
                    # the function's own signature lists the arguments in another order than the fn_args handed over
                    names_ = list(conc.fn_args)
                    src_ = "def wrapped(%s, **rest):\n    return target(%s, **rest)\n" % (
                        ", ".join(reversed(names_)), ", ".join("%s=%s" % (n_, n_) for n_ in names_))
                    ns_ = {"target": dfn}
                    exec(src_, ns_)
                    dfn = ns_["wrapped"]
                kwargs = dict(var_dims=var_dims, var_coords=var_coords, constants=consts or None,
                              resources=conc.resources or None, attrs=conc.attrs or None)
                def decoy(r):
                    # an earlier run on the same Runner with per-run constants must not change later runs
                    if not variant.get("decoy") or not conc.grid_names or cfg["overlap"] or cfg.get("dup"):
                        return
                    log.decoy = True
                    try:
                        nm = conc.grid_names[0]
                        over = {"kattr": 99, "zz": 5}
                        if cfg["meta"]["cdim"]:
                            over["t"] = [7.0, 8.0]
                        sub = {g: conc.grid_vals[g][:1] for g in conc.grid_names}
                        if cfg["nca"]:
                            r.run_cases(conc.cases(as_dict=True)[:1], combos=xyz.gen.prepare.parse_combos(sub) or None,
                                        constants=over, verbosity=0)
                        else:
                            r.run_combos(sub, constants=over, verbosity=0)
                    except Exception as e:  # noqa
                        drift.append("decoy run failed: %r" % (e,))
                    finally:
                        log.decoy = False
                if entry == "runner":
                    r = xyz.Runner(dfn, var_names, fn_args=conc.fn_args, **kwargs)
                    decoy(r)
                    if cfg["nca"] and not combos:
                        res = r.run_cases(cases, to_df=to_df, **opts) if to_df else r.run_cases(cases, **opts)
                    elif cfg["nca"]:
                        res = r.run_cases(cases, combos=combos and xyz.gen.prepare.parse_combos(combos), to_df=to_df, **opts)
                    else:
                        res = r.run_combos(combos, to_df=to_df, **opts)
                    if not to_df and r.last_ds is not res:
                        drift.append("Runner.last_ds is not the returned dataset")
                elif entry == "label":
                    r = xyz.label(var_names, fn_args=conc.fn_args, **kwargs)(dfn)
                    decoy(r)
                    if cfg["nca"]:
                        res = r.run_cases(cases, combos=combos and xyz.gen.prepare.parse_combos(combos), to_df=to_df, **opts)
                    else:
                        res = r.run_combos(combos, to_df=to_df, **opts)
                elif cfg["nca"] and entry == "case_to":
                    f = car.case_runner_to_df if to_df else car.case_runner_to_ds
                    res = f(dfn, conc.case_names, cases_t,
                            var_names, combos=combos, **kwargs, **opts)
                else:
                    res = cr.combo_runner_to_ds(dfn, combos, var_names, cases=cases, to_df=to_df, **kwargs, **opts)
            if cfg["shuffle"] and not cfg["overlap"] and fs.used != 1:
                drift.append("random.shuffle used %d times" % fs.used)
    except Exception as e:  # noqa
        err = e
    if executor is not None:
        s = executor.s if hasattr(executor, "s") else executor
        drift.extend(s.drift)

    # ---- compare with the behaviour -----------------------------------------
    if case["outcome"] == "rejected":
        if err is None:
            return ("invalid input (an argument in both cases and grid, or duplicate values for one argument) was not rejected before running", drift)
        if log.calls:
            return "function was called %d times before the overlap was rejected" % len(log.calls), drift
        return None, drift
    if err is not None:
        import traceback
        return "raised %s: %s" % (type(err).__name__, "".join(traceback.format_exception_only(type(err), err)).strip()[:300]), drift
    if log.bad_kwargs:
        return "function called with wrong keyword arguments: %s" % log.bad_kwargs[0][:200], drift
    n = case["n"]
    if sorted(log.calls) != list(range(1, n + 1)):
        return "call log %r is not each requested setting exactly once (n=%d)" % (sorted(log.calls)[:12], n), drift
    if (cfg["pool"] and executor is not None and not drift) or (not cfg["pool"]):
        if log.calls != case["calls"]:
            drift.append("call order %r differs from the behaviour's %r" % (log.calls[:8], case["calls"][:8]))
    axes = case["axes"]
    lens = [len(a) for a in axes]
    out = case["out"]
    if kind == "nested":
        comps = [(res, None)] if not split else [(res[0], 0), (res[1], 1)]
        if split and len(res) != 2:
            return "split output has %d components" % len(res), drift
        unordered = bool(cfg["nca"]) and variant.get("values") == "hetero_str"
        for r_, comp in comps:
            leaves, prob = flatten_nested(r_, lens)
            if prob:
                return "nested output: " + prob, drift
            if unordered:
                # the union of unsortable case values may come in any order: every requested setting's result exactly once,
                # placeholders everywhere else
                ids = []
                for leaf in leaves:
                    i, prob = project_leaf(leaf, rkind, comp)
                    if prob:
                        return "nested output: %s" % prob, drift
                    ids.append(i)
                if rkind != "bool" and sorted(ids) != sorted(out):
                    return "nested output holds the results of the settings %r, expected (in some order) %r (0 = missing)" % (
                        sorted(ids), sorted(out)), drift
                continue
            for k, leaf in enumerate(leaves):
                i, prob = project_leaf(leaf, rkind, comp)
                if prob:
                    return "position %d: %s" % (k, prob), drift
                if i in (-2, -3):
                    if out[k] == 0 or (out[k] % 2 == 0) != (i == -2):
                        return "position %d holds %r, expected %s" % (
                            k, i == -2, "missing (None)" if out[k] == 0 else "the value of setting %d (%r)" % (out[k], out[k] % 2 == 0)), drift
                    continue
                if i != out[k]:
                    return "position %d holds the value of setting %s, expected %s (0 = missing)" % (k, i, out[k]), drift
        return None, drift
    if kind == "flat":
        comps = [(res, None)] if not split else [(res[0], 0), (res[1], 1)]
        for r_, comp in comps:
            if len(r_) != n:
                return "flat output has %d entries, expected %d" % (len(r_), n), drift
            for k, leaf in enumerate(r_):
                i, prob = project_leaf(leaf, rkind, comp)
                if prob or i != out[k]:
                    return "flat position %d holds %s, expected %s (%s)" % (k, i, out[k], prob), drift
        return None, drift
    if kind == "ds":
        return check_ds(case, conc, variant, res), drift
    if kind == "df":
        return check_df(case, conc, variant, res), drift
    return "unknown kind", drift


def axis_values(conc, axes):
    vals = []
    for nm, ax in zip(conc.fn_args, axes):
        src = conc.case_vals[nm] if nm in conc.case_vals else conc.grid_vals[nm]
        vals.append([src[v - 1] for v in ax])
    return vals


def check_ds(case, conc, variant, ds):
    import xarray as xr
    if not isinstance(ds, xr.Dataset):
        return "result is %s, not a Dataset" % type(ds).__name__
    cfg = case["cfg"]
    mode = variant.get("ds", "x")
    axes = case["axes"]
    avals = axis_values(conc, axes)
    vars_ = {"x": ["x"], "xy": ["x", "y"], "xv": ["x", "v"], "auto": ["x", "v"], "autodict": ["x", "y"], "autovar": ["x", "v"], "xmix": ["x"], "autoc": ["x", "v"], "autolab": ["x", "v"]}[mode]
    if sorted(ds.data_vars) != sorted(vars_):
        return "data variables %r, expected %r" % (sorted(ds.data_vars), sorted(vars_))
    for nm, vals in zip(conc.fn_args, avals):
        if nm not in ds.coords:
            return "argument %r is not a coordinate" % nm
        got = list(ds[nm].values.tolist())
        if got != list(vals):
            return "coordinate %r is %r, expected %r" % (nm, got, list(vals))
    for v in vars_:
        want = tuple(conc.fn_args) + (("t",) if v == "v" else ())
        if tuple(ds[v].dims) != want:
            return "variable %r has dims %r, expected %r" % (v, tuple(ds[v].dims), want)
    want_coords = set(conc.fn_args) | set(case["coords"])
    if mode in ("auto", "autovar", "autolab"):
        want_coords |= {"t"}
    if mode == "autolab":
        want_coords |= {"lab"}
    if set(map(str, ds.coords)) != want_coords:
        return "coordinates %r, expected %r" % (sorted(map(str, ds.coords)), sorted(want_coords))
    tvals = None
    if mode == "autovar":
        js = sorted({s_[0] if s_ else 1 for s_ in case["settings"]})
        tvals = sorted({j for j in js} | {j + 1 for j in js})
        if list(np.asarray(ds["t"].values, dtype=float)) != [float(t) for t in tvals]:
            return "coordinate t is %r, expected the union %r of the calls' own coordinates" % (ds["t"].values, tvals)
    elif "t" in want_coords and list(np.asarray(ds["t"].values, dtype=float)) != T_VALUES:
        return "coordinate t is %r" % (ds["t"].values,)
    if set(ds.attrs) != set(case["attrs"]):
        return "attributes %r, expected %r (constants -> attrs unless they name a dimension; resources never)" % (
            sorted(ds.attrs), sorted(case["attrs"]))
    for k in ds.attrs:
        want = {"kattr": CONSTS["kattr"], "note": ATTRS["note"], "t": CONSTS["t"]}[k]
        if repr(list(ds.attrs[k]) if k == "t" else ds.attrs[k]) != repr(want):
            return "attribute %s = %r, expected %r" % (k, ds.attrs[k], want)
    out = case["out"]
    for k, pt in enumerate(itertools.product(*avals)):
        sel = ds.sel(dict(zip(conc.fn_args, pt)))
        i = out[k]
        if mode == "autolab" and i:
            # (nothing is demanded of the coordinate at slots that were never computed)
            lab = np.asarray(sel["lab"].values, dtype=float)
            if lab.shape != () or float(lab) != 3.0 * i:
                return "ds.sel(%r) carries the non-index coordinate lab = %r, the function returned %r there" % (
                    dict(zip(conc.fn_args, pt)), lab.tolist(), 3.0 * i)
        for v in vars_:
            a = np.asarray(sel[v].values, dtype=float)
            if v == "x" and mode == "xmix":
                want = np.array(float(i) if i == 1 else (float(i) + 0.25 if i else np.nan))
            elif v == "x":
                want = np.array(float(i)) if i else np.array(np.nan)
            elif v == "y":
                want = np.array(float(2 * i)) if i else np.array(np.nan)
            elif tvals is not None:
                j = case["settings"][i - 1][0] if i and case["settings"][i - 1] else None
                want = np.array([float(i) if (i and t == j) else (i + 0.5 if (i and t == j + 1) else np.nan) for t in tvals])
            else:
                want = np.array([float(i), i + 0.5]) if i else np.array([np.nan, np.nan])
            if a.shape != want.shape or not np.array_equal(a, want, equal_nan=True):
                return "ds.sel(%r)[%r] = %r, expected %r" % (dict(zip(conc.fn_args, pt)), v, a.tolist(), want.tolist())
    return None


def check_df(case, conc, variant, df):
    import pandas as pd
    if not isinstance(df, pd.DataFrame):
        return "result is %s, not a DataFrame" % type(df).__name__
    mode = variant.get("ds", "x")
    vars_ = {"x": ["x"], "xy": ["x", "y"]}[mode]
    n = case["n"]
    if len(df) != n:
        return "%d rows, expected %d" % (len(df), n)
    want_cols = set(conc.fn_args) | set(case["cols"]) | set(vars_)
    if set(df.columns) != want_cols:
        return "columns %r, expected %r" % (sorted(df.columns), sorted(want_cols))
    seen = []
    for _, row in df.iterrows():
        kw = {nm: row[nm] for nm in conc.fn_args}
        kw = {k: (v.item() if hasattr(v, "item") else v) for k, v in kw.items()}
        i = conc.id_of_loose.get(conc.key_loose(kw))
        if i is None:
            return "row with arguments %r is not a requested setting" % (kw,)
        if float(row["x"]) != float(i):
            return "row for setting %d (%r) carries the result of setting %s" % (i, kw, row["x"])
        if "y" in vars_ and float(row["y"]) != 2.0 * i:
            return "row for setting %d carries y=%r" % (i, row["y"])
        if "kattr" in want_cols and row["kattr"] != CONSTS["kattr"]:
            return "constant column wrong"
        if "note" in want_cols:
            nv = row["note"]
            if isinstance(conc.attrs.get("note"), tuple):
                if not isinstance(nv, (tuple, list)) or tuple(nv) != conc.attrs["note"]:
                    return "attrs column holds %r in the row of setting %d, the attribute is %r" % (nv, i, conc.attrs["note"])
            elif nv != ATTRS["note"]:
                return "attrs column wrong"
        seen.append(i)
    if sorted(seen) != list(range(1, n + 1)):
        return "rows cover settings %r, expected each of 1..%d once" % (sorted(seen)[:12], n)
    return None


# -- drivers for C01 / C02 / C03 ---------------------------------------------------

RESULT_KINDS_GRID = ["scalar", "tuple2", "array", "int", "list2d", "array1"]
RESULT_KINDS_CASES = ["scalar", "tuple2", "array", "str", "strbool", "list2d", "bool"]
EXEC_STYLES = ["submit", "apply", "mppool"]
VALUE_FLAVOURS = ["int", "float", "str", "mixed", "hetero", "hetero_str", "tup"]
SPELLINGS = ["dict", "tuple", "list", "iter"]


def variants_for(case, idx, prop, n_variants):
    cfg = case["cfg"]
    out = []
    for j in range(n_variants):
        k = idx * 7 + j * 3
        # (the flavour index uses idx itself: k is a multiple of 7 when j = 0)
        v = dict(values=VALUE_FLAVOURS[(idx * 5 + j * 3) % 7], spelling=SPELLINGS[(k // 2 + j) % 4],
                 exec=EXEC_STYLES[(k + j) % 3], seed=[True, 3, 11][(k + j) % 3],
                 cases_as_dict=(k % 2 == 0), noshuffle=[False, 0][(k // 3) % 2], case_key_order=(k % 3 == 1),
                 dupkind=k % 3, decoy=(k % 2 == 1), bare_cases=(k % 4 < 2), infer_fn_args=(k % 5 < 2),
                 grid_order=[None, "desc", None, "rot"][(k + j) % 4], sig_perm=(k % 2 == 1), kw_cases=(k % 5 >= 2 and k % 2 == 0), bare_case=(k % 2 == 0), seq_attr=(k % 3 != 1), scalar_overlap=(((k // 7) // 4) % 2 == 1))
        # numbers next to strings: positional outputs only (a Dataset coordinate would turn them all into strings); the
        # union of such case values has no defined order, so a nested case output is then compared as a multiset
        ok_hs = (not cfg.get("dup")) and cfg["kind"] in ("nested", "flat")
        if v["values"] == "hetero_str" and not ok_hs:
            v["values"] = "hetero"
        if v["values"] == "tup" and (cfg["kind"] not in ("nested", "flat") or cfg.get("dup")):
            v["values"] = "int"          # (tuples cannot be coordinate labels)
        if cfg["kind"] in ("nested", "flat"):
            kinds = RESULT_KINDS_CASES if cfg["nca"] else RESULT_KINDS_GRID
            v["result"] = kinds[(k + j) % len(kinds)]
            if v["result"] == "bool" and not (cfg["nca"] and cfg["kind"] == "nested"):
                v["result"] = "scalar"
            v["split"] = (k % 2 == 1)
            v["entry"] = "case_runner" if (cfg["nca"] and cfg["kind"] == "flat" and k % 3 == 0) else "core"
        elif cfg["kind"] == "ds":
            modes = ["x", "xy", "xv", "auto"] if cfg["meta"]["tdim"] else ["x", "xy", "autodict", "xmix"]
            if cfg["meta"]["tdim"]:
                modes = ["xv", "auto", "autovar", "autolab"] if not cfg["meta"]["cdim"] else ["xv", "autoc"]
            v["ds"] = modes[(k + j) % len(modes)]
            entries = ["to_ds", "runner", "label"] + (["case_to"] if cfg["nca"] else [])
            v["entry"] = entries[(k + j) % len(entries)]
            if v["ds"] in ("auto", "autodict") and cfg["nca"] and v["entry"] in ("runner", "label"):
                pass
            v["vds"] = (k + j) % len(VAR_DIMS_SPELLINGS)
        else:
            v["ds"] = ["x", "xy"][(k + j) % 2]
            entries = ["to_ds", "runner"] + (["case_to"] if cfg["nca"] else [])
            v["entry"] = entries[(k + j) % len(entries)]
        out.append(v)
    if cfg["overlap"]:
        # rejection must happen at every entry point and for both spellings of the overlapping grid value: replay the
        # (cheap: nothing runs) behaviour through all of them instead of one chosen by the behaviour's position
        if cfg["kind"] in ("nested", "flat"):
            entries = ["core"] + (["case_runner"] if (cfg["nca"] and cfg["kind"] == "flat") else [])
        elif cfg["kind"] == "ds":
            entries = ["to_ds", "runner", "label"] + (["case_to"] if cfg["nca"] else [])
        else:
            entries = ["to_ds", "runner"] + (["case_to"] if cfg["nca"] else [])
        out = [dict(out[0], entry=e_, scalar_overlap=s_) for e_ in entries for s_ in (False, True)]
    return out


def _replay_job(job):
    case, variant = job
    try:
        prob, drift = replay_case(case, variant)
    except Exception as e:  # harness failure
        import traceback
        return case, variant, "HARNESS " + traceback.format_exc()[-800:], []
    return case, variant, prob, drift


def case_key(case, variant):
    cfg = case["cfg"]
    return dict(kind=cfg["kind"], nca=cfg["nca"], shuffle=cfg["shuffle"], pool=cfg["pool"],
                overlap=cfg["overlap"], entry=variant.get("entry"), result=variant.get("result", variant.get("ds")))


def drive(rep, runs, prop, n_variants=1, max_replays=None):
    """runs: list of dict(name, configs, max_perm, simulate, depth). Checks each model with TLC
    (all workers, no emission), emits behaviours (1 worker) and replays them."""
    jobs = []
    idx = 0
    for run in runs:
        if run.get("check", True):
            r = run_model("MC_" + run["name"] + "_chk", run["configs"], run["max_perm"], emit=False, coverage=True)
            rep.add_tlc(run["name"] + " exhaustive", r)
            if r.violated:
                raise tlc.TLCError("Sweep.tla: %s violated in %s" % (r.violated, run["name"]))
            need = (["Enumerate", "Unshuffle", "Place"] if any(not c["overlap"] for c in run["configs"]) else []) + (["Reject"] if any(c["overlap"] for c in run["configs"]) else []) \
                + (["Shuffle"] if any(c["shuffle"] and not c["overlap"] for c in run["configs"]) else []) \
                + (["Submit", "CompleteAny", "Collect"] if any(c["pool"] and not c["overlap"] for c in run["configs"]) else []) \
                + (["RunSeq"] if any(not c["pool"] and not c["overlap"] for c in run["configs"]) else [])
            for a in need:
                if r.coverage and r.coverage.get(a, (0, 0))[1] == 0:
                    raise tlc.TLCError("vacuous: action %s never taken in %s" % (a, run["name"]))
        if not run.get("simulate"):
            e = run_model("MC_" + run["name"] + "_emit", run["configs"], run["max_perm"], emit=True, workers=1)
        else:
            e = run_model("MC_" + run["name"] + "_sim", run["configs"], run["max_perm"], emit=True, workers=1,
                          simulate=dict(num=run["simulate"]), depth=run.get("depth", 60), seed=rep.seed)
            rep.add_tlc(run["name"] + " simulate", e)
        cases = e.cases
        if run.get("simulate"):
            # the same terminal state may be printed more than once: de-duplicate
            seen = {}
            for c in cases:
                seen.setdefault(common.stable_hash(c), c)
            cases = list(seen.values())
        if run.get("sample") and len(cases) > run["sample"]:
            rnd = _random.Random(rep.seed * 1000003 + len(cases))
            cases = rnd.sample(cases, run["sample"])
        rep.note("%s: %d behaviours emitted by TLC, %d replayed" % (run["name"], len(e.cases), len(cases)))
        for c in cases:
            for v in variants_for(c, idx, prop, n_variants):
                jobs.append((c, v))
            idx += 1
    results = common.pmap(_replay_job, jobs)
    ndrift = 0
    harness = []
    for case, variant, prob, drift in results:
        nontrivial = case["n"] >= 2 or case["outcome"] == "rejected"
        rep.add_case([case["cfg"], case["order"], case["hist"], variant], nontrivial=nontrivial,
                     sample=dict(cfg=case["cfg"], order=case["order"], hist=case["hist"], out=case["out"], variant=variant)
                     if len(rep.samples) < 3 and case["n"] >= 3 else None)
        if prob and prob.startswith("HARNESS"):
            harness.append(prob)
            continue
        if drift:
            ndrift += 1
            if ndrift <= 5:
                rep.note("model_drift: %s :: %s" % (case_key(case, variant), drift[0]))
        if prob:
            rep.add_violation(dict(case=case, variant=variant), prob, key=case_key(case, variant))
    rep.extra["model_drift_cases"] = ndrift
    if harness:
        raise RuntimeError("%d replay(s) ended in a harness exception, first: %s" % (len(harness), harness[0]))
    return results


def replay_saved(rep, saved):
    prob, drift = replay_case(saved["case"], saved["variant"])
    for d in drift:
        print("drift:", d)
    if prob:
        rep.add_violation(saved, prob, key=case_key(saved["case"], saved["variant"]))


# -- trace validation (code -> spec) with real nondeterminism ------------------------------------

def _loky_fn(logpath, names, **kw):
    """Top-level (picklable) swept function for process pools: logs its call with O_APPEND."""
    import os as _os
    import time as _time
    import random as _rnd
    _time.sleep(_rnd.random() * 0.003)
    line = ",".join(str(kw[nm]) for nm in names) + "\n"
    fd = _os.open(logpath, _os.O_WRONLY | _os.O_APPEND | _os.O_CREAT)
    try:
        _os.write(fd, line.encode())
    finally:
        _os.close(fd)
    return float(sum(kw[nm] * (100 ** j) for j, nm in enumerate(names)))


def record_real_runs(seed, count):
    """Run the real combo_runner with real shuffles / real pools; return trace records."""
    import concurrent.futures as cf
    import functools
    import multiprocessing.pool as mpp
    import tempfile
    import threading
    import time
    xyz = common.use_repo()
    from xyzpy.gen import combo_runner as cr
    rnd = _random.Random(seed)
    shapes = [[2, 2], [3], [4], [2, 3], [1, 3], [2, 1, 2]]
    traces = []
    kinds = ["seq_shuffle", "threadpool", "mp_threadpool", "seq_shuffle", "threadpool", "loky", "threadpool2_many"]
    # the caller's pools: created once and handed to every sweep of that kind (they stay the caller's)
    shared_tp = cf.ThreadPoolExecutor(3)
    shared_mp = mpp.ThreadPool(3)
    try:
        return _record_real_runs(rnd, count, shapes, kinds, shared_tp, shared_mp, cr)
    finally:
        shared_tp.shutdown()
        shared_mp.close()
        shared_mp.join()


def _record_real_runs(rnd, count, shapes, kinds, shared_tp, shared_mp, cr):
    import functools
    import tempfile
    import threading
    import time
    traces = []
    for t in range(count):
        grid = shapes[t % len(shapes)]
        kind = kinds[t % len(kinds)]
        n = math.prod(grid)
        if kind == "threadpool2_many":
            grid = [9, 9]              # 81 settings on a two-worker pool (not a multiple of any task chunking)
            n = 81
        elif kind == "loky" and (t // len(kinds)) % 2 == 1:
            # the built-in process pool with more settings than 4 x workers, not a multiple of it
            grid = [[3, 3], [5, 3]][(t // (2 * len(kinds))) % 2]
            n = math.prod(grid)
        elif kind in ("threadpool", "mp_threadpool", "loky") and n > 4:
            grid = [2, 2]
            n = 4
        names = GRID_NAMES[:len(grid)]
        combos = {nm: list(range(1, g + 1)) for nm, g in zip(names, grid)}
        locs = list(itertools.product(*[range(1, g + 1) for g in grid]))
        tok = {float(sum(v * (100 ** j) for j, v in enumerate(loc))): i + 1 for i, loc in enumerate(locs)}
        shuffle = False
        flat = (t % 4 == 3)
        calls = []
        lock = threading.Lock()

        def fn(**kw):
            time.sleep(rnd.random() * 0.002)
            with lock:
                calls.append(tok[float(sum(kw[nm] * (100 ** j) for j, nm in enumerate(names)))])
            return float(sum(kw[nm] * (100 ** j) for j, nm in enumerate(names)))

        opts = dict(verbosity=0, flat=flat)
        error = None
        res = None
        try:
            if kind == "seq_shuffle":
                shuffle = rnd.choice([True, 1, 7, 12345])
                res = cr.combo_runner(fn, combos, shuffle=shuffle, **opts)
            elif kind == "threadpool":
                shuffle = rnd.choice([False, 3])
                res = cr.combo_runner(fn, combos, shuffle=shuffle, executor=shared_tp, **opts)
            elif kind == "mp_threadpool":
                res = cr.combo_runner(fn, combos, executor=shared_mp, **opts)
            elif kind == "threadpool2_many":
                import concurrent.futures as _cf
                shuffle = rnd.choice([False, 5])
                with _cf.ThreadPoolExecutor(2) as _pool2:
                    res = cr.combo_runner(fn, combos, shuffle=shuffle, executor=_pool2, **opts)
            else:
                d = tempfile.mkdtemp(prefix="vx-loky-", dir=common.scratch("loky"))
                logp = os.path.join(d, "calls.log")
                pf = functools.partial(_loky_fn, logp, tuple(names))
                res = cr.combo_runner(pf, combos, num_workers=2, **opts)
                with open(logp) as fh:
                    for line in fh:
                        vals = [int(x) for x in line.strip().split(",")]
                        calls.append(tok[float(sum(v * (100 ** j) for j, v in enumerate(vals)))])
        except Exception as e:  # noqa
            error = "%s: %s" % (type(e).__name__, str(e)[:200])
        def _id(x):
            try:
                return tok.get(float(x), -1)
            except Exception:  # noqa   (None, an array, ...: not a value the function returned)
                return -1
        if error is not None:
            out = [-1]
        elif flat:
            out = [_id(x) for x in res]
        else:
            leaves, prob = flatten_nested(res, grid)
            out = [_id(x) for x in leaves] if not prob else [-1]
        if kind in ("loky", "threadpool2_many") and n > 4:
            # many settings on a process pool: the order of the calls is not constrained by the property, so the log is
            # validated as a multiset (sorted, against the sequential model) - the interleaving search of the pool model
            # is exponential in the number of settings
            cfg = mk(grid, shuffle=False, pool=False, kind="flat" if flat else "nested")
            calls = sorted(calls)
            kind = "loky_many" if kind == "loky" else kind
        else:
            cfg = mk(grid, shuffle=bool(shuffle), pool=(kind != "seq_shuffle"), kind="flat" if flat else "nested")
        traces.append(dict(cfg=cfg, calls=list(calls), out=out, rejected=False, how=kind, shuffle=repr(shuffle), error=error))
    return traces


def validate_traces(rep, traces, name="SweepTrace"):
    """Run SweepTrace.tla over the recorded executions; returns the list of rejected traces."""
    import json
    import os
    d = common.scratch("traces")
    path = os.path.join(d, "%s-%d.json" % (name, os.getpid()))
    with open(path, "w") as fh:
        json.dump([dict(cfg=t["cfg"], calls=t["calls"], out=t["out"], rejected=t["rejected"]) for t in traces], fh)
    cfgtxt = ("SPECIFICATION TraceSpec\nCONSTANTS\n  Configs = {}\n  MaxPerm = 6\n  DfSettings = \"unshuffled\"\n"
              "INVARIANT TypeOK\nINVARIANT ExactlyOnce\nINVARIANT Placement\nINVARIANT FlatOrder\nINVARIANT ReportAccepted\n"
              "CHECK_DEADLOCK FALSE\n")
    r = tlc.run("SweepTrace", cfgtxt, name=name, workers=1, env={"TRACE_FILE": path})
    rep.add_tlc("SweepTrace validation of %d recorded executions" % len(traces), r)
    acc = set()
    for line in r.out.splitlines():
        if line.startswith('<<"ACCEPT", '):
            acc.add(int(line.split(",")[1].strip(" >")))
    rejected = [(i + 1, t) for i, t in enumerate(traces) if (i + 1) not in acc]
    return rejected, r
