"""Deterministic scheduling of threads at their file-system operations.

Actors are threads registered with a Sched.  For the duration of a run, Python's own I/O entry
points (builtins.open / io.open, os.stat, os.scandir, os.listdir, os.rename, os.replace,
os.remove, os.unlink, os.open, time.sleep, os.getpid) are interposed *from the harness*; calls by
registered actors on "shared" paths (the crop's results/ directory) become scheduling points: the
actor announces the operation and blocks until the scheduler grants it, so exactly one operation
happens at a time, in the order the scheduler chooses.  Files opened for writing are unbuffered
and every write() is split in two chunks, each its own scheduling point, so that readers can
observe every prefix class (empty, partial, complete).  Files opened for reading are snapshotted
at open time.  Nothing in xyzpy is patched."""
import builtins
import fnmatch
import io
import os
import re
import threading
import time

_real = dict(open=builtins.open, ioopen=io.open, stat=os.stat, scandir=os.scandir, listdir=os.listdir,
             rename=os.rename, replace=os.replace, remove=os.remove, unlink=os.unlink, osopen=os.open,
             sleep=time.sleep, getpid=os.getpid, rmdir=os.rmdir, mkdir=os.mkdir,
             sendfile=getattr(os, "sendfile", None), copy_file_range=getattr(os, "copy_file_range", None))

_RES = re.compile(r"^xyz-result-(\d+)\.jbdmp$")
GLOB = "xyz-result-*.jbdmp"


def classify(path):
    b = os.path.basename(str(path))
    m = _RES.match(b)
    if m:
        return "res%d" % int(m.group(1))
    if fnmatch.fnmatch(b, GLOB):
        return "tmpc:" + b       # a temporary name that the progress glob would count
    return "tmp:" + b


class Actor(object):
    def __init__(self, name, target, fakepid):
        self.name = name
        self.target = target
        self.fakepid = fakepid
        self.state = "new"        # new / running / waiting / done
        self.pending = None
        self.go = False
        self.result = None
        self.exc = None
        self.trace = []           # operations actually performed: (kind, class[, class2])
        self.thread = None
        self.free = False         # free-running (no scheduling) after drift


class Sched(object):
    def __init__(self, shared_dir):
        self.shared = os.path.realpath(shared_dir)
        self.cv = threading.Condition()
        self.actors = {}
        self.by_thread = {}
        self.names = {}           # temp basename -> stable id
        self.on_list = None       # callback(actor) evaluated when a 'list' is granted
        self.classifier = None    # optional path -> class function (default: results/ naming)
        self.kill_at = None       # C10: SIGKILL this process when the k-th operation is about to happen
        self.count = 0
        self.count_dirfd = False  # C10: operations relative to a directory descriptor are points too
        self.fdlabels = {}        # fd of a file opened for writing -> its label
        self.log = []             # global order of performed operations: (actor, label)

    # -- registration -------------------------------------------------------
    def add(self, name, target, fakepid):
        a = Actor(name, target, fakepid)
        self.actors[name] = a
        return a

    def _is_shared(self, path):
        if isinstance(path, int):
            return False
        try:
            p = os.path.realpath(os.fspath(path))
        except TypeError:
            return False
        if isinstance(p, bytes):
            return False
        return p == self.shared or p.startswith(self.shared + os.sep)

    def label_path(self, path):
        c = (self.classifier or classify)(path)
        if c.startswith("tmp"):
            kind, b = c.split(":", 1)
            if b not in self.names:
                self.names[b] = "%s%d" % (kind, len(self.names) + 1)
            return self.names[b]
        return c

    # -- actor side ------------------------------------------------------------
    def current(self):
        return self.by_thread.get(threading.get_ident())

    def point(self, a, label):
        """Called by an actor before a shared operation; returns when granted."""
        if a.free:
            self.count += 1
            if self.kill_at is not None and self.count == self.kill_at:
                import signal
                os.kill(_real["getpid"](), signal.SIGKILL)
            a.trace.append(label)
            return
        with self.cv:
            a.pending = label
            a.state = "waiting"
            self.cv.notify_all()
            self.cv.wait_for(lambda: a.go or a.free)
            a.go = False
            a.state = "running"
            a.pending = None
        a.trace.append(label)
        self.log.append((a.name, label))
        if label[0] == "list" and self.on_list is not None:
            self.on_list(a)

    def _run_actor(self, a):
        self.by_thread[threading.get_ident()] = a
        with self.cv:
            a.state = "running"
        try:
            a.result = a.target()
        except BaseException as e:  # noqa
            a.exc = e
        finally:
            with self.cv:
                a.state = "done"
                self.cv.notify_all()

    # -- scheduler side -----------------------------------------------------------
    def start(self):
        for a in self.actors.values():
            a.thread = threading.Thread(target=self._run_actor, args=(a,), daemon=True)
            a.thread.start()

    def wait_blocked(self, a, timeout=30.0):
        with self.cv:
            ok = self.cv.wait_for(lambda: a.state in ("waiting", "done"), timeout=timeout)
        if not ok:
            raise RuntimeError("actor %s neither blocks nor finishes (state %s)" % (a.name, a.state))
        return a.state

    def grant(self, a):
        with self.cv:
            a.go = True
            self.cv.notify_all()
        # wait until it blocks again or finishes
        with self.cv:
            ok = self.cv.wait_for(lambda: (not a.go) and a.state in ("waiting", "done"), timeout=30.0)
        if not ok:
            raise RuntimeError("actor %s did not come back after a grant" % a.name)

    def release_all(self):
        """Let everybody run freely (used after drift, and to finish)."""
        with self.cv:
            for a in self.actors.values():
                a.free = True
            self.cv.notify_all()
        for a in self.actors.values():
            a.thread.join(timeout=60)

    def run_schedule(self, steps, strict_labels=True):
        """steps: list of (actor name, expected kind or None).  Returns list of drift notes."""
        drift = []
        for k, (name, kind) in enumerate(steps):
            a = self.actors[name]
            st = self.wait_blocked(a)
            if st == "done":
                drift.append("step %d: actor %s already finished, the behaviour expects %r" % (k, name, kind))
                break
            if kind is not None and a.pending[0] != kind:
                drift.append("step %d: actor %s is about to do %r, the behaviour expects %r" % (k, name, a.pending, kind))
                break
            self.grant(a)
        return drift

    def finish_round_robin(self, max_steps=10000):
        """Grant waiting actors in turn until all are done (used when the schedule is exhausted)."""
        n = 0
        while n < max_steps:
            live = [a for a in self.actors.values() if a.state != "done"]
            if not live:
                return True
            progressed = False
            for a in live:
                st = self.wait_blocked(a)
                if st == "waiting":
                    self.grant(a)
                    progressed = True
                    n += 1
            if not progressed:
                return all(a.state == "done" for a in self.actors.values())
        return False


# -- interposition ---------------------------------------------------------------------------

_active = [None]        # the Sched currently installed (one at a time per process)


class _Writer(object):
    """Binary file opened for writing, with Python's default buffering made explicit: data reaches
    the file when the buffer (8 KiB) overflows, on flush() and on close() - not on write().  Each
    transfer to the file is split in two chunks, each its own scheduling point, so that readers can
    observe the empty, partial and complete file."""

    BUFSIZE = 8192

    def __init__(self, sched, actor, f, lab):
        self._s, self._a, self._f, self._lab = sched, actor, f, lab
        self._buf = bytearray()
        self.closed = False
        try:
            sched.fdlabels[f.fileno()] = lab       # descriptor-level copies (sendfile ...) into this file are writes too
        except Exception:
            pass

    def write(self, data):
        data = bytes(data)
        self._buf += data
        if len(self._buf) > self.BUFSIZE:
            self._drain()
        return len(data)

    def _drain(self):
        data = bytes(self._buf)
        self._buf = bytearray()
        n = len(data)
        if n == 0:
            return
        cuts = [data] if n < 2 else [data[:n // 2], data[n // 2:]]
        for chunk in cuts:
            self._s.point(self._a, ("write", self._lab))
            self._f.write(chunk)

    def flush(self):
        self._drain()
        self._f.flush()

    def close(self):
        if not self.closed:
            self._drain()
            self._s.point(self._a, ("close", self._lab))
            self._f.close()
            self.closed = True

    def fileno(self):
        return self._f.fileno()

    def tell(self):
        return self._f.tell() + len(self._buf)

    def writable(self):
        return True

    def readable(self):
        return False

    def seekable(self):
        return False

    def __enter__(self):
        return self

    def __exit__(self, *a):
        self.close()
        return False

    def __del__(self):
        try:
            if not self.closed:
                self._f.close()      # like a killed process: buffered data is lost
        except Exception:
            pass


class _TextWriter(_Writer):
    def write(self, s):
        return _Writer.write(self, s.encode())


def _open(file, mode="r", *args, **kw):
    s = _active[0]
    a = s.current() if s is not None else None
    if a is None:
        return _real["open"](file, mode, *args, **kw)
    if isinstance(file, int):
        path = s.fdpaths.pop(file, None) if hasattr(s, "fdpaths") else None
        if path is None:
            return _real["open"](file, mode, *args, **kw)
        lab = s.label_path(path)
        f = _real["open"](file, "wb", buffering=0)
        return _Writer(s, a, f, lab) if "b" in mode else _TextWriter(s, a, f, lab)
    if not s._is_shared(file):
        return _real["open"](file, mode, *args, **kw)
    lab = s.label_path(file)
    if any(c in mode for c in "wax+"):
        s.point(a, ("creat", lab))
        f = _real["open"](file, mode.replace("t", "").replace("b", "") + "b", buffering=0)
        return _Writer(s, a, f, lab) if "b" in mode else _TextWriter(s, a, f, lab)
    s.point(a, ("read", lab))
    with _real["open"](file, "rb") as f:
        data = f.read()
    if "b" in mode:
        return io.BytesIO(data)
    return io.StringIO(data.decode())


def _osopen(path, flags, mode=0o777, *, dir_fd=None):
    s = _active[0]
    a = s.current() if s is not None else None
    if a is None or dir_fd is not None or not s._is_shared(path) or not (flags & (os.O_CREAT | os.O_WRONLY | os.O_RDWR)):
        if dir_fd is not None:
            return _real["osopen"](path, flags, mode, dir_fd=dir_fd)
        return _real["osopen"](path, flags, mode)
    s.point(a, ("creat", s.label_path(path)))
    fd = _real["osopen"](path, flags, mode)
    if not hasattr(s, "fdpaths"):
        s.fdpaths = {}
    s.fdpaths[fd] = path
    return fd


def _stat(path, *args, **kw):
    s = _active[0]
    a = s.current() if s is not None else None
    if a is not None and not kw.get("dir_fd") and s._is_shared(path):
        s.point(a, ("stat", s.label_path(path) if os.path.realpath(os.fspath(path)) != s.shared else "root"))
    return _real["stat"](path, *args, **kw)


class _ScanIter(object):
    def __init__(self, entries):
        self._it = iter(entries)

    def __iter__(self):
        return self

    def __next__(self):
        return next(self._it)

    def __enter__(self):
        return self

    def __exit__(self, *a):
        return False

    def close(self):
        pass


def _scandir(path="."):
    s = _active[0]
    a = s.current() if s is not None else None
    if a is not None and s._is_shared(path):
        s.point(a, ("list", "results"))
        with _real["scandir"](path) as it:
            return _ScanIter(list(it))
    return _real["scandir"](path)


def _listdir(path="."):
    s = _active[0]
    a = s.current() if s is not None else None
    if a is not None and s._is_shared(path):
        s.point(a, ("list", "results"))
    return _real["listdir"](path)


def _mk_rename(which):
    def f(src, dst, *args, **kw):
        s = _active[0]
        a = s.current() if s is not None else None
        if a is not None and not kw and (s._is_shared(src) or s._is_shared(dst)):
            s.point(a, ("rename", s.label_path(src), s.label_path(dst)))
        return _real[which](src, dst, *args, **kw)
    return f


def _mk_unlink(which, kind="unlink"):
    def f(path, *args, **kw):
        s = _active[0]
        a = s.current() if s is not None else None
        if a is not None:
            if not kw.get("dir_fd") and s._is_shared(path):
                s.point(a, (kind, s.label_path(path)))
            elif kw.get("dir_fd") is not None and s.count_dirfd:
                # shutil.rmtree deletes through directory descriptors: only the name is known
                s.point(a, (kind, s.label_path(path)))
        return _real[which](path, *args, **kw)
    return f


def _mk_fdcopy(which):
    """os.sendfile / os.copy_file_range into a file an actor is writing: a write operation of that file."""
    def f(a0, a1, *args, **kw):
        s = _active[0]
        a = s.current() if s is not None else None
        out_fd = a0 if which == "sendfile" else a1
        if a is not None and out_fd in s.fdlabels:
            s.point(a, ("write", s.fdlabels[out_fd]))
        return _real[which](a0, a1, *args, **kw)
    return f


def _sleep(t):
    s = _active[0]
    a = s.current() if s is not None else None
    if a is None:
        return _real["sleep"](t)
    s.point(a, ("sleep", "-"))


def _getpid():
    s = _active[0]
    a = s.current() if s is not None else None
    if a is None:
        return _real["getpid"]()
    return a.fakepid


class Installed(object):
    def __init__(self, sched):
        self.sched = sched

    def __enter__(self):
        if _active[0] is not None:
            raise RuntimeError("fsproxy already installed")
        _active[0] = self.sched
        builtins.open = _open
        io.open = _open
        os.open = _osopen
        os.stat = _stat
        os.scandir = _scandir
        os.listdir = _listdir
        os.rename = _mk_rename("rename")
        os.replace = _mk_rename("replace")
        os.remove = _mk_unlink("remove")
        os.unlink = _mk_unlink("unlink")
        os.rmdir = _mk_unlink("rmdir", "rmdir")
        os.mkdir = _mk_unlink("mkdir", "mkdir")
        time.sleep = _sleep
        os.getpid = _getpid
        if _real["sendfile"] is not None:
            os.sendfile = _mk_fdcopy("sendfile")
        if _real["copy_file_range"] is not None:
            os.copy_file_range = _mk_fdcopy("copy_file_range")
        return self.sched

    def __exit__(self, *a):
        builtins.open = _real["open"]
        io.open = _real["ioopen"]
        os.open = _real["osopen"]
        os.stat = _real["stat"]
        os.scandir = _real["scandir"]
        os.listdir = _real["listdir"]
        os.rename = _real["rename"]
        os.replace = _real["replace"]
        os.remove = _real["remove"]
        os.unlink = _real["unlink"]
        os.rmdir = _real["rmdir"]
        os.mkdir = _real["mkdir"]
        time.sleep = _real["sleep"]
        os.getpid = _real["getpid"]
        if _real["sendfile"] is not None:
            os.sendfile = _real["sendfile"]
        if _real["copy_file_range"] is not None:
            os.copy_file_range = _real["copy_file_range"]
        _active[0] = None
        return False


def run_inline(sched, name, target, fakepid=4242):
    """Run `target` in the calling thread as a free-running actor (operations are counted and
    traced, not scheduled).  Used to record a program and, with sched.kill_at, to die at the k-th
    operation."""
    a = sched.add(name, target, fakepid)
    a.free = True
    a.state = "running"
    sched.by_thread[threading.get_ident()] = a
    with Installed(sched):
        try:
            a.result = target()
        except BaseException as e:  # noqa
            a.exc = e
    a.state = "done"
    sched.by_thread.pop(threading.get_ident(), None)
    return a
