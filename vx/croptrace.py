"""Validation of the repository's own crop tests as traces against CropTrace.tla."""
import json
import os
import subprocess

from . import common, tlc

TESTS = ["tests/test_gen/test_cropping.py", "tests/test_gen/test_farming.py"]


def record(repo=None):
    repo = repo or common.REPO
    if not all(os.path.exists(os.path.join(repo, t)) for t in TESTS):
        return None
    out = os.path.join(common.scratch("croptrace"), "events-%d.json" % os.getpid())
    env = dict(os.environ, PYTHONPATH=common.VERIF + os.pathsep + repo, VX_TRACE_OUT=out, TQDM_DISABLE="1")
    p = subprocess.run(["/venv/bin/python", "-W", "ignore", "-m", "pytest", "-q", "-p", "no:cacheprovider", "-p", "vx.pytest_vx",
                        "-x", "--timeout=600"] + TESTS, cwd=repo, env=env, capture_output=True, text=True)
    if not os.path.exists(out):
        raise RuntimeError("recording the repository's crop tests failed:\n" + p.stdout[-1500:] + p.stderr[-500:])
    events = json.load(open(out))
    failed = "failed" in p.stdout.splitlines()[-1] if p.stdout.strip() else True
    traces = {}
    for e in events:
        traces.setdefault((e["test"], e["crop"]), []).append(e)
    res = []
    for (test, crop), evs in sorted(traces.items()):
        evs.sort(key=lambda e: e["seq"])
        res.append(dict(test=test, events=[dict(ev=e["ev"], outcome=e["outcome"],
                                               args=dict(ids=e["args"].get("ids", []), wait=e["args"].get("wait", False),
                                                         allow=e["args"].get("allow", False), clean_up=e["args"].get("clean_up", "none")),
                                               post=e["post"]) for e in evs]))
    return res, failed, p.stdout.splitlines()[-1] if p.stdout.strip() else ""


def validate(rep, traces, name="CropTrace", progress=False):
    path = os.path.join(common.scratch("croptrace"), "%s-%d.json" % (name, os.getpid()))
    with open(path, "w") as fh:
        json.dump([t["events"] for t in traces], fh)
    cfg = "SPECIFICATION Spec\nINVARIANT ProgressSane\nINVARIANT ReportAccepted\n%sCHECK_DEADLOCK FALSE\n" % (
        "INVARIANT ReportProgress\n" if progress else "")
    r = tlc.run("CropTrace", cfg, name=name, workers=1, env={"TRACE_FILE": path})
    if rep is not None:
        rep.add_tlc("CropTrace validation of %d recorded test traces" % len(traces), r)
    acc, at = set(), {}
    for line in r.out.splitlines():
        if line.startswith('<<"ACCEPT", '):
            acc.add(int(line.split(",")[1].strip(" >")))
        elif line.startswith('<<"AT", '):
            parts = line.strip("<>").split(",")
            t, l = int(parts[1]), int(parts[2].strip(" >"))
            at[t] = max(at.get(t, 0), l)
    rejected = [(i + 1, t) for i, t in enumerate(traces) if (i + 1) not in acc]
    return rejected, at, r


def check_repo_tests(rep, claim_events):
    """Record + validate; violations only for traces stuck at an event kind in claim_events."""
    import copy
    rec = record()
    if rec is None:
        rep.note("repository tests not present under %s: trace validation of the test-suite skipped" % common.REPO)
        return
    traces, failed, summary = rec
    rep.note("repository crop tests under the recording plugin: %s" % summary)
    # binding self-test: dropping a finished batch from one logged post-state must be rejected
    bad = None
    for t in traces:
        for k, e in enumerate(t["events"]):
            if e["ev"] == "grow" and e["outcome"] == "ok" and e["post"]["results"]:
                bad = copy.deepcopy(t)
                bad["events"][k]["post"]["results"] = bad["events"][k]["post"]["results"][:-1]
                break
        if bad:
            break
    if bad is not None:
        rej, _, _ = validate(None, [bad], name="CropTraceSelf")
        if not rej:
            raise tlc.TLCError("binding self-test failed: corrupted test trace accepted by CropTrace.tla")
        rep.note("binding self-test: a test trace with one finished batch removed from a logged state is rejected by CropTrace.tla")
    rejected, at, r = validate(rep, traces)
    if rejected:
        rejected, at, _ = validate(None, traces, name="CropTraceDiag", progress=True)
    rep.traces += len(traces) - len(rejected)
    rep.extra["test_suite_traces"] = dict(recorded=len(traces), accepted=len(traces) - len(rejected),
                                          events=sum(len(t["events"]) for t in traces))
    for i, t in rejected:
        k = at.get(i, 0)
        ev = t["events"][k] if k < len(t["events"]) else None
        what = "trace of %s is not a behaviour of CropTrace.tla: stuck at event %d %r (state before: %r)" % (
            t["test"], k, ev, t["events"][k - 1]["post"] if k else None)
        if ev is not None and ev["ev"] in claim_events:
            rep.add_violation(dict(kind="test_trace", test=t["test"], events=t["events"]), what,
                              key=dict(kind="test_trace", ev=ev["ev"], test=t["test"]))
        else:
            rep.note("off-property: " + what[:300])
