"""C10: kill a real process at every file-system operation boundary of a phase, then check what a
later process finds and run the documented recovery.  The phase runs in a forked child whose Python
I/O entry points are interposed (vx/fsproxy.py, free-running single actor); at the k-th operation
the child sends itself SIGKILL.  The recorded operation sequence is also the writer program that
CropFS.tla crashes at every index."""
import math
import os
import pickle
import shutil
import signal
import tempfile
import traceback

from . import common, fsproxy, tlc

NAME = "c10"
COMBOS = {"a": [1, 2, 3, 4, 5]}
NBATCH = 3
PRIOR = {"a": [8, 9]}           # harvested before: must survive everything


def make_fn():
    def fn(a):
        return float(100 * a + 7)
    return fn


def expected():
    return tuple(float(100 * a + 7) for a in COMBOS["a"])


class Box(object):
    """A directory holding the crop (and, for farmer crops, the data file)."""

    def __init__(self, farmer, engine="joblib", root=None):
        self.xyz = common.use_repo()
        self.farmer = farmer
        self.engine = engine
        self.tmp = root or tempfile.mkdtemp(prefix="c10-", dir=common.scratch("c10"))
        ext = {"joblib": ".dmp", "h5netcdf": ".h5"}.get(engine, ".dmp")
        self.df_engine = "csv" if engine == "csv" else "pickle"
        self.data_name = (os.path.join(self.tmp, "data" + ext) if farmer == "harvester"
                          else os.path.join(self.tmp, "table." + ("csv" if self.df_engine == "csv" else "pkl")))
        self.fn = make_fn()

    def close(self):
        shutil.rmtree(self.tmp, ignore_errors=True)

    def copy(self):
        dst = tempfile.mkdtemp(prefix="c10c-", dir=common.scratch("c10"))
        shutil.rmtree(dst)
        shutil.copytree(self.tmp, dst)
        return Box(self.farmer, self.engine, root=dst)

    def make_farmer(self):
        xyz = self.xyz
        if self.farmer == "none":
            return None
        r = xyz.Runner(self.fn, var_names="x")
        if self.farmer == "runner":
            return r
        if self.farmer == "harvester":
            return xyz.Harvester(r, data_name=self.data_name, engine=self.engine)
        return xyz.Sampler(r, data_name=self.data_name, engine=self.df_engine)

    def crop(self, fresh=True, for_sow=False):
        xyz = self.xyz
        f = self.make_farmer()
        kw = dict(name=NAME, parent_dir=self.tmp)
        if for_sow:
            kw["num_batches"] = NBATCH
            pass
        if f is None:
            return xyz.Crop(fn=self.fn, **kw) if for_sow else xyz.Crop(**kw)
        return xyz.Crop(farmer=f, **kw)

    def location(self):
        return os.path.join(self.tmp, ".xyz-" + NAME)

    def classify(self, path):
        p = str(path)
        b = os.path.basename(p.rstrip("/"))
        import re
        m = re.match(r"^xyz-batch-(\d+)\.jbdmp$", b)
        if m:
            return "bat%d" % int(m.group(1))
        m = re.match(r"^xyz-result-(\d+)\.jbdmp$", b)
        if m:
            return "res%d" % int(m.group(1))
        if b == "xyz-settings.jbdmp":
            return "info"
        if b == "xyz-function.clpkl":
            return "fn"
        if b == os.path.basename(self.data_name):
            return "data"
        if b in ("batches", "results", ".xyz-" + NAME):
            return "dir_" + b.strip(".").replace("-", "_")
        return "tmp:" + b


# -- phases ------------------------------------------------------------------------

def sow(box, resow=False):
    c = box.crop(for_sow=True)
    if box.farmer == "sampler":
        vals = list(COMBOS["a"])
        rdir = os.path.join(box.location(), "results")
        if resow and not (os.path.isdir(rdir) and os.listdir(rdir)):
            # the recovery's re-sow draws afresh (here: the same arguments in another order); batch files that survived the kill
            # belong to the old draws and must not be kept.  (Only when no result survived: a Sampler re-sown over surviving
            # results pairs them with the new draws on the pinned tree too - see DESIGN 15, lead.)
            vals = vals[::-1]
        it = iter(vals)
        c.sow_samples(len(vals), combos={"a": lambda: next(it)}, verbosity=0)
    else:
        if box.engine == "shuffle":
            # a raw crop sown in shuffled order: a re-sow (recovery) must lay the batches out the same way
            c.sow_combos(COMBOS, verbosity=0, shuffle=True)
        else:
            c.sow_combos(COMBOS, verbosity=0)


def prepare(box, upto):
    """Bring the box to the state before a phase."""
    if box.farmer == "harvester":
        h = box.make_farmer()
        h.harvest_combos(PRIOR, verbosity=0)
    if box.farmer == "sampler":
        # two earlier campaigns already merged into the table (the crop's sync is the third)
        for a in PRIOR["a"]:
            box.make_farmer().sample_combos(1, {"a": [a]}, verbosity=0)
    if upto == "sow":
        return
    sow(box)
    if upto in ("grow", "grow_missing_all"):
        return
    c = box.crop()
    if upto == "grow_missing":
        c.grow(1, verbosity=0)
        return
    c.grow_missing(verbosity=0)       # upto == "reap"


def phase_fn(box, phase):
    if phase == "sow":
        return lambda: sow(box)
    if phase == "grow":
        return lambda: box.xyz.grow(2, crop=box.crop(), verbosity=0)
    if phase in ("grow_missing", "grow_missing_all"):
        return lambda: box.crop().grow_missing(verbosity=0)
    if phase == "reap":
        return lambda: box.crop().reap()
    raise ValueError(phase)


def silence():
    try:
        fd = os.open(os.devnull, os.O_WRONLY)
        os.dup2(fd, 1)
        os.dup2(fd, 2)
    except Exception:
        pass


def run_in_child(box, target, kill_at=None, record_path=None):
    """Fork; the child runs target() under the proxy as a free actor and dies by SIGKILL at the
    kill_at-th operation.  Returns (how it ended, recorded ops if record_path)."""
    pid = os.fork()
    if pid == 0:
        code = 0
        try:
            silence()
            s = fsproxy.Sched(box.tmp)
            s.classifier = box.classify
            s.count_dirfd = True
            s.kill_at = kill_at
            a = fsproxy.run_inline(s, "w", target)
            if record_path:
                with fsproxy._real["open"](record_path, "wb") as fh:
                    pickle.dump(dict(trace=a.trace, exc=repr(a.exc) if a.exc else None), fh)
            code = 0 if a.exc is None else 3
        except BaseException:
            code = 4
        os._exit(code)
    _, status = os.waitpid(pid, 0)
    if os.WIFSIGNALED(status):
        return "killed", None
    rec = None
    if record_path and os.path.exists(record_path):
        rec = pickle.load(open(record_path, "rb"))
        os.remove(record_path)
    return ("ok" if os.WEXITSTATUS(status) == 0 else "failed:%d" % os.WEXITSTATUS(status)), rec


def record(box, phase):
    rp = os.path.join(common.scratch("c10rec"), "rec-%d-%s.pkl" % (os.getpid(), phase))
    how, rec = run_in_child(box, phase_fn(box, phase), record_path=rp)
    if how != "ok" or rec is None or rec["exc"]:
        raise common.LibraryFailure("the uninterrupted phase %s (%s crop) fails: %s %r" % (phase, box.farmer, how, rec))
    return [tuple(op) for op in rec["trace"]]


# -- observation of a directory --------------------------------------------------------

def file_state(path):
    if not os.path.exists(path):
        return "absent"
    try:
        with open(path, "rb") as fh:
            pickle.load(fh)
        return "complete"
    except Exception:
        return "partial"


def dir_state(box):
    loc = box.location()
    st = {}
    st["info"] = file_state(os.path.join(loc, "xyz-settings.jbdmp"))
    st["fn"] = file_state(os.path.join(loc, "xyz-function.clpkl"))
    for i in range(1, NBATCH + 1):
        st["bat%d" % i] = file_state(os.path.join(loc, "batches", "xyz-batch-%d.jbdmp" % i))
        st["res%d" % i] = file_state(os.path.join(loc, "results", "xyz-result-%d.jbdmp" % i))
    return st


def prior_survives(box):
    """None if the harvested data of before is intact, else a message."""
    if box.farmer == "sampler":
        if not os.path.exists(box.data_name):
            return "the sampler's table %s is gone (dir: %r)" % (os.path.basename(box.data_name), sorted(os.listdir(box.tmp)))
        try:
            df = box.xyz.load_df(box.data_name, engine=box.df_engine)
        except Exception as e:  # noqa
            return "the sampler's table cannot be loaded any more: %s: %s" % (type(e).__name__, str(e)[:120])
        try:
            rows = [(float(r["a"]), float(r["x"])) for _, r in df.iterrows()]
        except Exception as e:  # noqa
            return "the sampler's table is unreadable: %s: %s" % (type(e).__name__, str(e)[:120])
        for a in PRIOR["a"]:
            if (float(a), float(100 * a + 7)) not in rows:
                return "the previously sampled row a=%d is gone from the table (rows now: %r)" % (a, rows[:8])
        bad = [r for r in rows if r[1] != 100 * r[0] + 7]
        if bad:
            return "the table holds the row %r that no run produced" % (bad[0],)
        return None
    if box.farmer != "harvester":
        return None
    from xyzpy.manage import auto_add_extension
    f = auto_add_extension(box.data_name, box.engine)
    if not os.path.exists(f):
        return "the harvester file %s is gone (dir: %r)" % (os.path.basename(f), sorted(os.listdir(box.tmp)))
    try:
        ds = box.xyz.load_ds(f, engine=box.engine)
    except Exception as e:  # noqa
        return "the harvester file cannot be loaded any more: %s: %s" % (type(e).__name__, str(e)[:120])
    try:
        for a in PRIOR["a"]:
            try:
                x = float(ds["x"].sel(a=a).values)
            except KeyError:
                return "previously harvested point a=%d is gone from the harvester file" % a
            if x != 100 * a + 7:
                return "previously harvested point a=%d now holds %r" % (a, x)
    finally:
        ds.close()
    return None


def reap_value(box, res):
    """Project what reap returned to the tuple of values over COMBOS['a'] (None if not comparable)."""
    import numpy as np
    if box.farmer == "none":
        return tuple(float(v) for v in res)
    if box.farmer == "sampler":
        d = {int(r["a"]): float(r["x"]) for _, r in res.iterrows()}
        return tuple(d.get(a, float("nan")) for a in COMBOS["a"])
    return tuple(float(res["x"].sel(a=a).values) for a in COMBOS["a"])


def reap_now(box):
    """A reap attempted right away by a fresh process (on a copy, nothing deleted).  Returns
    ('raised', msg) or ('returned', values)."""
    cp = box.copy()
    try:
        try:
            c = cp.crop()
            res = c.reap(clean_up=False)
        except Exception as e:  # noqa
            return "raised", "%s: %s" % (type(e).__name__, str(e)[:100])
        try:
            return "returned", reap_value(cp, res)
        except Exception as e:  # noqa
            return "returned", "unprojectable: %r" % (e,)
    finally:
        cp.close()


def recover(box):
    """The documented recovery, by fresh objects: re-sow if the sown files are incomplete, discard
    bad results, grow the missing batches, reap.  Returns (values or None, log)."""
    log = []
    st = dir_state(box)
    sown_ok = all(st[k] == "complete" for k in ["info", "fn"] + ["bat%d" % i for i in range(1, NBATCH + 1)])
    c = None
    if sown_ok:
        try:
            c = box.crop()
            if c.num_sown_batches != c.num_batches:
                sown_ok = False
        except Exception as e:  # noqa
            log.append("Crop() failed: %r" % (e,))
            sown_ok = False
    if not sown_ok:
        log.append("re-sow")
        if os.path.isdir(box.location()) and st["info"] != "complete":
            # settings unreadable: a fresh Crop object must not try to load them
            try:
                os.remove(os.path.join(box.location(), "xyz-settings.jbdmp"))
            except OSError:
                pass
        sow(box, resow=True)
        c = box.crop()
    bad = c.check_bad()
    if bad:
        log.append("check_bad removed %r" % (bad,))
    c.grow_missing(verbosity=0)
    res = c.reap()
    return reap_value(box, res), log
