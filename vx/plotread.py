"""Reading back what a matplotlib Figure shows (Agg backend): data axes and their grid
position, lines / error bars, scatter collections, step-filled histograms, quad meshes,
legends and colour bars.  Nothing here knows about xyzpy; the readers only use public
matplotlib artist accessors, so they can be shared by the checks of the plotting properties."""
import numpy as np


def quiet_matplotlib():
    """Agg backend, no font-manager chatter."""
    import logging
    import matplotlib
    matplotlib.use("Agg", force=True)
    logging.getLogger("matplotlib.font_manager").setLevel(logging.ERROR)
    logging.getLogger("matplotlib").setLevel(logging.ERROR)


def close_all():
    import matplotlib.pyplot as plt
    plt.close("all")


def is_colorbar_axes(ax):
    return ax.get_label() == "<colorbar>" or getattr(ax, "_colorbar", None) is not None


def data_axes(fig):
    """[(grid_row, grid_col, ax)] for every axes that is not a colour bar; (0, 0) for a
    free-standing axes."""
    out = []
    for ax in fig.axes:
        if is_colorbar_axes(ax):
            continue
        ss = ax.get_subplotspec() if hasattr(ax, "get_subplotspec") else None
        if ss is not None:
            out.append((ss.rowspan.start, ss.colspan.start, ax))
        else:
            out.append((0, 0, ax))
    return out


def colorbars(fig):
    """[dict(vmin, vmax, cmap, title, log)] for every colour bar of the figure."""
    out = []
    for ax in fig.axes:
        cb = getattr(ax, "_colorbar", None)
        if cb is None:
            continue
        norm = cb.mappable.norm if cb.mappable is not None else cb.norm
        out.append(dict(vmin=None if norm.vmin is None else float(norm.vmin),
                        vmax=None if norm.vmax is None else float(norm.vmax),
                        cmap=cb.cmap, title=ax.get_title(),
                        log=type(norm).__name__ == "LogNorm"))
    return out


def legend_texts(legend):
    return [t.get_text() for t in legend.get_texts()]


def legends(fig):
    """Texts of every legend in the figure (figure-level first, then per axes)."""
    out = [legend_texts(lg) for lg in fig.legends]
    for ax in fig.axes:
        lg = ax.get_legend()
        if lg is not None:
            out.append(legend_texts(lg))
    return out


def rgba(col):
    from matplotlib.colors import to_rgba
    return tuple(float(v) for v in to_rgba(col))


def read_lines(ax):
    """Series drawn with Axes.plot / Axes.errorbar, in drawing order:
    dict(label, xy (n,2), color rgba, marker, linestyle, yerr_segments, xerr_segments)."""
    from matplotlib.container import ErrorbarContainer
    out = []
    in_container = set()
    conts = [c for c in ax.containers if isinstance(c, ErrorbarContainer)]
    for c in conts:
        data_line, caplines, barcols = c.lines
        in_container.add(id(data_line))
        for cl in caplines:
            in_container.add(id(cl))
    # keep the overall drawing order: containers are created in the order of their data lines
    by_line = {id(c.lines[0]): c for c in conts}
    for ln in ax.lines:
        if id(ln) in by_line:
            c = by_line[id(ln)]
            segs = {}
            bars = list(c.lines[2])
            names = []
            if c.has_xerr:
                names.append("x")
            if c.has_yerr:
                names.append("y")
            for nm, lc in zip(names, bars):
                segs[nm] = [np.asarray(s, dtype=float) for s in lc.get_segments()]
            out.append(dict(label=c.get_label(), xy=np.asarray(ln.get_xydata(), dtype=float),
                            color=rgba(ln.get_color()), marker=ln.get_marker(), linestyle=ln.get_linestyle(),
                            xerr=segs.get("x"), yerr=segs.get("y")))
        elif id(ln) in in_container:
            continue
        else:
            out.append(dict(label=ln.get_label(), xy=np.asarray(ln.get_xydata(), dtype=float),
                            color=rgba(ln.get_color()), marker=ln.get_marker(), linestyle=ln.get_linestyle(),
                            xerr=None, yerr=None))
    return out


def read_scatter(ax):
    """PathCollections in drawing order: dict(label, xy (n,2), hidden (n,), colors (n,4) or (1,4), mapped,
    values, vmin, vmax)."""
    from matplotlib.collections import PathCollection
    out = []
    for col in ax.collections:
        if not isinstance(col, PathCollection):
            continue
        # Axes.scatter masks the offsets of points whose colour value / size is non-finite but keeps the
        # coordinates it was handed: xy is what the caller passed, hidden says which of them are masked
        off = np.ma.asarray(col.get_offsets(), dtype=float)
        xy = np.array(np.ma.getdata(off), dtype=float).reshape(-1, 2)
        hidden = np.ma.getmaskarray(off).reshape(-1, 2).any(axis=1)
        arr = col.get_array()
        if arr is not None:
            arr = np.ma.asarray(arr, dtype=float)
            cols = np.asarray(col.cmap(col.norm(arr)), dtype=float).reshape(-1, 4)
            out.append(dict(label=col.get_label(), xy=xy, hidden=hidden, colors=cols, mapped=True,
                            values=np.ma.filled(arr, np.nan),
                            vmin=None if col.norm.vmin is None else float(col.norm.vmin),
                            vmax=None if col.norm.vmax is None else float(col.norm.vmax)))
        else:
            fc = np.asarray(col.get_facecolor(), dtype=float).reshape(-1, 4)
            if len(fc) == 0:          # unfilled markers ('x', '+', ...) carry the colour on the edge
                fc = np.asarray(col.get_edgecolor(), dtype=float).reshape(-1, 4)
            out.append(dict(label=col.get_label(), xy=xy, hidden=hidden, colors=fc,
                            mapped=False, values=None, vmin=None, vmax=None))
    return out


def read_step_histograms(ax):
    """Step-filled histograms (one Polygon per data set): dict(label, edges, heights,
    edgecolor, facecolor), in the order of Axes.patches."""
    from matplotlib.patches import Polygon
    out = []
    for p in ax.patches:
        if not isinstance(p, Polygon):
            continue
        xy = np.asarray(p.get_xy(), dtype=float)
        # (e0,0) (e0,h0) (e1,h0) (e1,h1) ... (eN,h_{N-1}) (eN,0) then back along the base line
        if len(xy) < 5 or (len(xy) - 1) % 4 != 0:
            out.append(dict(label=p.get_label(), edges=None, heights=None, raw=xy,
                            edgecolor=rgba(p.get_edgecolor()), facecolor=rgba(p.get_facecolor())))
            continue
        n = (len(xy) - 1) // 4
        edges = xy[0:2 * n + 2:2, 0]
        heights = xy[1:2 * n + 1:2, 1]
        out.append(dict(label=p.get_label(), edges=edges, heights=heights, raw=xy,
                        edgecolor=rgba(p.get_edgecolor()), facecolor=rgba(p.get_facecolor())))
    return out


def read_meshes(ax):
    """QuadMeshes: dict(values (ny,nx) float with nan where masked, mask, xedges, yedges, vmin, vmax,
    cmap, log)."""
    from matplotlib.collections import QuadMesh
    out = []
    for col in ax.collections:
        if not isinstance(col, QuadMesh):
            continue
        coords = np.asarray(col.get_coordinates(), dtype=float)      # (ny+1, nx+1, 2)
        ny, nx = coords.shape[0] - 1, coords.shape[1] - 1
        arr = np.ma.asarray(col.get_array(), dtype=float).reshape(ny, nx)
        mask = np.ma.getmaskarray(arr)
        out.append(dict(values=np.ma.filled(arr, np.nan), mask=np.array(mask),
                        xedges=coords[0, :, 0], yedges=coords[:, 0, 1], coords=coords,
                        vmin=None if col.norm.vmin is None else float(col.norm.vmin),
                        vmax=None if col.norm.vmax is None else float(col.norm.vmax),
                        cmap=col.cmap, log=type(col.norm).__name__ == "LogNorm"))
    return out


def cmap_colour(cmap, v, eps=1e-9):
    """Colours a colour map may legitimately give for the normalised value v: the look-up is by
    int(v * N), so right at a bin boundary either neighbour is accepted."""
    return [tuple(float(c) for c in cmap(float(x))) for x in (v, max(0.0, v - eps), min(1.0, v + eps))]


def colour_matches(real, candidates, tol=1e-6, alpha=False):
    n = 4 if alpha else 3
    return any(all(abs(real[i] - c[i]) <= tol for i in range(n)) for c in candidates)
