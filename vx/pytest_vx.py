"""pytest plugin (lives in /verif, loaded with `-p vx.pytest_vx`): records every public Crop call of the
repository's own tests as an event with the crop directory's state afterwards, for validation against
CropTrace.tla.  Nothing in /repo is changed: the methods are wrapped from outside at plugin load."""
import functools
import json
import os
import re
import threading

_depth = threading.local()
_events = []
_seq = [0]


def _state(location):
    st = dict(exists=os.path.isdir(location), prepared=False, nb=0, results=[])
    if st["exists"]:
        st["prepared"] = os.path.exists(os.path.join(location, "xyz-settings.jbdmp"))
        try:
            st["nb"] = len([f for f in os.listdir(os.path.join(location, "batches")) if re.match(r"xyz-batch-\d+\.jbdmp$", f)])
            st["results"] = sorted(int(m.group(1)) for m in (re.match(r"xyz-result-(\d+)\.jbdmp$", f)
                                                             for f in os.listdir(os.path.join(location, "results"))) if m)
        except OSError:
            pass
    return st


def _emit(ev, location, args, outcome, test):
    _seq[0] += 1
    _events.append(dict(seq=_seq[0], ev=ev, crop=location, args=args, outcome=outcome, post=_state(location), test=test))


def _wrap(owner, name, ev, argf):
    orig = getattr(owner, name)

    @functools.wraps(orig)
    def wrapper(*a, **kw):
        d = getattr(_depth, "n", 0)
        _depth.n = d + 1
        outcome = "ok"
        try:
            return orig(*a, **kw)
        except BaseException as e:
            outcome = "raised:" + type(e).__name__
            raise
        finally:
            _depth.n = d
            if d == 0:
                try:
                    loc, args = argf(*a, **kw)
                    _emit(ev, loc, args, outcome, os.environ.get("PYTEST_CURRENT_TEST", "").split(" ")[0])
                except Exception:
                    pass
    setattr(owner, name, wrapper)
    return wrapper


def _ids(x):
    if isinstance(x, int):
        return [x]
    try:
        return [int(i) for i in x]
    except Exception:
        return []


def pytest_configure(config):
    import xyzpy
    from xyzpy.gen import cropping
    C = cropping.Crop

    def reap_args(self, wait=False, sync=True, overwrite=None, clean_up=None, allow_incomplete=False, **kw):
        return self.location, dict(wait=bool(wait), clean_up={None: "none", True: "true", False: "false"}[clean_up],
                                   allow=bool(allow_incomplete))
    _wrap(C, "sow_combos", "sow", lambda self, *a, **k: (self.location, {}))
    _wrap(C, "sow_cases", "sow", lambda self, *a, **k: (self.location, {}))
    _wrap(C, "sow_samples", "sow", lambda self, *a, **k: (self.location, {}))
    _wrap(C, "grow", "grow", lambda self, batch_ids, **k: (self.location, dict(ids=_ids(batch_ids))))
    _wrap(C, "grow_missing", "grow_missing", lambda self, **k: (self.location, {}))
    _wrap(C, "reap", "reap", reap_args)
    for nm in ("reap_combos", "reap_combos_to_ds", "reap_runner", "reap_harvest", "reap_samples"):
        def mk(nm):
            def argf(self, *a, **kw):
                return self.location, dict(wait=bool(kw.get("wait", False)),
                                           clean_up={None: "none", True: "true", False: "false"}[kw.get("clean_up")],
                                           allow=bool(kw.get("allow_incomplete", False)))
            return argf
        _wrap(C, nm, "reap", mk(nm))
    _wrap(C, "check_bad", "check_bad", lambda self, *a, **k: (self.location, {}))
    _wrap(C, "delete_all", "delete_all", lambda self: (self.location, {}))

    g = _wrap(cropping, "grow", "grow",
              lambda batch_number, crop=None, **k: ((crop.location if crop is not None else os.getcwd()), dict(ids=_ids(batch_number))))
    xyzpy.grow = g


def pytest_unconfigure(config):
    out = os.environ.get("VX_TRACE_OUT")
    if out:
        with open(out, "w") as fh:
            json.dump(_events, fh)
