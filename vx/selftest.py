"""setup: cheap sanity of the machinery (SANY on every spec).  full: mutation self-test."""
import glob
import os
import sys

from . import common, tlc


def setup():
    bad = 0
    for f in sorted(glob.glob(os.path.join(common.SPECS, "*.tla"))):
        mod = os.path.basename(f)[:-4]
        ok, out = tlc.sany(mod)
        print("SANY %-16s %s" % (mod, "ok" if ok else "FAILED"))
        if not ok:
            print(out[-2000:])
            bad += 1
    try:
        common.use_repo()
    except Exception as e:  # noqa
        print("cannot import xyzpy from", common.REPO, e)
        bad += 1
    return 2 if bad else 0


def full():
    from . import mutants
    return mutants.main()
