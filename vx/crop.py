"""Replay of Crop.tla behaviours into the real xyzpy Crop (C04, C06, C07, C08, C09, C12)."""
import contextlib
import io
import itertools
import json
import math
import os
import random as _random
import shutil
import tempfile
import traceback

import numpy as np

from . import common, tlc

GRID_NAMES = ["a", "b", "d", "e"]          # sorted-name order; handed to sow_combos in reverse
CASE_NAMES = ["w", "c", "k"]
ALL_ACTS = ["resow", "grow", "grow_set", "grow_missing", "fix_fn", "delete", "corrupt", "check_bad",
            "reload", "fix_cause", "reap"]


# -- configurations ---------------------------------------------------------------

def mk(grid=(), nca=0, cases=(), kind="combos", bmode="none", bval=1, bwhere="ctor", shufCtor=0, shufSow=-1,
       farmer="none", failing=(), cause="none"):
    return dict(grid=list(grid), nca=nca, cases=[list(c) for c in cases], kind=kind, bmode=bmode, bval=bval,
                bwhere=bwhere, shufCtor=shufCtor, shufSow=shufSow, farmer=farmer,
                failing=set(failing), cause=cause)


def cfg_tla(c):
    d = dict(c)
    d["failing"] = tlc.Raw("{" + ", ".join(str(i) for i in sorted(c["failing"])) + "}")
    parts = []
    for k, v in d.items():
        parts.append("%s |-> %s" % (k, v if isinstance(v, tlc.Raw) else tlc.tla(v)))
    return "[" + ", ".join(parts) + "]"


def n_of(c):
    return max(1, len(c["cases"])) * math.prod(c["grid"])


INVARIANTS = ["TypeOK", "Partition", "ProgressIsTruth"]
PROPERTIES = ["DirectDataSurvives", "OnlyOwnResult", "ResowKeepsResults", "FailedGrowWritesNothing", "ReapEqualsDirect", "PartialReapWorks",
              "RefusedUntouched", "DeleteOnlyAfterDelivery", "FailedReapKeepsCrop", "GrowRefreshes", "FullGrowLeavesNothingStale"]


def run_model(name, configs, *, acts, max_steps, record, max_perm=3, emit=False, simulate=None, depth=None, seed=None,
              workers=None, coverage=False, sow_cases="ctor", placeholder="actual", sampler="deferred",
              props=PROPERTIES, view=False):
    consts = dict(Configs=tlc.Raw("{" + ",\n  ".join(cfg_tla(c) for c in configs) + "}"),
                  MaxPerm=max_perm, MaxSteps=max_steps, Record=record, Acts=set(acts),
                  SowCasesShuffle=sow_cases, PlaceholderLen=placeholder, SamplerCleanup=sampler)
    tail = "".join("INVARIANT %s\n" % i for i in INVARIANTS) + "".join("PROPERTY %s\n" % p for p in props)
    if emit:
        tail += "INVARIANT EmitCase\n"
    if view:
        tail += "VIEW View\n"
    tail += "CHECK_DEADLOCK FALSE\n"
    return tlc.run_mc("Crop", consts, tail, name=name, workers=workers, simulate=simulate, depth=depth, seed=seed,
                      coverage=coverage)


# -- concrete world -----------------------------------------------------------------

def make_fn(failpath, names, mode, version=1, exc_kind="value", np_check=False, rsc=False):
    """The swept function, defined in a closure so that cloudpickle ships it by value.
    Returns a token of exactly its keyword arguments (the constant kattr shifts it by 10^6 per unit above 7);
    version 1 raises on the tokens listed in failpath, version 2 (the corrected function) never does."""
    def fn(**kw):
        import json as _json
        extra = sorted(set(kw) - set(names))
        tok = 0
        for j, nm in enumerate(names):
            tok += int(kw[nm]) * (100 ** j)
        want_extra = sorted((["kattr", "t"] if mode == "xvt" else ["kattr"]) + (["rsc"] if rsc else []))
        if extra != want_extra or kw["kattr"] not in (7, 8) or (rsc and kw["rsc"] != 5):
            tok = -1          # constants must be passed exactly
        if np_check and any(type(kw[nm]).__name__ != "uint8" for nm in names):
            tok = -1          # argument values must arrive with the type they were given (numpy uint8 here)
        bad = []
        if version == 1:
            try:
                with open(failpath) as fh:
                    bad = _json.load(fh)
            except Exception:
                bad = []
        if tok in bad:
            if exc_kind == "stop":
                raise StopIteration("vx-fail")      # e.g. next() on an exhausted iterator inside the user's function
            raise ValueError("vx-fail")
        if tok >= 0:
            tok += (kw["kattr"] - 7) * 1000000
        if mode == "scalar":
            return float(tok)
        if mode == "xy":
            return float(tok), float(2 * tok)
        if mode == "xs":
            return float(tok), "t%d" % tok
        if mode in ("xv", "xvt"):
            import numpy as _np
            return float(tok), _np.array([float(tok), tok + 0.5])
        if mode == "str":
            return "t%d" % tok
        if mode == "bool":
            return tok % 2 == 0
        if mode == "array":
            import numpy as _np
            return _np.array([float(tok), tok + 0.5])
        raise ValueError(mode)
    return fn


def _sibling_fn(a):
    return a


class World(object):
    def __init__(self, case, variant):
        self.xyz = common.use_repo()
        self.case = case
        self.cfg = cfg = case["cfg"]
        self.variant = variant
        self.tmp = tempfile.mkdtemp(prefix="crop-", dir=common.scratch("crops"))
        self.grid_names = GRID_NAMES[:len(cfg["grid"])]
        self.case_names = CASE_NAMES[:cfg["nca"]]
        self.names = self.case_names + self.grid_names
        self.failpath = os.path.join(self.tmp, "failing.json")
        self.farmer_kind = cfg["farmer"]
        if self.farmer_kind == "none":
            self.mode = variant.get("result", "scalar")
        elif self.farmer_kind == "sampler":
            self.mode = variant.get("fmode", "xy") if variant.get("fmode") in ("scalar", "xy") else "xy"
        else:
            self.mode = variant.get("fmode", "xy")
            if self.mode == "xs" and self.farmer_kind != "runner":
                self.mode = "xy"       # (a str variable next to missing values cannot be written by the netCDF engines)
        self.tok_of = {}
        self.id_of_tok = {}
        for i, loc in enumerate(case["settings"]):
            t = sum(int(v) * (100 ** j) for j, v in enumerate(loc))
            self.tok_of[i + 1] = t
            self.id_of_tok[t] = i + 1
        self.set_failing(sorted(cfg["failing"]) if isinstance(cfg["failing"], (list, set)) else [])
        self.np_values = bool(variant.get("np_values"))
        # a resource (passed to the function, not recorded) for farmer crops
        self.rsc = bool(variant.get("resources")) and self.farmer_kind != "none"
        self.fn = make_fn(self.failpath, tuple(self.names), self.mode, 1, variant.get("exc_kind", "value"), self.np_values, self.rsc)
        # the crop's place: words of the crop's own file layout in the path must not matter
        if variant.get("path_words"):
            self.parent = os.path.join(self.tmp, "results", "batches")
            os.makedirs(self.parent)
            self.crop_name = "xyz-result-batches"
        else:
            self.parent = self.tmp
            self.crop_name = "vxcrop"
        self.kver = 0           # version of the farmer's constants
        self.expect_k = 0       # constants version the model says is baked into the sown batches
        self.cause = cfg["cause"]
        self.cause_fixed = False
        self.data_dir = os.path.join(self.tmp, "sub") if cfg["cause"] == "save" else self.tmp
        ext = variant.get("ext", True)
        self.engine = variant.get("engine", "h5netcdf") if self.farmer_kind == "harvester" else variant.get("df_engine", "pickle")
        if self.farmer_kind == "harvester":
            self.data_name = os.path.join(self.data_dir, "data" + ((".h5" if self.engine == "h5netcdf" else ".dmp") if ext else ""))
        else:
            self.data_name = os.path.join(self.data_dir, "table." + ("pkl" if self.engine == "pickle" else "csv"))
        self.memory_only = (bool(variant.get("memory_only")) and cfg["cause"] == "none" and self.farmer_kind in ("harvester", "sampler")
                            and not any(ev["a"] in ("reload", "direct_harvest") for ev in case["hist"]))
        if self.memory_only:
            self.data_name = None          # an in-memory Harvester / Sampler
        # a data name relative to the working directory (which is not the crop's parent directory)
        self.oldcwd = None
        if (variant.get("rel_data") and self.data_name is not None and cfg["cause"] == "none"
                and self.farmer_kind in ("harvester", "sampler")):
            self.cwd = os.path.join(self.tmp, "cwd")
            os.makedirs(self.cwd)
            self.oldcwd = os.getcwd()
            os.chdir(self.cwd)
            self.data_abs = os.path.join(self.cwd, os.path.basename(self.data_name))
            self.data_name = os.path.basename(self.data_name)
        else:
            self.data_abs = self.data_name
        self.crop = None
        self.sibling_files = None
        self.farmer = None
        self.overwrite = None
        self.sample_feed = None

    # -- helpers -------------------------------------------------------------
    def close(self):
        if self.oldcwd is not None:
            os.chdir(self.oldcwd)
        shutil.rmtree(self.tmp, ignore_errors=True)

    def set_failing(self, ids):
        with open(self.failpath, "w") as fh:
            json.dump([self.tok_of[i] for i in ids], fh)

    def data_file(self):
        from xyzpy.manage import auto_add_extension
        if self.farmer_kind == "harvester":
            return auto_add_extension(self.data_abs, self.engine)
        return self.data_abs

    def runner(self, broken):
        xyz = self.xyz
        mode = self.mode
        if mode == "scalar":
            names, dims = ["x"], None
        elif mode == "xy":
            names, dims = ["x", "y"], None
        elif mode == "xs":
            names, dims = ["x", "s"], None
        else:
            names, dims = ["x", "v"], {"v": ["t"]}
        if broken:
            names = names + ["zz"]
        consts = {"kattr": 7 + self.kver}
        attrs = {"note": "hello"}
        if self.variant.get("bool_attrs"):
            attrs.update(flag=True, nothing=None)       # (saved as strings by netCDF engines; the returned data keeps them)
        kw = dict(fn_args=self.names, var_dims=dims, constants=consts, attrs=attrs)
        if self.rsc:
            kw["resources"] = {"rsc": 5}
        if mode == "xv":
            kw["var_coords"] = {"t": [0.5, 1.5]}
        if mode == "xvt":
            consts["t"] = [0.5, 1.5]      # a constant that names the internal dimension
        return xyz.Runner(self.fn, names, **kw)

    def make_farmer(self, broken=False):
        xyz = self.xyz
        r = self.runner(broken)
        if self.farmer_kind == "runner":
            return r
        if self.farmer_kind == "harvester":
            return xyz.Harvester(r, data_name=self.data_name, engine=self.engine)
        if self.farmer_kind == "sampler":
            return xyz.Sampler(r, data_name=self.data_name, engine=self.engine)
        return None

    def new_handle(self, first=False, from_disk=False):
        xyz = self.xyz
        cfg = self.cfg
        kw = dict(name=self.crop_name, parent_dir=self.parent)
        if (not first and not from_disk and self.variant.get("no_autoload") and self.variant.get("reload_ctor_args")
                and cfg["bwhere"] == "ctor"):
            # a handle built with the same arguments that does not look at what is on disk
            kw["autoload"] = False
        self.unsynced = kw.get("autoload") is False
        if first or (self.variant.get("reload_ctor_args") and not from_disk):
            # (a user re-running the script constructs the Crop with the same arguments again: what is on disk wins)
            if cfg["bwhere"] == "ctor":
                if cfg["bmode"] == "size":
                    kw["batchsize"] = cfg["bval"]
                elif cfg["bmode"] == "count":
                    kw["num_batches"] = cfg["bval"]
            if cfg["shufCtor"]:
                kw["shuffle"] = self.seed_value(cfg["shufCtor"])
        if self.farmer_kind == "none":
            if first or not from_disk:
                kw["fn"] = self.fn
            self.crop = xyz.Crop(**kw)
            self.farmer = None
        else:
            broken = self.cause == "build" and not self.cause_fixed
            if from_disk and not first and not (cfg["cause"] == "build" and self.cause_fixed):
                self.crop = xyz.Crop(**kw)          # farmer un-pickled from the settings file
                self.farmer = self.crop.farmer
            elif (first and self.variant.get("positional_crop") and not cfg["shufCtor"] and "autoload" not in kw
                  and self.cause == "none"):
                # the farmer's own Crop(...) constructor with positional arguments (name, parent_dir, save_fn, batchsize,
                # num_batches)
                if self.farmer is None:
                    self.farmer = self.make_farmer(broken=False)
                self.crop = self.farmer.Crop(kw["name"], kw["parent_dir"], None, kw.get("batchsize"), kw.get("num_batches"))
            else:
                if from_disk and not first:
                    from xyzpy.gen.cropping import from_pickle, read_from_disk, FNCT_NM
                    self.fn = from_pickle(read_from_disk(os.path.join(self.parent, ".xyz-" + self.crop_name, FNCT_NM)))
                if not (first and self.farmer is not None):      # a Harvester that already harvested directly is kept
                    self.farmer = self.make_farmer(broken=broken)
                self.crop = xyz.Crop(farmer=self.farmer, **kw)
        return self.crop

    def make_sibling(self):
        """Another, un-reaped crop next to this one whose name starts with this crop's name."""
        sib = self.xyz.Crop(fn=_sibling_fn, name=self.crop_name + "_fine", parent_dir=self.parent, batchsize=1)
        sib.sow_combos({"a": [1, 2]}, verbosity=0)
        self.sibling_loc = sib.location
        self.sibling_files = self.sibling_listing()

    def sibling_listing(self):
        out = []
        for d, _, fs in os.walk(self.sibling_loc):
            out.extend(os.path.relpath(os.path.join(d, f), self.sibling_loc) for f in fs)
        return sorted(out)

    def seed_value(self, s):
        # seed 1 -> True or an int, seed 2 -> another int; the forced shuffle keys on int(seed)
        return {1: self.variant.get("seed1", True), 2: 5}[s]

    def val(self, v):
        return np.uint8(v) if self.np_values else v

    def combos_arg(self, reverse):
        items = [(nm, [self.val(v) for v in range(1, n + 1)]) for nm, n in zip(self.grid_names, self.cfg["grid"])]
        if reverse:
            items = items[::-1]
        return items

    def cases_arg(self):
        cs = [dict(zip(self.case_names, [self.val(v) for v in c])) for c in self.cfg["cases"]]
        if len(cs) == 1 and self.variant.get("bare_case_dict"):
            return cs[0]           # a single case may be given as the dict itself
        return cs


class ForcedShuffle(object):
    """random.seed(k); random.shuffle(x) applies the behaviour's permutation for seed k."""

    def __init__(self, perms):
        self.perms = perms        # dict int(seed) -> permutation (list of ids)
        self.cur = None

    def __enter__(self):
        self.o_seed, self.o_shuffle = _random.seed, _random.shuffle

        def seed(a=None, *args, **kw):
            try:
                self.cur = int(a)
            except Exception:
                self.cur = None
            return self.o_seed(a, *args, **kw)

        def shuffle(lst, *args, **kw):
            p = self.perms.get(self.cur)
            if p is not None and len(p) == len(lst):
                lst[:] = [lst[i - 1] for i in p]
            else:
                self.o_shuffle(lst)

        _random.seed, _random.shuffle = seed, shuffle
        return self

    def __exit__(self, *a):
        _random.seed, _random.shuffle = self.o_seed, self.o_shuffle


def perm_of(case, s):
    n = case["n"]
    p1 = case["perm1"]
    if s == 0:
        return list(range(1, n + 1))
    if s == 1:
        return list(p1)
    return [p1[(k % n)] for k in range(1, n + 1)]      # perm1[(k % N) + 1], 1-based


# -- observation ----------------------------------------------------------------------

def observe(w):
    crop = w.crop
    if w.variant.get("observer_fresh") and os.path.isdir(crop.location) and crop.is_prepared():
        # progress as another process sees it: a new handle that knows the name and the directory only
        crop = w.xyz.Crop(name=w.crop_name, parent_dir=w.parent)
    loc = crop.location
    present = os.path.isdir(loc) and crop.is_prepared()
    if not present:
        return dict(prepared=False, dir="deleted" if not os.path.exists(loc) else "partial")
    o = dict(prepared=True, dir="present")
    o["sown"] = crop.num_sown_batches
    o["nres"] = crop.num_results
    o["missing"] = list(crop.missing_results())
    o["ready"] = bool(crop.is_ready_to_reap())
    o["files_batches"] = sorted(os.listdir(os.path.join(loc, "batches")))
    o["files_results"] = sorted(os.listdir(os.path.join(loc, "results")))
    try:
        str(crop)
    except Exception as e:  # noqa
        o["str_error"] = repr(e)
    return o


def compare_obs(w, post, step):
    """None or a message when the real crop contradicts the model's observation."""
    try:
        o = observe(w)
    except Exception as e:  # noqa
        import traceback as _tb
        fr = _tb.extract_tb(e.__traceback__)
        if not any("xyzpy" in (f.filename or "") for f in fr):
            raise                  # our own mistake, not the library's
        return "a progress query raised %s: %s" % (type(e).__name__, str(e)[:200])
    if post["dir"] == "deleted":
        if o["dir"] != "deleted":
            return "crop directory still exists (%s), model says it was deleted" % o["dir"]
        return None
    if o["dir"] != "present":
        return "crop directory is %s, model says present" % o["dir"]
    if o["sown"] != post["sown"]:
        return "num_sown_batches=%r, expected %r" % (o["sown"], post["sown"])
    if o["nres"] != post["nres"]:
        return "num_results=%r, expected %r" % (o["nres"], post["nres"])
    if o["missing"] != list(post["missing"]):
        return "missing_results()=%r, expected %r" % (o["missing"], list(post["missing"]))
    if o["ready"] != post["ready"]:
        return "is_ready_to_reap()=%r, expected %r" % (o["ready"], post["ready"])
    import fnmatch
    want_b = ["xyz-batch-%d.jbdmp" % i for i in range(1, post["sown"] + 1)]
    got_b = [f for f in o["files_batches"] if fnmatch.fnmatch(f, "xyz-batch-*.jbdmp")]
    if sorted(got_b) != sorted(want_b):
        return "batches/ holds %r" % (o["files_batches"],)
    present = [i for i in range(1, post["sown"] + 1) if i not in post["missing"]]
    want_r = ["xyz-result-%d.jbdmp" % i for i in present]
    got_r = [f for f in o["files_results"] if fnmatch.fnmatch(f, "xyz-result-*.jbdmp")]
    if sorted(got_r) != sorted(want_r):
        return "results/ holds %r, expected %r" % (o["files_results"], sorted(want_r))
    if "str_error" in o:
        return "str(crop) raised " + o["str_error"]
    return None


def read_batches(w):
    from xyzpy.gen.cropping import read_from_disk
    loc = w.crop.location
    out = []
    i = 1
    while os.path.exists(os.path.join(loc, "batches", "xyz-batch-%d.jbdmp" % i)):
        kws = read_from_disk(os.path.join(loc, "batches", "xyz-batch-%d.jbdmp" % i))
        ids = []
        for kw in kws:
            kw = dict(kw)
            extra = {k: kw.pop(k) for k in list(kw) if k not in w.names}
            extra.pop("t", None)
            want_extra = {"kattr": 8 if (w.variant.get("sow_override") and w.farmer_kind != "none") else 7 + w.expect_k}
            if getattr(w, "no_consts", False):
                want_extra = {}
            if w.rsc:
                want_extra["rsc"] = 5
            if extra != want_extra or set(kw) != set(w.names):
                ids.append(-1)
                continue
            t = sum(int(kw[nm]) * (100 ** j) for j, nm in enumerate(w.names))
            ids.append(w.id_of_tok.get(t, -1))
        out.append(ids)
        i += 1
    return out


# -- value projection --------------------------------------------------------------------

def tok_id(w, v, lenient=False):
    """token (a number) -> setting id, or -1; the constant's version must be the one the model says was sown"""
    v = int(v)
    if v < 0:
        return -1
    i = w.id_of_tok.get(v % 1000000, -1)
    k = v // 1000000
    if getattr(w, "ever_stale", False) and lenient:
        return i if k in (0, 1) else -1      # (accumulated data after results of both versions of the constants were delivered)
    kof = getattr(w, "kof", None)
    want_k = kof[i - 1] if (kof and i > 0) else w.expect_k     # the model's version for this very setting
    return i if k == want_k else -1


def leaf_id(w, x):
    mode = w.mode
    try:
        if mode == "scalar":
            v = float(x)
            return 0 if math.isnan(v) else tok_id(w, v)
        if mode == "xy":
            a, b = (float(np.asarray(x[0])), float(np.asarray(x[1])))
            if math.isnan(a) and math.isnan(b):
                return 0
            return tok_id(w, a) if b == 2 * a else -1
        if mode in ("array", "xv"):
            xs = x if mode == "array" else None
            a = np.asarray([np.asarray(v, dtype=float) for v in x], dtype=float)
            if a.shape != (2,):
                return -1
            if np.isnan(a).all():
                return 0
            return tok_id(w, a[0]) if a[1] == a[0] + 0.5 else -1
        if mode == "str":
            # None is the documented placeholder for str/bool; an un-requested slot next to a missing
            # first batch gets NaN instead - both read as "missing" here (C09 does not name the marker)
            if x is None or (isinstance(x, float) and math.isnan(x)):
                return 0
            return tok_id(w, int(str(x)[1:]))
        if mode == "bool":
            if x is None or (isinstance(x, float) and math.isnan(x)):
                return 0
            return -2          # bools cannot be identified, only present/missing
    except Exception:
        return -1
    return -1


def check_value(w, res, want, to_df=False):
    """Compare what reap returned with the model's value (sequence over all locations)."""
    case = w.case
    axes = case["axes"]
    lens = [len(a) for a in axes]
    locs = list(itertools.product(*axes))
    if w.farmer_kind == "none":
        from .sweep import flatten_nested
        leaves, prob = flatten_nested(res, lens)
        if prob:
            return "reaped nested result: " + prob
        for k, leaf in enumerate(leaves):
            i = leaf_id(w, leaf)
            if i == -2:
                if want[k] == 0:
                    return "position %d: a value where the model has Missing" % k
                continue
            if i == 0 and w.mode == "bool" and want[k] != 0:
                return "position %d: Missing where the model has a value" % k
            if i != want[k]:
                return "position %d (%r) holds the value of setting %s, expected %s (0 = missing)" % (k, locs[k], i, want[k])
        return None
    if w.farmer_kind == "sampler":
        import pandas as pd
        if not isinstance(res, pd.DataFrame):
            return "reap returned %s, not a DataFrame" % type(res).__name__
        req = {tuple(s): i + 1 for i, s in enumerate(case["settings"])}
        wantmap = {loc: want[k] for k, loc in enumerate(locs)}
        if len(res) != len(req):
            return "%d rows, expected %d" % (len(res), len(req))
        seen = set()
        for _, row in res.iterrows():
            loc = tuple(int(row[nm]) for nm in w.names)
            if loc not in req:
                return "row %r is not a sown setting" % (loc,)
            i = req[loc]
            seen.add(i)
            x = float(row["x"])
            got = 0 if math.isnan(x) else tok_id(w, x)
            if got != wantmap[loc]:
                return "row for setting %d carries the value of setting %s, expected %s" % (i, got, wantmap[loc])
        if len(seen) != len(req):
            return "rows do not cover every sown setting once"
        return None
    import xarray as xr
    if not isinstance(res, xr.Dataset):
        return "reap returned %s, not a Dataset" % type(res).__name__
    for nm, ax in zip(w.names, axes):
        if nm not in res.coords or [int(v) for v in res[nm].values] != list(ax):
            return "coordinate %r is %r, expected %r" % (nm, res[nm].values.tolist() if nm in res.coords else None, list(ax))
    for k, loc in enumerate(locs):
        sel = res.sel(dict(zip(w.names, loc)))
        x = float(sel["x"].values)
        got = 0 if math.isnan(x) else tok_id(w, x)
        if got != want[k]:
            return "ds.sel(%r)['x'] is the value of setting %s, expected %s" % (dict(zip(w.names, loc)), got, want[k])
        if w.mode == "xy":
            y = float(sel["y"].values)
            if not ((math.isnan(y) and want[k] == 0) or y == 2 * x):
                return "ds.sel(%r)['y'] = %r inconsistent" % (loc, y)
        if w.mode == "xs":
            sv = sel["s"].values.item() if hasattr(sel["s"].values, "item") else sel["s"].values
            null = sv is None or (isinstance(sv, float) and math.isnan(sv))
            if want[k] == 0 and not null:
                return "ds.sel(%r)['s'] = %r where nothing was grown: a missing str result must be null" % (loc, sv)
            if want[k] != 0 and sv != "t%d" % int(x):
                return "ds.sel(%r)['s'] = %r inconsistent with x = %r" % (loc, sv, x)
        if w.mode in ("xv", "xvt"):
            v = np.asarray(sel["v"].values, dtype=float)
            if v.shape != (2,) or not ((np.isnan(v).all() and want[k] == 0) or (v[0] == x and v[1] == x + 0.5)):
                return "ds.sel(%r)['v'] = %r inconsistent" % (loc, v.tolist())
    return None


def check_direct(w, reaped):
    """C06: a complete reap of a farmer crop equals the direct run of the same runner (second oracle)."""
    import xarray as xr
    import pandas as pd
    cfg = w.cfg
    f = w.make_farmer()
    r = f if w.farmer_kind == "runner" else f.runner
    combos = w.combos_arg(reverse=True)
    with contextlib.redirect_stdout(io.StringIO()), contextlib.redirect_stderr(io.StringIO()):
        if w.farmer_kind == "sampler":
            cases = [tuple(w.val(v) for v in c) for c in cfg["cases"]]
            direct = r.run_cases(cases, fn_args=w.case_names, to_df=True, verbosity=0)
        elif cfg["nca"]:
            from xyzpy.gen.prepare import parse_combos
            direct = r.run_cases(w.cases_arg(), combos=parse_combos(combos), verbosity=0)
        else:
            direct = r.run_combos(combos, verbosity=0)
    if isinstance(direct, pd.DataFrame):
        a = reaped.sort_values(list(w.names)).reset_index(drop=True)
        b = direct.sort_values(list(w.names)).reset_index(drop=True)
        a = a[sorted(a.columns)]
        b = b[sorted(b.columns)]
        if list(a.columns) != list(b.columns):
            return "reaped DataFrame has columns %r, the direct run %r" % (list(a.columns), list(b.columns))
        if not a.equals(b):
            return "reaped DataFrame differs from the direct run:\n%s\nvs\n%s" % (a.head(8), b.head(8))
        return None
    try:
        order = list(direct.dims)
        xr.testing.assert_identical(reaped.transpose(*[d for d in order if d in reaped.dims]),
                                    direct.transpose(*[d for d in order if d in direct.dims]))
    except AssertionError as e:
        return "reaped Dataset is not identical to the direct run of the same runner: " + str(e)[:700]
    except Exception as e:  # noqa
        return "cannot compare with the direct run: %r" % (e,)
    return None


def check_store_memory(w, ids):
    """In-memory farmer: everything delivered must be in Harvester.full_ds / Sampler.full_df."""
    if w.farmer_kind == "harvester":
        ds = w.farmer._full_ds
        if ds is None:
            return None if not ids else "the in-memory Harvester holds no data although %d settings were reaped" % len(ids)
        for i, loc in enumerate(w.case["settings"]):
            i += 1
            try:
                x = float(ds["x"].sel(dict(zip(w.names, loc))).values)
            except KeyError:
                x = float("nan")
            got = 0 if math.isnan(x) else tok_id(w, x, lenient=True)
            if got != (i if i in ids else 0):
                return "the in-memory Harvester holds the value of setting %s at setting %d, expected %s" % (got, i, i if i in ids else 0)
        return None
    df = w.farmer._full_df
    if df is None or len(df) == 0:
        return None if not ids else "the in-memory Sampler holds no rows although %d settings were reaped" % len(ids)
    return None


def check_store(w, store_ids, extra=0):
    """The farmer's on-disk data must hold exactly the delivered ids (Harvester)."""
    if w.memory_only:
        return check_store_memory(w, set(store_ids))
    if w.farmer_kind != "harvester":
        return None
    f = w.data_file()
    ids = set(store_ids)
    if not os.path.exists(f):
        listing = sorted(os.listdir(os.path.dirname(f))) if os.path.isdir(os.path.dirname(f)) else None
        return None if not ids else "harvester file %s missing although %d settings were delivered (dir: %r)" % (
            os.path.basename(f), len(ids), listing)
    try:
        ds = w.xyz.load_ds(f, engine=w.engine)
    except Exception as e:  # noqa
        return "harvester file %s cannot be loaded with its engine any more: %s: %s" % (os.path.basename(f), type(e).__name__, str(e)[:160])
    try:
        for i, loc in enumerate(w.case["settings"]):
            i += 1
            try:
                x = float(ds["x"].sel(dict(zip(w.names, loc))).values)
            except KeyError:
                x = float("nan")
            got = 0 if math.isnan(x) else tok_id(w, x, lenient=True)
            if i == 1 and w.cfg["cause"] == "merge" and x == -5.0 and not (w.overwrite and 1 in ids):
                continue      # the conflicting value that was on disk before (environment of cause "merge")
            if got == i and i not in ids and w.cfg["cause"] == "save":
                # the reap whose save failed had merged this (correct) value into the Harvester's memory already; a later
                # successful save writes it out: more than was delivered by then, but nothing wrong
                continue
            if got != (i if i in ids else 0):
                return "harvester file holds the value of setting %s at setting %d, expected %s" % (got, i, i if i in ids else 0)
    finally:
        ds.close()
    for e in range(1, (extra or 0) + 1):
        val = 10 - e
        try:
            x = float(ds["x"].sel({nm: val for nm in w.names}).values)
        except KeyError:
            x = float("nan")
        want = sum(val * (100 ** j) for j in range(len(w.names))) + w.kver * 1000000
        if x != want:
            return "the point harvested directly (all arguments = %d) holds %r in the harvester file, expected %r" % (val, x, want)
    mem = w.farmer.full_ds if w.farmer is not None else None
    if mem is not None and not mem.equals(ds):
        return "Harvester.full_ds differs from the file on disk"
    return None


# -- stepping ------------------------------------------------------------------------------

def classify(exc):
    from xyzpy.utils import XYZError
    if exc is None:
        return "ok"
    if "vx-fail" in str(exc) or "vx-fail" in repr(getattr(exc, "__cause__", "")):
        return "raised"          # our own function's failure came through
    return "error"


def do_step(w, ev):
    """Execute one logged call on the real crop; returns (outcome, returned value, exception)."""
    a, args = ev["a"], ev["args"]
    cfg = w.cfg
    crop = w.crop
    ret = None
    exc = None
    sink = io.StringIO()
    try:
        with contextlib.redirect_stdout(sink), contextlib.redirect_stderr(sink):
            if a in ("sow", "resow"):
                if a == "sow":
                    if w.crop is None:
                        if w.variant.get("early_handle") and w.farmer_kind == "none":
                            # a handle created before anybody sowed (it knows nothing yet); used later for reaping
                            w.early = w.xyz.Crop(fn=w.fn, name=w.crop_name, parent_dir=w.parent)
                            w.first_handle = None
                        crop = w.new_handle(first=True)
                        if w.variant.get("sibling"):
                            w.make_sibling()
                    else:
                        crop = w.crop          # a second campaign on the very same Crop object
                elif (w.variant.get("early_resow") and getattr(w, "early", None) is not None and cfg["bmode"] == "none"
                      and cfg["shufCtor"] == 0 and w.farmer_kind == "none" and not cfg["failing"]):
                    crop = w.early             # re-sown through a handle created before anybody sowed
                kw = {}
                if cfg["bwhere"] == "sow" and a == "sow":
                    if cfg["bmode"] == "size":
                        kw["batchsize"] = cfg["bval"]
                    elif cfg["bmode"] == "count":
                        kw["num_batches"] = cfg["bval"]
                consts = {"kattr": 7 + w.kver} if w.farmer_kind == "none" else None
                if w.variant.get("resow_drop_consts") and w.farmer_kind == "none":
                    # the constants are given to the first sow only: a later sow without them passes none (as a direct run
                    # without constants= would); only used by histories that never grow
                    w.no_consts = (a == "resow")
                    consts = None if a == "resow" else consts
                if w.variant.get("sow_override") and w.farmer_kind != "none":
                    # a constant given to the sow call wins over the farmer's stored constant of the same name
                    # (as constants= given to Runner.run_combos does); only used by histories that never grow
                    consts = {"kattr": 8}
                if cfg["kind"] == "combos":
                    if cfg["shufSow"] != -1:
                        kw["shuffle"] = w.seed_value(cfg["shufSow"]) if cfg["shufSow"] else False
                    combos = w.combos_arg(reverse=True)
                    if w.variant.get("combos_dict", True):
                        combos = dict(combos)
                    crop.sow_combos(combos, cases=w.cases_arg() if cfg["nca"] else None, constants=consts,
                                    verbosity=0, **kw)
                elif cfg["kind"] == "cases":
                    cases = [tuple(w.val(v) for v in c) for c in cfg["cases"]]
                    rev = bool(w.variant.get("cases_combos_rev")) and w.farmer_kind in ("runner", "harvester")
                    crop.sow_cases(w.case_names, cases, combos=tuple(w.combos_arg(reverse=rev)) or None,
                                   constants=consts, verbosity=0, **kw)
                else:
                    feeds = {nm: [w.val(c[j]) for c in cfg["cases"]] for j, nm in enumerate(w.case_names)}
                    pos = {nm: 0 for nm in feeds}

                    def feeder(nm):
                        def f():
                            v = feeds[nm][pos[nm] % len(feeds[nm])]
                            pos[nm] += 1
                            return v
                        return f
                    if cfg["bwhere"] == "sow" and kw:
                        # sow_samples takes no batching arguments: set them on the crop first
                        for k, v in kw.items():
                            setattr(crop, k, v)
                    crop.sow_samples(len(cfg["cases"]), combos={nm: feeder(nm) for nm in w.case_names}, verbosity=0)
            elif a in ("grow", "grow_set", "grow_missing") and w.variant.get("subprocess"):
                # a fresh OS process that only knows the crop's name and directory
                import subprocess
                import sys as _sys
                ids = [args[0]] if a == "grow" else (list(args[0]) if a == "grow_set" else None)
                code = ("import sys; sys.path.insert(0, %r); import xyzpy\n"
                        "assert xyzpy.__file__.startswith(%r), xyzpy.__file__\n"
                        "c = xyzpy.Crop(name=%r, parent_dir=%r)\n" % (common.REPO, common.REPO, w.crop_name, w.parent))
                if a == "grow" and args[1] == "fn":
                    code += "xyzpy.grow(%d, crop=c, verbosity=0)\n" % args[0]
                elif ids is not None:
                    code += "c.grow(%r, verbosity=0)\n" % (tuple(ids),)
                else:
                    code += "c.grow_missing(verbosity=0)\n"
                p = subprocess.run([_sys.executable, "-W", "ignore", "-c", code], capture_output=True, text=True,
                                   env=dict(os.environ, TQDM_DISABLE="1"))
                if p.returncode != 0:
                    if "vx-fail" in p.stderr:
                        raise ValueError("vx-fail (in child process)")
                    raise RuntimeError("child process failed: " + p.stderr[-400:])
            elif a == "grow":
                i, via = args
                if via == "fn":
                    w.xyz.grow(i, crop=crop, verbosity=0)
                else:
                    crop.grow(i, verbosity=0)
            elif a == "grow_set":
                ids = tuple(args[0])
                sp = w.variant.get("ids_spelling", "tuple")
                if sp == "list":
                    ids = list(ids)
                elif sp == "gen":
                    ids = (i for i in list(ids))
                elif sp == "iter":
                    ids = iter(list(ids))
                crop.grow(ids, verbosity=0)
            elif a == "grow_missing":
                crop.grow_missing(verbosity=0)
            elif a == "fix_fn":
                # the corrected function is put into the session's objects; workers see it after a re-sow
                w.fn = make_fn(w.failpath, tuple(w.names), w.mode, 2, "value", w.np_values, w.rsc)
                w.crop.fn = w.fn
                if getattr(w, "early", None) is not None:
                    w.early.fn = w.fn
                if w.farmer is not None:
                    w.farmer.fn = w.fn
            elif a == "regress_fn":
                # the old (failing) function is back in the session's objects; workers see it after a re-sow
                w.fn = make_fn(w.failpath, tuple(w.names), w.mode, 1, w.variant.get("exc_kind", "value"), w.np_values, w.rsc)
                w.crop.fn = w.fn
                if getattr(w, "early", None) is not None:
                    w.early.fn = w.fn
                if w.farmer is not None:
                    w.farmer.fn = w.fn
            elif a == "direct_harvest":
                # other points (every argument = 9, then 8), harvested by the session's own Harvester object
                w.n_direct = getattr(w, "n_direct", 0) + 1
                val = 10 - w.n_direct
                if w.farmer is None:
                    w.farmer = w.make_farmer()
                kw_ = {}
                if (w.variant.get("direct_unsynced") and w.cfg["cause"] == "none" and not w.memory_only
                        and w.crop is None          # (before the sow: the farmer pickled into the crop then carries the points)
                        and not os.path.exists(w.data_file())
                        and not any(e_["a"] == "reload" and not e_["args"][0] for e_ in w.case["hist"])):
                    # nothing on disk yet: the points stay in the Harvester's memory (and travel with the pickled farmer)
                    # until the first synced write, which must contain them
                    kw_["sync"] = False
                w.farmer.harvest_combos({nm: [w.val(val)] for nm in w.names}, verbosity=0, **kw_)
            elif a == "change_const":
                w.kver = 1
                if w.farmer_kind != "none":       # (a crop without farmer gets its constants from the sow call)
                    r = w.farmer if w.farmer_kind == "runner" else w.farmer.runner
                    c = dict(r.constants)
                    c["kattr"] = 7 + w.kver
                    r.constants = c
            elif a == "delete":
                os.remove(os.path.join(crop.location, "results", "xyz-result-%d.jbdmp" % args[0]))
            elif a == "corrupt":
                p = os.path.join(crop.location, "results", "xyz-result-%d.jbdmp" % args[0])
                kind = w.variant.get("corrupt_kind", "truncate")
                if kind == "short":
                    import pickle as _pk0
                    if len(_pk0.load(open(p, "rb"))) < 2:
                        kind = "truncate"      # never mix too-long with too-short results (they could cancel out)
                if kind == "truncate":
                    data = open(p, "rb").read()
                    with open(p, "wb") as fh:
                        fh.write(data[:max(1, len(data) // 2)])
                else:
                    # a readable result of the wrong length (what check_bad is documented to catch)
                    import pickle as _pk
                    good = _pk.load(open(p, "rb"))
                    bad = tuple(good) + (good[0],) if kind == "long" else tuple(good)[:-1]
                    with open(p, "wb") as fh:
                        _pk.dump(bad, fh)
            elif a == "check_bad":
                crop.check_bad()
            elif a == "reload":
                w.new_handle(from_disk=bool(args[0]))
                if args[0]:
                    w.fn = w.crop.fn         # the session continues with the function un-pickled from the crop
                    if w.farmer is not None and w.farmer.fn is None:
                        w.farmer.fn = w.fn
            elif a == "fix_cause":
                c = args[0]
                w.cause_fixed = True
                if c == "save":
                    os.makedirs(w.data_dir, exist_ok=True)
                elif c == "merge":
                    # either policy resolves the conflict: keep the new value, or keep the old one
                    w.overwrite = False if w.variant.get("merge_fix_false") else True
                elif c == "build":
                    w.new_handle(from_disk=False)
            elif a == "reap":
                c, allow = args
                kw = dict(allow_incomplete=bool(allow))
                if c != "none":
                    kw["clean_up"] = (c == "true")
                if w.farmer_kind == "harvester" and w.overwrite is not None:
                    kw["overwrite"] = w.overwrite
                elif w.farmer_kind == "harvester" and w.cfg["cause"] != "merge" and w.variant.get("overwrite_pol") is not None:
                    kw["overwrite"] = w.variant["overwrite_pol"]       # no conflicting data around: the policy must not matter
                reaper = w.early if (getattr(w, "early", None) is not None and w.variant.get("early_handle")) else w.crop
                stray = None
                if w.variant.get("stray_tmp") and allow and os.path.isdir(os.path.join(w.crop.location, "results")):
                    # what a grower killed while publishing leaves behind: a partly written temporary file next to the results
                    missing = [i for i in range(1, w.case["nb"] + 1)
                               if not os.path.exists(os.path.join(w.crop.location, "results", "xyz-result-%d.jbdmp" % i))]
                    if missing:
                        import uuid as _uuid
                        stray = os.path.join(w.crop.location, "results", "xyz-result-%d.jbdmp.%d-%s.tmp" % (
                            missing[0], 4242, _uuid.uuid4().hex))
                        with open(stray, "wb") as fh:
                            fh.write(b"\x80\x05\x95\x10\x00\x00")          # the first bytes of a pickle, nothing more
                if w.variant.get("reap_wait") and ev["post"]["outcome"] == "complete":
                    # every result is there: waiting for results must not change anything
                    rdir = os.path.join(w.crop.location, "results")
                    if all(os.path.isfile(os.path.join(rdir, "xyz-result-%d.jbdmp" % i)) for i in range(1, w.case["nb"] + 1)):
                        kw["wait"] = True
                try:
                    ret = reaper.reap(**kw)
                finally:
                    if stray is not None and os.path.exists(stray):
                        os.remove(stray)
            else:
                raise RuntimeError("unknown action %r" % a)
    except Exception as e:  # noqa
        exc = e
    if a == "reap" and exc is None:
        return "returned", ret, None
    return classify(exc), ret, exc


def setup_cause(w):
    """Environment conditions that make a complete reap fail (never a patch of xyzpy)."""
    if w.cause == "merge" and w.farmer_kind == "harvester":
        # a pre-existing data file whose value at setting 1 conflicts
        import xarray as xr
        loc = w.case["settings"][0]
        coords = {nm: [int(v)] for nm, v in zip(w.names, loc)}
        data = {"x": (tuple(w.names), np.full([1] * len(w.names), -5.0))}
        if w.mode == "xy":
            data["y"] = (tuple(w.names), np.full([1] * len(w.names), -10.0))
        ds = xr.Dataset(data, coords=coords)
        w.xyz.save_ds(ds, w.data_name, engine=w.engine)


_CLAIMS = [None]        # set by drive() before the (forked) workers start


def _claimed(tag):
    c = _CLAIMS[0]
    return c is None or bool(c(tag))


def replay_case(case, variant):
    """Returns (problem or None, tag, step index, notes)."""
    w = World(case, variant)
    notes = []
    perms = {}
    for s in (1, 2):
        sv = {1: variant.get("seed1", True), 2: 5}[s]
        perms[int(sv)] = perm_of(case, s)
    try:
        setup_cause(w)
        drifted = False
        with ForcedShuffle(perms):
            for k, ev in enumerate(case["hist"]):
                post = ev["post"]
                w.expect_k = ev.get("k", 0)
                w.stale = bool(ev.get("stale", False))
                w.ever_stale = getattr(w, "ever_stale", False) or w.stale
                w.kof = ev.get("kof") or None
                outcome, ret, exc = do_step(w, ev)
                want = post["outcome"]
                if ev["a"] == "reap":
                    if want in ("complete", "partial"):
                        if outcome != "returned":
                            return ("step %d reap%r raised %s: %s, model says it returns (%s)" % (
                                k, tuple(ev["args"]), type(exc).__name__, str(exc)[:200], want), "reap_raise_" + want, k, notes)
                        prob = check_value(w, ret, ev["value"])
                        if prob and drifted and want == "partial":
                            notes.append("model_drift (after batch-order drift): " + prob)
                            return None, None, k, notes
                        if prob:
                            return ("step %d reap%r: %s" % (k, tuple(ev["args"]), prob), "reap_value_" + want, k, notes)
                        prob = check_store(w, ev["store"], ev.get("extra", 0))
                        if prob:
                            return ("step %d after reap: %s" % (k, prob), "store", k, notes)
                        if w.farmer_kind != "none" and w.farmer is not None:
                            last = w.farmer.last_df if w.farmer_kind == "sampler" else w.farmer.last_ds
                            if last is not ret:
                                return ("step %d: the reaped result is not recorded as the farmer's last result" % k,
                                        "last_result", k, notes)
                            if want == "complete" and not (w.cause == "merge") and not w.stale and w.kver == w.expect_k:
                                # (constants changed in the session but not sown yet, or results of both versions around:
                                #  "the same inputs" of the direct run are not defined - only the model's value map is checked)
                                prob = check_direct(w, ret)
                                if prob:
                                    return ("step %d reap%r: %s" % (k, tuple(ev["args"]), prob), "direct", k, notes)
                    elif want == "refused":
                        if outcome == "returned":
                            return ("step %d reap%r on an incomplete crop: %s, model says refused with an error" % (
                                k, tuple(ev["args"]), outcome if exc is None else type(exc).__name__ + ": " + str(exc)[:120]), "reap_refuse", k, notes)
                    elif want == "error_nothing":
                        if outcome == "returned":
                            notes.append("reap of a crop without any result returned (cached placeholder): left open by the property; trace abandoned")
                            return None, None, k, notes
                    else:  # error
                        if outcome == "returned":
                            return ("step %d reap%r returned although the model says it must fail (%s)" % (
                                k, tuple(ev["args"]), w.cause), "reap_should_fail", k, notes)
                else:
                    if want == "raised" and outcome == "error":
                        outcome = "raised"       # the call failed because the function failed; the exception type is not demanded
                    if outcome != want and drifted and w.cfg["failing"]:
                        notes.append("model_drift (after batch-order drift): outcome %s vs %s" % (outcome, want))
                        return None, None, k, notes
                    if outcome != want:
                        return ("step %d %s%r: outcome %s (%s), model says %s" % (
                            k, ev["a"], tuple(ev["args"]), outcome, "" if exc is None else type(exc).__name__ + ": " + str(exc)[:160], want), "outcome_" + ev["a"], k, notes)
                if w.sibling_files is not None and w.sibling_listing() != w.sibling_files:
                    return ("after step %d %s%r: the files of the neighbouring crop %r (never reaped) changed: %r -> %r" % (
                        k, ev["a"], tuple(ev["args"]), os.path.basename(w.sibling_loc), w.sibling_files, w.sibling_listing()),
                        "dir_sibling", k, notes)
                if w.crop is None:
                    continue            # nothing sown yet (a direct harvest before the sow): no crop to observe
                prob = compare_obs(w, post, k)
                if prob and drifted and w.cfg["failing"]:
                    notes.append("model_drift (after batch-order drift): " + prob)
                    return None, None, k, notes
                if prob:
                    tag_ = ("dir_" if "directory" in prob else "obs_") + ev["a"]
                    if not _claimed(tag_) and "directory" not in prob:
                        # an observation this property does not speak about (the owning check reports it): go on,
                        # what this property does speak about may still be decided further down the history
                        notes.append("off-property observation mismatch (%s): %s" % (tag_, prob[:160]))
                    else:
                        return ("after step %d %s%r: %s" % (k, ev["a"], tuple(ev["args"]), prob), tag_, k, notes)
                if ev["a"] in ("sow", "resow", "reload") and post["dir"] == "present":
                    got = read_batches(w)
                    want_b = [list(b) for b in case["batch"]]
                    if got != want_b:
                        flat = sorted(i for b in got for i in b)
                        partition_ok = ([len(b) for b in got] == [len(b) for b in want_b]
                                        and flat == list(range(1, case["n"] + 1)))
                        if not partition_ok and not _claimed("batches"):
                            notes.append("off-property mismatch (batches): batch files hold %r, model says %r" % (got, case["batch"]))
                            drifted = True
                        elif not partition_ok:
                            return ("after %s: batch files hold %r, model says %r" % (ev["a"], got, case["batch"]),
                                    "batches", k, notes)
                        # same partition, other order of the settings: not a violation in itself (the
                        # property speaks about what is reaped) - go on, but only trust composition-
                        # independent expectations from here
                        if not drifted:
                            notes.append("model_drift: settings sown in another order than the model's: %r vs %r" % (got, want_b))
                        drifted = True
                    c = w.crop
                    if ev["a"] == "reload" and w.unsynced:
                        pass          # a handle told not to load what is on disk does not know the numbers yet
                    elif (c.num_batches, c.batchsize) != (case["nb"], case["bsz"]) and not _claimed("numbers"):
                        notes.append("off-property mismatch (numbers): num_batches=%r batchsize=%r, model %r / %r" % (
                            c.num_batches, c.batchsize, case["nb"], case["bsz"]))
                    elif (c.num_batches, c.batchsize) != (case["nb"], case["bsz"]):
                        return ("after %s: crop reports num_batches=%r batchsize=%r, model says %r / %r" % (
                            ev["a"], c.num_batches, c.batchsize, case["nb"], case["bsz"]), "numbers", k, notes)
        return None, None, len(case["hist"]), notes
    finally:
        w.close()


# -- driver ---------------------------------------------------------------------------------

def _job(job):
    case, variant = job
    try:
        prob, tag, step, notes = replay_case(case, variant)
    except Exception:
        return case, variant, "HARNESS " + traceback.format_exc()[-1500:], "harness", 0, []
    return case, variant, prob, tag, step, notes


def default_variants(case, idx):
    cfg = case["cfg"]
    k = idx
    v = dict(seed1=[True, 3][k % 2], combos_dict=(k % 3 != 0), reload_from_disk=(k % 2 == 0),
             corrupt_kind=["truncate", "long", "short"][k % 3], exc_kind=["value", "stop"][k % 4 == 1],
             np_values=(k % 5 == 2), reload_ctor_args=(k % 2 == 1), early_handle=(k % 3 == 0), memory_only=(k % 4 == 3),
             resources=(k % 3 != 1), path_words=(k % 4 == 1), no_autoload=(k % 4 in (1, 3)), observer_fresh=(k % 4 in (0, 1)),
             bare_case_dict=(k % 2 == 0), cases_combos_rev=(k % 4 == 2), early_resow=(k % 6 == 0),
             ids_spelling=["tuple", "gen", "list", "iter", "tuple"][k % 5], reap_wait=(k % 3 == 0), sibling=(k % 2 == 1), rel_data=(k % 4 == 2),
             bool_attrs=(k % 3 == 1), stray_tmp=(k % 2 == 0), direct_unsynced=(k % 2 == 1), merge_fix_false=(k % 2 == 0), positional_crop=(k % 3 == 0))
    if cfg["farmer"] == "none":
        v["result"] = ["scalar", "xy", "array", "str", "bool"][k % 5]
    else:
        v["fmode"] = ["xy", "scalar", "xv", "xs", "xy", "xv"][k % 6]
        v["engine"] = ["joblib", "h5netcdf"][k % 4 == 1]
        v["ext"] = (k % 3 != 2)
        v["df_engine"] = ["pickle", "csv"][k % 2]
        v["overwrite_pol"] = [None, True, False][k % 3]
        if cfg["cause"] == "build":
            v["fmode"] = "xy"
    return v


def case_key(case, tag):
    cfg = case["cfg"]
    return dict(tag=tag, kind=cfg["kind"], farmer=cfg["farmer"], bmode=cfg["bmode"],
                shufCtor=cfg["shufCtor"] != 0, shufSow=cfg["shufSow"] > 0, cause=cfg["cause"])


def drive(rep, runs, claims=None, variants=default_variants):
    """runs: list of dict(name, configs, acts, max_steps, mode='bfs'|'sim', num, depth, sample).
    claims: predicate on the failure tag deciding whether a mismatch belongs to this property."""
    jobs = []
    idx = 0
    for run in runs:
        if run.get("check", True):
            r = run_model("MC_" + run["name"] + "_chk", run["configs"], acts=run["acts"], max_steps=run["max_steps"],
                          record=False, coverage=True, view=False, max_perm=run.get("max_perm", 3))
            rep.add_tlc(run["name"] + " exhaustive", r)
            if r.violated:
                raise tlc.TLCError("Crop.tla: %s violated in %s" % (r.violated, run["name"]))
            for a in run.get("need", []):
                if r.coverage and r.coverage.get(a, (0, 0))[1] == 0:
                    raise tlc.TLCError("vacuous: action %s never taken in %s" % (a, run["name"]))
        if run["mode"] == "bfs":
            e = run_model("MC_" + run["name"] + "_emit", run["configs"], acts=run["acts"], max_steps=run["max_steps"],
                          record=True, emit=True, workers=1, max_perm=run.get("max_perm", 3), props=[])
            rep.add_tlc(run["name"] + " emit", e)
            cases = e.cases
        else:
            e = run_model("MC_" + run["name"] + "_sim", run["configs"], acts=run["acts"], max_steps=run["max_steps"],
                          record=True, emit=True, workers=1, simulate=dict(num=run["num"]),
                          depth=run["max_steps"] + 3, seed=rep.seed, max_perm=run.get("max_perm", 3), props=[])
            rep.add_tlc(run["name"] + " simulate", e)
            seen = {}
            for c in e.cases:
                seen.setdefault(common.stable_hash(c), c)
            cases = list(seen.values())
        if run.get("filter"):
            cases = [c for c in cases if run["filter"](c)]
        cap = run.get("sample") or (4 * run["num"] if run["mode"] == "sim" else None)
        if cap and len(cases) > cap:
            # (the simulator evaluates the emitting invariant on every successor it generates, not only on the chosen path)
            rnd = _random.Random(rep.seed * 7919 + len(cases))
            cases = rnd.sample(cases, cap)
        rep.note("%s: %d behaviours emitted by TLC, %d replayed" % (run["name"], len(e.cases), len(cases)))
        for c in cases:
            jobs.append((c, variants(c, idx)))
            idx += 1
    _CLAIMS[0] = claims
    results = common.pmap(_job, jobs)
    off = 0
    harness = []
    for case, variant, prob, tag, step, notes in results:
        acts = [ev["a"] for ev in case["hist"]]
        rep.add_case([case["cfg"], case["perm1"], [(ev["a"], ev["args"]) for ev in case["hist"]], variant],
                     nontrivial=len(acts) >= 2 or case["cfg"]["bmode"] != "none",
                     sample=dict(cfg=case["cfg"], perm1=case["perm1"], batch=case["batch"],
                                 hist=[[ev["a"], ev["args"], ev["post"]["outcome"]] for ev in case["hist"]], variant=variant)
                     if len(rep.samples) < 3 and len(acts) >= 3 else None)
        if prob and tag == "harness":
            harness.append(prob)
            continue
        for nt in notes[:1]:
            rep.note("note: " + nt)
        if prob:
            if claims is None or claims(tag):
                rep.add_violation(dict(case=case, variant=variant), prob, key=case_key(case, tag))
            else:
                off += 1
                if off <= 5:
                    rep.note("off-property mismatch (%s), reported by the owning check: %s" % (tag, prob[:200]))
    rep.extra["off_property_mismatches"] = off
    if harness:
        # (after the loop: violations established by the other replays are reported by the driver)
        raise RuntimeError("%d replay(s) ended in a harness exception, first: %s" % (len(harness), harness[0]))
    return results


def replay_saved(rep, saved, claims=None):
    _CLAIMS[0] = claims
    prob, tag, step, notes = replay_case(saved["case"], saved["variant"])
    for n in notes:
        print("note:", n)
    if prob and (claims is None or claims(tag)):
        rep.add_violation(saved, prob, key=case_key(saved["case"], tag))


# -- growing with a pool of worker processes (grow(i, num_workers=k)) ---------------------------------

def parallel_grow_cases(rep, count=1, partial=False, farmer=False):
    """Crop.tla's Grow(i) stores the batch's results in the order the batch was sown whatever the order in which the
    workers finish: batches of 3 whose first setting is the slowest are grown with num_workers=2 (real loky processes)."""
    import time
    xyz = common.use_repo()
    for t in range(count):
        tmp = tempfile.mkdtemp(prefix="pg-", dir=common.scratch("crops"))
        try:
            n, bs = 6, 3

            def fn(a, slow=(1, 4)):
                import time as _t
                _t.sleep(0.7 if a in slow else 0.0)
                return float(100 * a + 3)
            if farmer:
                # C06: the crop of a Runner; the reaped Dataset must be the direct run's
                runner_ = xyz.Runner(fn, var_names="x")
                crop = runner_.Crop(name="pg", parent_dir=tmp, batchsize=bs)
            else:
                crop = xyz.Crop(fn=fn, name="pg", parent_dir=tmp, batchsize=bs, shuffle=(t % 2 == 1) and 3)
            crop.sow_combos({"a": list(range(1, n + 1))}, verbosity=0, **({"shuffle": (t % 2 == 1) and 3} if farmer else {}))
            sink = io.StringIO()
            with contextlib.redirect_stdout(sink), contextlib.redirect_stderr(sink):
                if partial:
                    # C09: only the second batch is grown (by a pool of workers), then a partial reap
                    xyz.grow(2, crop=xyz.Crop(name="pg", parent_dir=tmp), num_workers=2, verbosity=0)
                elif t % 2 == 0:
                    for b in (2, 1):
                        xyz.grow(b, crop=xyz.Crop(name="pg", parent_dir=tmp), num_workers=2, verbosity=0)
                else:
                    # Crop.grow_missing(num_workers=..): the batches themselves are spread over the workers
                    xyz.Crop(name="pg", parent_dir=tmp).grow_missing(num_workers=2, verbosity=0)
                res = xyz.Crop(name="pg", parent_dir=tmp).reap(allow_incomplete=True) if partial else xyz.Crop(name="pg", parent_dir=tmp).reap()
            want = tuple(float(100 * a + 3) for a in range(1, n + 1))
            case = dict(kind="parallel_grow", n=n, batchsize=bs, num_workers=2, partial=partial, farmer=farmer)
            if farmer:
                import xarray as xr
                if not isinstance(res, xr.Dataset) or list(res["a"].values) != list(range(1, n + 1)):
                    rep.add_violation(case, "Runner crop grown with num_workers=2: reap returned %r" % (res,), key=dict(tag="direct", kind="parallel_grow"))
                    continue
                res = tuple(float(v) for v in res["x"].values)
            rep.add_case(["parallel_grow", t, partial], sample=None)
            if partial:
                # which settings are in batch 2 depends on the shuffle: the grown values must sit at their own positions,
                # everything else must be the placeholder
                got = [None if (isinstance(v, float) and math.isnan(v)) else float(v) for v in res]
                bad = [k for k, v in enumerate(got) if v is not None and v != want[k]]
                if bad or sum(v is not None for v in got) != bs:
                    rep.add_violation(case, "grow(2, num_workers=2) then reap(allow_incomplete=True): %r; every finished value must be "
                                      "at its own position (direct run %r) and exactly %d positions finished" % (tuple(res), want, bs),
                                      key=dict(tag="reap_value_partial", kind="parallel_grow"))
            elif tuple(res) != want:
                rep.add_violation(case, "grow(i, num_workers=2) with a slow first setting: reap gives %r, the direct run %r" % (tuple(res), want),
                                  key=dict(tag="reap_value_complete", kind="parallel_grow"))
        finally:
            shutil.rmtree(tmp, ignore_errors=True)
