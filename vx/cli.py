"""./check <property> [--tier quick|thorough] [--replay file]"""
import argparse
import importlib
import json
import os
import sys
import traceback

from . import common, report, tlc

PROPS = ["C%02d" % i for i in range(1, 21)]


def main(argv=None):
    ap = argparse.ArgumentParser(prog="check")
    ap.add_argument("prop")
    ap.add_argument("--tier", default=os.environ.get("VERIF_TIER", "quick"), choices=["quick", "thorough"])
    ap.add_argument("--replay", default=None)
    ap.add_argument("--seed", type=int, default=None)
    a = ap.parse_args(argv)
    seed = a.seed if a.seed is not None else int(os.environ.get("VERIF_SEED", "0") or 0)

    if a.prop == "setup":
        from . import selftest
        return selftest.setup()
    if a.prop == "selftest":
        from . import selftest
        return selftest.full()
    if a.prop not in PROPS:
        print("unknown property", a.prop)
        return 2
    try:
        mod = importlib.import_module("vx.props." + a.prop)
    except ImportError as e:
        print("no check implemented for", a.prop, e)
        return 2
    rep = report.Report(a.prop, a.tier, seed)
    try:
        if a.replay:
            data = json.load(open(a.replay))
            if isinstance(data.get("case"), dict) and data["case"].get("kind") == "library_failure":
                mod.run(rep)          # (the failing operation is part of every run)
            else:
                mod.replay(rep, data["case"])
        else:
            mod.run(rep)
    except common.LibraryFailure as e:
        rep.add_violation(dict(kind="library_failure", what=str(e)), str(e), key=dict(tag="library_failure"))
        if not a.replay:
            return rep.finish()
    except tlc.TLCError as e:
        if rep.violations and not a.replay:
            print("note: TLC / self-test failure (%s) after %d violation(s) had been established; reporting those" % (e, len(rep.violations)))
            rep.note("TLC / self-test failure after violations had been established: %s" % (e,))
            return rep.finish()
        print("MACHINERY-FAILURE (TLC):", e)
        return 2
    except Exception as e:
        traceback.print_exc(file=sys.stdout)
        tb = traceback.extract_tb(e.__traceback__)
        lib = os.path.join(common.REPO, "xyzpy") + os.sep
        if tb and tb[-1].filename.startswith(lib) and not a.replay:
            # raised by the library itself, in an operation every run of this check performs and that succeeds on the
            # reference tree: the library no longer supports what the property quantifies over
            where = "%s:%d in %s" % (os.path.relpath(tb[-1].filename, common.REPO), tb[-1].lineno, tb[-1].name)
            msg = "the library raised %s: %s (%s) in an operation this check performs on every run" % (type(e).__name__, str(e)[:200], where)
            rep.add_violation(dict(kind="library_failure", what=msg), msg, key=dict(tag="library_failure"))
            return rep.finish()
        if rep.violations and not a.replay:
            # replayable violations were already established before the harness stumbled: report them
            print("note: harness exception after %d violation(s) had been established; reporting those" % len(rep.violations))
            rep.note("harness exception after violations had been established (see stdout)")
            return rep.finish()
        print("MACHINERY-FAILURE (harness exception)")
        return 2
    if a.replay:
        # replays do not rewrite the evidence file
        for v in rep.violations:
            print("VIOLATION property=%s replay=%s" % (a.prop, a.replay))
            print("  what: " + v["what"][:400])
        if not rep.violations:
            print("replay: property held on this case")
        return 1 if rep.violations else 0
    return rep.finish()


if __name__ == "__main__":
    sys.exit(main())
