"""./check <property> [--tier quick|thorough] [--replay file]"""
import argparse
import importlib
import json
import os
import sys
import traceback

from . import common, report, tlc

PROPS = ["C%02d" % i for i in range(1, 21)]


def main(argv=None):
    ap = argparse.ArgumentParser(prog="check")
    ap.add_argument("prop")
    ap.add_argument("--tier", default=os.environ.get("VERIF_TIER", "quick"), choices=["quick", "thorough"])
    ap.add_argument("--replay", default=None)
    ap.add_argument("--seed", type=int, default=None)
    a = ap.parse_args(argv)
    seed = a.seed if a.seed is not None else int(os.environ.get("VERIF_SEED", "0") or 0)

    if a.prop == "setup":
        from . import selftest
        return selftest.setup()
    if a.prop == "selftest":
        from . import selftest
        return selftest.full()
    if a.prop not in PROPS:
        print("unknown property", a.prop)
        return 2
    try:
        mod = importlib.import_module("vx.props." + a.prop)
    except ImportError as e:
        print("no check implemented for", a.prop, e)
        return 2
    rep = report.Report(a.prop, a.tier, seed)
    try:
        if a.replay:
            data = json.load(open(a.replay))
            mod.replay(rep, data["case"])
        else:
            mod.run(rep)
    except tlc.TLCError as e:
        print("MACHINERY-FAILURE (TLC):", e)
        return 2
    except Exception:
        traceback.print_exc(file=sys.stdout)
        print("MACHINERY-FAILURE (harness exception)")
        return 2
    if a.replay:
        # replays do not rewrite the evidence file
        for v in rep.violations:
            print("VIOLATION property=%s replay=%s" % (a.prop, a.replay))
            print("  what: " + v["what"][:400])
        if not rep.violations:
            print("replay: property held on this case")
        return 1 if rep.violations else 0
    return rep.finish()


if __name__ == "__main__":
    sys.exit(main())
