"""Replay of Harvest.tla behaviours into the real Harvester / Sampler / save_merge_ds (C05, C15)."""
import contextlib
import io
import math
import os
import re
import shutil
import tempfile
import traceback

import numpy as np

from . import common, tlc

VER = [1]


def run_model(name, *, spec, avals, bvals, vers, max_steps, record, acts, policies=("none", "true", "false"),
              reload_rule="disk", name_rule="same", max_rows=6, invariants=(), props=(), emit=None, view=True,
              simulate=None, depth=None, seed=None, workers=None, coverage=False):
    consts = dict(AVals=set(avals), BVals=set(bvals), Vers=set(vers), MaxSteps=max_steps, Record=record, Acts=set(acts),
                  Policies=set(policies), ReloadRule=reload_rule, NameRule=name_rule, MaxRows=max_rows)
    tail = "SPECIFICATION %s\n" % spec
    tail += "".join("INVARIANT %s\n" % i for i in invariants) + "".join("PROPERTY %s\n" % p for p in props)
    if emit:
        tail += "INVARIANT %s\n" % emit
    if view and not record:
        # the VIEW hides the step counter: only a strictly level-ordered search (one worker) reaches every
        # view-state first at its minimal depth, which is what makes the step bound sound
        tail += "VIEW HView\n"
        workers = 1
    tail += "CHECK_DEADLOCK FALSE\n"
    return tlc.run_mc("Harvest", consts, tail, name=name, workers=workers, simulate=simulate, depth=depth, seed=seed,
                      coverage=coverage)


_KEY = re.compile(r"-?\d+")


def parse_map(m):
    """ToJson of a function over <<a, b, c>> -> {(a, b, c): ver}; 'none' -> None."""
    if m == "none" or m is None:
        return None
    out = {}
    for k, v in m.items():
        out[tuple(int(x) for x in _KEY.findall(k))] = v
    return out


class HWorld(object):
    def __init__(self, variant):
        self.xyz = common.use_repo()
        self.variant = variant
        self.tmp = tempfile.mkdtemp(prefix="harv-", dir=common.scratch("harv"))
        self.engine = variant.get("engine", "joblib")
        ext = {"joblib": ".dmp", "h5netcdf": ".h5"}[self.engine]
        stem = "data_T0.5" if variant.get("ext") == "dotted" else "data"      # a dot, but no known extension
        self.data_name = os.path.join(self.tmp, stem + (ext if variant.get("ext", True) is True else ""))
        self.file = os.path.join(self.tmp, stem + ext)

        # offset: values of the two function versions differ by a relative 1e-6 only (still different data)
        off = self.off = int(variant.get("offset", 0))
        # close: the labels of argument a are distinct floats that differ by a relative 4e-6 only
        close = self.close_labels = bool(variant.get("close_coords"))

        # late_float: the labels of argument a are 1, 1.5, 2.5: an integer label first, non-integral ones later
        late = self.late_float = bool(variant.get("late_float")) and not close

        def ai(a):
            if late:
                return 1 if a == 1 else int(a + 0.5)
            return int(round((a - 1000.0) / 0.004)) if close else a

        # int_first: function version 1 returns Python ints, version 2 non-integral floats (+ 0.25)
        int_first = self.int_first = bool(variant.get("int_first")) and not off

        def fn(a, b, c=7):
            if int_first:
                v_ = VER[0] * 1000 + 10 * ai(a) + b
                return int(v_) if VER[0] == 1 else v_ + 0.25
            return float(off + VER[0] * 1000 + 10 * ai(a) + b)

        def fn2(a, b, c=7):
            # the function after it gained a second output
            return fn(a, b, c), float(VER[0] * 1000 + 10 * ai(a) + b)

        self.fn = fn
        rkw = {}
        if variant.get("bool_attrs"):
            rkw["attrs"] = {"flag": True, "nothing": None, "off": False}     # (netCDF engines store these as strings)
        self.runner = self.xyz.Runner(fn, var_names="x", fn_args=("a", "b", "c"), **rkw)
        self.runner2 = self.xyz.Runner(fn2, var_names=["x", "y"], fn_args=("a", "b", "c"), **rkw)
        self.two = False          # True once the function has the second output
        self.ymap = {}            # (a, b) -> version expected for y
        self.h = None
        self.percall = bool(variant.get("percall_engine"))
        self.new_session()

    def new_session(self):
        if self.percall:
            # the object is built with the other engine; every call names the engine to use
            other = "h5netcdf" if self.engine == "joblib" else "joblib"
            self.h = self.xyz.Harvester(self.runner, self.data_name, engine=other)
        else:
            self.h = self.xyz.Harvester(self.runner, self.data_name, engine=self.engine)

    def aval(self, a):
        if self.late_float:
            return 1 if a == 1 else a - 0.5
        return 1000.0 + 0.004 * a if self.close_labels else a

    def ekw(self):
        return {"engine": self.engine} if self.percall else {}

    def close(self):
        try:
            if self.h is not None and self.h._full_ds is not None:
                self.h._full_ds.close()
        except Exception:
            pass
        shutil.rmtree(self.tmp, ignore_errors=True)

    # -- projections ---------------------------------------------------------
    def ds_map(self, ds, points, var="x"):
        out = {}
        has_c = "c" in ds.dims
        off = self.off if var == "x" else 0
        for p in points:
            a, b, c = p
            v = 0
            if (c == 0) == (not has_c):
                try:
                    sel = dict(a=self.aval(a), b=b)
                    if has_c:
                        sel["c"] = c
                    if var not in ds:
                        raise KeyError(var)
                    x = float(ds[var].sel(sel).values) - off
                    if not math.isnan(x):
                        v = int(x) // 1000
                        if int(x) % 1000 != 10 * a + b:
                            v = -1          # a value that belongs to another point
                        elif x - int(x) != (0.25 if (self.int_first and var == "x" and v == 2) else 0.0):
                            v = -1          # not exactly the value the function returned (e.g. truncated)
                except KeyError:
                    v = 0
            out[p] = v
        return out

    def observe(self, points):
        listing = sorted(os.listdir(self.tmp))
        exists = os.path.exists(self.file)
        disk = None
        if exists:
            try:
                ds = self.xyz.load_ds(self.file, engine=self.engine)
            except Exception as e:  # noqa
                return dict(listing=listing, exists=exists, disk=None, mem=None,
                            unreadable="%s: %s" % (type(e).__name__, str(e)[:160]))
            try:
                disk = self.ds_map(ds, points)
                dlabels = {str(d): [repr(v) for v in ds[d].values.tolist()] for d in ds.dims}
            finally:
                ds.close()
        mem = None
        labels = None
        if self.h._full_ds is not None:
            mem = self.ds_map(self.h._full_ds, points)
            labels = {str(d): [repr(v) for v in self.h._full_ds[d].values.tolist()] for d in self.h._full_ds.dims}
        return dict(listing=listing, exists=exists, disk=disk, mem=mem, labels=labels, dlabels=dlabels if exists else None)

    def observe_y(self, points):
        """(disk, mem) maps of the second output."""
        disk = mem = None
        if os.path.exists(self.file):
            ds = self.xyz.load_ds(self.file, engine=self.engine)      # (loadable: observe() was called just before)
            try:
                disk = self.ds_map(ds, points, "y")
            finally:
                ds.close()
        if self.h._full_ds is not None:
            mem = self.ds_map(self.h._full_ds, points, "y")
        return disk, mem




def combos_of(A, B, c, w=None):
    d = {"a": [w.aval(a) for a in A] if w is not None else list(A), "b": list(B)}
    if c:
        d["c"] = [c]
    return d


def do_hstep(w, ev):
    a, args = ev["a"], ev["args"]
    xyz = w.xyz
    exc = None
    pol = {"none": None, "true": True, "false": False}
    try:
        with contextlib.redirect_stdout(io.StringIO()), contextlib.redirect_stderr(io.StringIO()):
            if a == "session":
                w.new_session()
            elif a == "harvest_combos":
                A, B, c, v, p, sync = args
                VER[0] = v
                if w.variant.get("via_add_ds") and sync:
                    ds = w.runner.run_combos(combos_of(A, B, c, w), verbosity=0)
                    w.h.add_ds(ds, overwrite=pol[p], sync=sync, **w.ekw())
                else:
                    w.h.harvest_combos(combos_of(A, B, c, w), overwrite=pol[p], sync=sync, verbosity=0, **w.ekw())
            elif a == "harvest_cases":
                P, v, p, sync = args
                VER[0] = v
                cases = [dict(a=w.aval(q[0]), b=q[1], **({"c": q[2]} if q[2] else {})) for q in P]
                w.h.harvest_cases(cases, overwrite=pol[p], sync=sync, verbosity=0, **w.ekw())
            elif a == "save_merge":
                A, B, c, v, p = args
                VER[0] = v
                if w.variant.get("other_harvester"):
                    # the same change of the file made by another live Harvester object (another session / process)
                    other = xyz.Harvester(w.runner, w.data_name, engine=w.engine)
                    other.harvest_combos(combos_of(A, B, c, w), overwrite=pol[p], verbosity=0)      # (its own engine is the file's)
                else:
                    ds = w.runner.run_combos(combos_of(A, B, c, w), verbosity=0)
                    xyz.save_merge_ds(ds, w.data_name, overwrite=pol[p], engine=w.engine)
            elif a == "expand_dims":
                w.h.expand_dims("c", 7)
            elif a == "drop_sel":
                w.h.drop_sel(a=w.aval(args[0]))
            elif a == "delete_ds":
                w.h.delete_ds()
            else:
                raise RuntimeError("unknown action " + a)
    except Exception as e:  # noqa
        exc = e
    return exc


def is_conflict(exc):
    import xarray as xr
    return isinstance(exc, (xr.MergeError, ValueError)) and ("conflict" in str(exc).lower() or isinstance(exc, xr.MergeError))


def replay_h(case, variant, points):
    """Returns (problem, tag, step, notes)."""
    if variant.get("percall_engine") and any(ev["a"] in ("delete_ds", "expand_dims", "drop_sel") for ev in case["hist"]):
        variant = dict(variant, percall_engine=False)     # those calls take the engine from the object
    hist = case["hist"]
    # the function gains a second output half-way (a new session with the new runner): only for histories in which
    # memory and disk stay in step and the point space stays two-dimensional
    simple = all((ev["a"] in ("session", "drop_sel"))
                 or (ev["a"] == "harvest_combos" and ev["args"][2] == 0 and ev["args"][5])
                 or (ev["a"] == "harvest_cases" and all(q[2] == 0 for q in ev["args"][0]) and ev["args"][3])
                 for ev in hist)
    sessions = [k for k, ev in enumerate(hist) if ev["a"] == "session"]
    if variant.get("second_var") and not (simple and sessions):
        variant = dict(variant, second_var=False)
    # (the model's own new-session step is the one in which the new function is used first)
    switch_at = sessions[0] if variant.get("second_var") else None
    w = HWorld(variant)
    notes = []
    prev = None
    try:
        for k, ev in enumerate(case["hist"]):
            post = ev["o"]
            if switch_at is not None and k == switch_at:
                w.two = True
                w.runner = w.runner2
            exc = do_hstep(w, ev)
            label = "step %d %s%r" % (k, ev["a"], tuple(ev["args"]))
            if w.two and ev["a"] in ("harvest_combos", "harvest_cases") and post["outcome"] != "conflict":
                # the second output has its own history: it may conflict where the first does not
                if ev["a"] == "harvest_combos":
                    pts_, ver_, pol_ = [(a_, b_) for a_ in ev["args"][0] for b_ in ev["args"][1]], ev["args"][3], ev["args"][4]
                else:
                    pts_, ver_, pol_ = [(q[0], q[1]) for q in ev["args"][0]], ev["args"][1], ev["args"][2]
                if pol_ == "none" and any(p_ in w.ymap and w.ymap[p_] != ver_ for p_ in pts_):
                    if exc is None:
                        return (label + ": conflicting data of the second output 'y' merged without an error under the default policy",
                                "no_conflict", k, notes)
                    notes.append("second output conflicts where the first does not: history abandoned (outside the model)")
                    return None, None, k, notes
            if post["outcome"] == "conflict":
                if exc is None:
                    return (label + ": conflicting data merged without an error under the default policy", "no_conflict", k, notes)
                if not is_conflict(exc):
                    return (label + ": raised %s: %s, expected a merge conflict" % (type(exc).__name__, str(exc)[:200]), "raise", k, notes)
            elif exc is not None:
                return (label + ": raised %s: %s" % (type(exc).__name__, "".join(traceback.format_exception_only(type(exc), exc))[:300]),
                        "raise", k, notes)
            o = w.observe(points)
            if o.get("unreadable"):
                return (label + ": the data file %s cannot be loaded with its engine (%s) any more: %s" % (
                    os.path.basename(w.file), w.engine, o["unreadable"]), "disk_value", k, notes)
            want_disk = parse_map(post["disk"])
            want_mem = parse_map(post["mem"])
            # directory: exactly the one file the naming rule dictates, or nothing
            want_listing = [os.path.basename(w.file)] if post["exists"] else []
            if o["listing"] != want_listing:
                # C05 speaks about the data, not the directory (exact naming is C14's subject): only the presence
                # of the expected file is demanded here
                if (os.path.basename(w.file) in o["listing"]) != bool(post["exists"]):
                    return (label + ": directory holds %r, expected %r" % (o["listing"], want_listing), "listing", k, notes)
                notes.append("directory holds %r besides the data file" % (o["listing"],))
            if post["exists"]:
                bad = [p for p in points if o["disk"][p] != want_disk[p]]
                if bad:
                    p = bad[0]
                    return (label + ": on disk the point %r holds version %r, the policy sequence dictates %r (0 = no data)" % (
                        p, o["disk"][p], want_disk[p]), "disk_value", k, notes)
            if (post["outcome"] == "conflict" and prev is not None and prev.get("labels") is not None and o.get("labels") is not None
                    and any(set(o["labels"].get(d_, [])) - set(prev["labels"].get(d_, [])) - set((o.get("dlabels") or {}).get(d_, []))
                            for d_ in o["labels"])):
                # a refused harvest leaves memory as it was (or as the file is, when it re-read the file): no coordinate
                # labels that neither memory nor the file had
                return (label + ": the refused (conflicting) harvest changed the coordinates of Harvester.full_ds: %r -> %r" % (
                    prev["labels"], o["labels"]), "mem_value", k, notes)
            if want_mem is None:
                if o["mem"] is not None and ev["a"] == "session":
                    notes.append("fresh Harvester already has data in memory")
            else:
                if o["mem"] is None:
                    return (label + ": Harvester holds nothing in memory, model has data", "mem_none", k, notes)
                bad = [p for p in points if o["mem"][p] != want_mem[p]]
                if bad:
                    p = bad[0]
                    return (label + ": in memory the point %r holds version %r, expected %r" % (p, o["mem"][p], want_mem[p]),
                            "mem_value", k, notes)
            # monitor of NothingDropped on the *real* observations (trace validation of the action property)
            if prev is not None and ev["a"] not in ("drop_sel", "delete_ds", "expand_dims"):
                for src in ("disk", "mem"):
                    if prev[src] is None or o[src] is None:
                        continue
                    lost = [p for p in points if prev[src][p] != 0 and o[src][p] == 0]
                    if lost:
                        p0 = lost[0]
                        mem_only = src == "mem" and (prev["disk"] is None or prev["disk"][p0] == 0)
                        synced = bool(ev["args"][-1]) if ev["a"] in ("harvest_combos", "harvest_cases") else True
                        # K1's shape: the file existed, so the synced add reloaded memory from it; with no file on disk
                        # there is nothing to reload - memory-only points dropped then are another defect
                        reloaded = bool(prev.get("exists"))
                        tag = "dropped_" + src + (("_memory_only_by_synced_add" if reloaded else "_memory_only_no_file")
                                                  if (mem_only and synced) else "")
                        return (label + ": point %r had data (%s) before this call and has none after it%s" % (
                            p0, src, " (the point had only been harvested with sync=False)" if mem_only else ""), tag, k, notes)
            prev = o
            if w.two:
                # the second output: present (with the value the policy dictates) wherever it was harvested
                pol = None
                if ev["a"] == "harvest_combos" and post["outcome"] != "conflict":
                    pts, ver, pol = [(a_, b_) for a_ in ev["args"][0] for b_ in ev["args"][1]], ev["args"][3], ev["args"][4]
                elif ev["a"] == "harvest_cases" and post["outcome"] != "conflict":
                    pts, ver, pol = [(q[0], q[1]) for q in ev["args"][0]], ev["args"][1], ev["args"][2]
                elif ev["a"] == "drop_sel":
                    w.ymap = {p: v for p, v in w.ymap.items() if p[0] != ev["args"][0]}
                if pol is not None:
                    for p in pts:
                        if p not in w.ymap or pol != "false":
                            w.ymap[p] = ver
                ydisk, ymem = w.observe_y(points)
                for src, got in (("on disk", ydisk), ("in memory", ymem)):
                    if got is None:
                        if w.ymap and not (src == "in memory" and ev["a"] == "session"):
                            return (label + ": the second output 'y' is nowhere %s although it was harvested at %r" % (
                                src, sorted(w.ymap)), "second_var", k, notes)
                        continue
                    if src == "in memory" and ev["a"] == "session":
                        continue
                    for (a_, b_), ver in w.ymap.items():
                        if got.get((a_, b_, 0), 0) != ver:
                            return (label + ": %s the second output 'y' at (a=%d, b=%d) holds version %r, expected %r (0 = no data)" % (
                                src, a_, b_, got.get((a_, b_, 0), 0), ver), "second_var", k, notes)
        return None, None, len(case["hist"]), notes
    finally:
        w.close()


# -- sampler -------------------------------------------------------------------------

class SWorld(object):
    def __init__(self, variant):
        self.xyz = common.use_repo()
        self.variant = variant
        self.tmp = tempfile.mkdtemp(prefix="samp-", dir=common.scratch("samp"))
        self.engine = variant.get("engine", "pickle")
        self.data_name = os.path.join(self.tmp, "table." + {"pickle": "pkl", "csv": "csv"}[self.engine]
                                      + ({"pickle": ".gz", "csv": ".bz2"}[self.engine] if variant.get("compressed") else ""))

        nan_point = bool(variant.get("nan_point"))
        self.nan_point = nan_point

        mixed = self.mixed = bool(variant.get("mixed_types"))
        nd_result = bool(variant.get("nd_result"))

        def fn(a, b, k=3, wts=None):
            if mixed and (isinstance(a, (bool, float, np.floating, str)) or not isinstance(b, (float, np.floating))):
                return -1.0, -1.0      # a is drawn from ints, b from floats: each must arrive with its own type
            if nan_point and (a, b) == (2, 2):
                return float("nan"), float("nan")        # a legitimate result: every output is NaN at this point
            if nd_result:
                return np.array([float(VER[0] * 1000 + 10 * a + b), float(a - b)])     # the outputs as one ndarray
            return float(VER[0] * 1000 + 10 * a + b), float(a - b)

        self.fn = fn
        consts = {"k": 3}
        self.seq_const = bool(variant.get("seq_const"))
        if self.seq_const:
            consts["wts"] = (0.25, 0.75)        # a constant that is a sequence: recorded whole in every row
        self.runner = self.xyz.Runner(fn, var_names=["x", "d"], fn_args=("a", "b"), constants=consts)
        self.samplers = {}
        self.new_session(1)
        self.new_session(2)
        self.ncrop = 0

    def new_session(self, h=1):
        # with flip_keys every run spells its own combos (defaults would fix the key order)
        dc = None if self.variant.get("flip_keys") else {"a": [1, 2, 3], "b": [1.0, 2.0, 3.0] if self.mixed else [1, 2, 3]}
        self.samplers[h] = self.xyz.Sampler(self.runner, self.data_name, default_combos=dc, engine=self.engine)
        self.s = self.samplers[h]

    def close(self):
        shutil.rmtree(self.tmp, ignore_errors=True)

    def rows_of(self, df):
        if df is None:
            return None
        out = []
        for _, r in df.iterrows():
            try:
                x = float(r["x"])
                a, b = float(r["a"]), int(r["b"])
                a = int(a) if a == int(a) else a
                float(r["d"]), int(r["k"])
                if self.seq_const:
                    wv = r["wts"]
                    wv = wv if isinstance(wv, str) else str(tuple(float(t) for t in wv))
                    if wv.replace(" ", "") not in ("(0.25,0.75)", "[0.25,0.75]"):
                        raise ValueError("constant column holds %r" % (r["wts"],))
            except Exception:  # noqa
                # a row that does not even have the table's shape (a missing column, an array in a cell, text ...)
                def _short(v):
                    try:
                        return int(v)
                    except Exception:  # noqa
                        return str(v)[:20]
                out.append([_short(r.get("a")), _short(r.get("b")), -1])
                continue
            if math.isnan(x):
                ok = self.nan_point and (a, b) == (2, 2) and math.isnan(float(r["d"])) and int(r["k"]) == 3
                out.append([a, b, -2 if ok else -1])      # -2: the all-NaN result of the point (2, 2)
                continue
            ok = (int(x) % 1000 == int(10 * a + b)) and (float(r["d"]) == a - b) and (int(r["k"]) == 3)
            out.append([a, b, int(x) // 1000 if ok else -1])
        return out

    def observe(self, h=1):
        exists = os.path.exists(self.data_name)
        unreadable = None
        disk = None
        if exists:
            try:
                disk = self.rows_of(self.xyz.load_df(self.data_name, engine=self.engine))
            except Exception as e:  # noqa
                unreadable = "%s: %s" % (type(e).__name__, str(e)[:160])
        mem = self.rows_of(self.samplers[h]._full_df)
        return dict(exists=exists, disk=disk, mem=mem, unreadable=unreadable, listing=sorted(f for f in os.listdir(self.tmp) if not f.startswith(".xyz")))


def replay_s(case, variant):
    w = SWorld(variant)
    notes = []
    prev_disk = None
    try:
        for k, ev in enumerate(case["hist"]):
            post = ev["o"]
            label = "step %d %s%r" % (k, ev["a"], tuple(ev["args"]))
            exc = None
            last = None
            try:
                with contextlib.redirect_stdout(io.StringIO()), contextlib.redirect_stderr(io.StringIO()):
                    h = ev["args"][0]
                    if ev["a"] == "session":
                        w.new_session(h)
                    else:
                        _, rows, v = ev["args"]
                        smp = w.samplers[h]
                        VER[0] = v
                        feeds = {"a": [r[0] for r in rows], "b": [(float(r[1]) if w.mixed else r[1]) for r in rows]}
                        pos = {"a": 0, "b": 0}

                        def feeder(nm):
                            def f():
                                x = feeds[nm][pos[nm]]
                                pos[nm] += 1
                                return x
                            return f
                        combos = {"a": feeder("a"), "b": feeder("b")}
                        if variant.get("flip_keys") and k % 2 == 1:
                            # the same draws, the arguments spelled in the other order
                            combos = {"b": combos["b"], "a": combos["a"]}
                        if ev["a"] == "sample":
                            opts = {}
                            if variant.get("shuffle"):
                                opts["shuffle"] = variant["shuffle"]
                            last = smp.sample_combos(len(rows), combos, verbosity=0, **opts)
                        else:
                            w.ncrop += 1
                            crop = smp.Crop(name="c%d" % w.ncrop, parent_dir=w.tmp, batchsize=variant.get("batchsize", 2))
                            crop.sow_samples(len(rows), combos=combos, verbosity=0)
                            crop.grow_missing(verbosity=0)
                            last = crop.reap()
            except Exception as e:  # noqa
                exc = e
            if exc is not None:
                return (label + ": raised %s: %s" % (type(exc).__name__, str(exc)[:300]), "raise", k, notes)
            h = ev["args"][0]
            o = w.observe(h)
            if o.get("unreadable"):
                return (label + ": the table file cannot be read back any more: " + o["unreadable"], "table", k, notes)
            def _exp(r):
                return [r[0], r[1], -2] if (w.nan_point and (r[0], r[1]) == (2, 2)) else list(r)
            want = [_exp(r) for r in post["table"]]
            if post["exists"] and os.path.basename(w.data_name) not in o["listing"]:
                return (label + ": directory holds %r, the table file is missing" % (o["listing"],), "listing", k, notes)
            if ev["a"] != "session":
                n = len(ev["args"][1])
                before = prev_disk or []
                if o["disk"] is None or len(o["disk"]) != len(before) + n:
                    return (label + ": table has %r rows after sampling %d more onto %d" % (
                        None if o["disk"] is None else len(o["disk"]), n, len(before)), "row_count", k, notes)
                if o["disk"][:len(before)] != before:
                    return (label + ": earlier rows changed: %r -> %r" % (before, o["disk"][:len(before)]), "not_append_only", k, notes)
                new = sorted(o["disk"][len(before):])
                want_new = sorted(_exp([r[0], r[1], ev["args"][2]]) for r in ev["args"][1])
                if new != want_new:
                    return (label + ": new rows %r, expected (as a set) %r (-1 marks a row whose outputs do not belong to its arguments)" % (
                        new, want_new), "row_wrong", k, notes)
                if last is not None and sorted(w.rows_of(last)) != want_new:
                    return (label + ": returned / last_df rows %r, expected %r" % (sorted(w.rows_of(last)), want_new), "last_df", k, notes)
            if sorted(o["disk"] or []) != sorted(want):
                return (label + ": table on disk %r, model %r" % (o["disk"], want), "table", k, notes)
            want_mem = post["tmem"][h - 1]
            if want_mem != [-1] and ev["a"] != "session":
                if o["mem"] != o["disk"]:
                    return (label + ": Sampler.full_df differs from the table on disk", "mem_ne_disk", k, notes)
            prev_disk = o["disk"]
        return None, None, len(case["hist"]), notes
    finally:
        w.close()


# -- driver -------------------------------------------------------------------------------

def _hjob(job):
    case, variant, points = job
    try:
        return (case, variant) + tuple(replay_h(case, variant, points))
    except Exception:
        return case, variant, "HARNESS " + traceback.format_exc()[-1500:], "harness", 0, []


def _sjob(job):
    case, variant = job
    try:
        return (case, variant) + tuple(replay_s(case, variant))
    except Exception:
        return case, variant, "HARNESS " + traceback.format_exc()[-1500:], "harness", 0, []


def collect(rep, results, keyfn):
    harness = []
    for case, variant, prob, tag, step, notes in results:
        calls = [(ev["a"], ev["args"]) for ev in case["hist"]]
        rep.add_case([calls, variant], nontrivial=len(calls) >= 2,
                     sample=dict(calls=calls, variant=variant) if len(rep.samples) < 3 and len(calls) >= 3 else None)
        if prob and tag == "harness":
            harness.append(prob)
            continue
        for n in notes[:1]:
            rep.note("note: " + n)
        if prob:
            rep.add_violation(dict(case=case, variant=variant), prob, key=keyfn(case, variant, tag, step))
    if harness:
        raise RuntimeError("%d replay(s) ended in a harness exception, first: %s" % (len(harness), harness[0]))
