"""Shared plumbing: locating the source tree under test, scratch space,
parallel mapping, stable hashing."""
import atexit
import hashlib
import json
import multiprocessing as mp
import os
import shutil
import sys
import tempfile

VERIF = os.path.dirname(os.path.dirname(os.path.abspath(__file__)))
REPO = os.path.abspath(os.environ.get("VX_REPO", "/repo"))
SPECS = os.path.join(VERIF, "specs")
NCPU = int(os.environ.get("VX_NCPU", str(os.cpu_count() or 4)))

_scratch_root = None


def _prune_stale(base):
    """Remove scratch directories of check processes that no longer exist (killed runs cannot clean up after themselves)."""
    import re
    try:
        names = os.listdir(base)
    except OSError:
        return
    for nm in names:
        m = re.match(r"^vx-(\d+)-", nm)
        if not m:
            continue
        try:
            os.kill(int(m.group(1)), 0)
        except ProcessLookupError:
            shutil.rmtree(os.path.join(base, nm), ignore_errors=True)
        except OSError:
            pass


def scratch_root():
    """One scratch directory per check process, removed at exit."""
    global _scratch_root
    if _scratch_root is None:
        base = "/dev/shm" if os.path.isdir("/dev/shm") and os.access("/dev/shm", os.W_OK) else None
        pid = os.getpid()
        _prune_stale(base or tempfile.gettempdir())
        _scratch_root = tempfile.mkdtemp(prefix="vx-%d-" % pid, dir=base)

        def _rm(root=_scratch_root, pid=pid):
            if os.getpid() == pid:
                shutil.rmtree(root, ignore_errors=True)

        atexit.register(_rm)
    return _scratch_root


def scratch(name):
    d = os.path.join(scratch_root(), name)
    os.makedirs(d, exist_ok=True)
    return d


def use_repo():
    """Put the tree under test first on sys.path and assert xyzpy comes from it."""
    if REPO not in sys.path:
        sys.path.insert(0, REPO)
    import xyzpy  # noqa

    f = os.path.abspath(xyzpy.__file__)
    if not f.startswith(REPO + os.sep):
        raise RuntimeError(f"xyzpy imported from {f}, expected under {REPO}")
    return xyzpy


class LibraryFailure(Exception):
    """The library under test failed in an operation that must succeed on its own (an uninterrupted sow / grow / reap,
    a single grower, a progress query on a quiescent crop): whatever the property says about crashes or interleavings
    of that operation cannot hold then.  Reported as a violation by the command line driver, not as a machinery failure."""


def stable_hash(obj):
    return hashlib.sha1(json.dumps(obj, sort_keys=True, default=str).encode()).hexdigest()[:16]


def _init_worker():
    # each forked worker gets its own scratch subdir lazily through scratch()
    pass


def pmap(fn, items, procs=None, chunksize=None):
    """Parallel map with fork (workers inherit imported modules)."""
    items = list(items)
    procs = min(procs or NCPU, max(1, len(items)))
    if procs <= 1 or len(items) < 4:
        return [fn(x) for x in items]
    scratch_root()          # (before forking: the workers inherit it instead of creating - and leaking - their own)
    ctx = mp.get_context("fork")
    if chunksize is None:
        chunksize = max(1, len(items) // (procs * 8))
    with ctx.Pool(procs, initializer=_init_worker) as pool:
        return pool.map(fn, items, chunksize=chunksize)


class Violation(dict):
    """A concrete failing case on the real code: {'case':..., 'what':..., 'key':...}."""


def jsonable(x):
    """Best-effort conversion of numpy / tuples to plain JSON values."""
    import numpy as np

    if isinstance(x, dict):
        return {str(k): jsonable(v) for k, v in x.items()}
    if isinstance(x, (list, tuple, set, frozenset)):
        return [jsonable(v) for v in x]
    if isinstance(x, np.generic):
        return jsonable(x.item())
    if isinstance(x, np.ndarray):
        return jsonable(x.tolist())
    if isinstance(x, float) and x != x:
        return "nan"
    if isinstance(x, (str, int, float, bool)) or x is None:
        return x
    if isinstance(x, complex):
        return [x.real, x.imag]
    return repr(x)
