"""Canned mutants for the C13 / C14 checks, in the format of vx.mutants.MUTANTS
(name, property, file, old, new).  Every one keeps the repository's own tests for the area green
(tests/test_gen/test_case_runner.py resp. tests/test_manage.py + tests/test_gen/test_farming.py)
and is caught by `./check <prop> --tier quick` (VIOLATION line, exit 1).

The C14 mutants marked (F6) patch lines introduced by fixes/F6-extension.diff, i.e. they need
that fix to be present in the tree under test.

    from .mutants_c13_c14 import MUTANTS as M1314;  MUTANTS += M1314
"""
CR = "xyzpy/gen/case_runner.py"
MG = "xyzpy/manage.py"
FA = "xyzpy/gen/farming.py"

MUTANTS = [
    # ---- C13 ------------------------------------------------------------------------------
    ("missing-any-inside-variable", "C13", CR,
     "        nds = sds.all()\n", "        nds = sds.any()\n"),
    ("missing-any-across-variables", "C13", CR,
     "nds = nds.to_array().all()", "nds = nds.to_array().any()"),
    ("missing-first-variable-only", "C13", CR,
     "nds = nds.to_array().all()", "nds = nds.to_array()[0]"),
    ("missing-isfinite-only-inf", "C13", CR,
     "sds = ~np.isfinite(sds)", "sds = np.isinf(sds)"),
    ("missing-unknown-coordinate-present", "C13", CR,
     "        # coordinates not present at all\n        return True",
     "        # coordinates not present at all\n        return False"),
    ("missing-sorted-coordinates", "C13", CR,
     "all_cases = itertools.product(*(ds[arg].data for arg in fn_args))",
     "all_cases = itertools.product(*(sorted(ds[arg].data) for arg in fn_args))"),
    ("missing-set-loses-order", "C13", CR,
     "    return fn_args, tuple(gen_missing_list())", "    return fn_args, tuple(set(gen_missing_list()))"),
    ("parse-loops-swapped", "C13", CR,
     "    for case in cases:\n        for setting in itertools.product(*combo_vals):\n",
     "    for setting in itertools.product(*combo_vals):\n        for case in cases:\n"),
    ("missing-ignore-dims-set-dropped", "C13", CR,
     "                   set(ignore_dims) if ignore_dims else set())", "                   set())"),
    # ---- C14 ------------------------------------------------------------------------------
    ("load-without-extension", "C14", MG,
     "    file_name = auto_add_extension(file_name, engine)\n\n    if not os.path.exists(file_name) and create_new:",
     "    if not os.path.exists(file_name) and create_new:"),
    ("save-extension-of-default-engine", "C14", MG,
     "    file_name = auto_add_extension(file_name, engine)\n\n    # Parse out",
     "    file_name = auto_add_extension(file_name, 'h5netcdf')\n\n    # Parse out"),
    ("merge-tests-raw-name (F6)", "C14", MG,
     "    fname = auto_add_extension(fname, engine)\n    if os.path.exists(fname):", "    if os.path.exists(fname):"),
    ("merge-loads-with-default-engine (F6)", "C14", MG,
     "        old_ds = load_ds(fname, engine=engine)", "        old_ds = load_ds(fname)"),
    ("harvester-loads-raw-name (F6)", "C14", FA,
     "        file_name = auto_add_extension(self.data_name, engine)\n\n        # Check file exists",
     "        file_name = self.data_name\n\n        # Check file exists"),
    ("delete-raw-name", "C14", FA,
     "        file_name = auto_add_extension(self.data_name, self.engine)\n\n        if backup:",
     "        file_name = self.data_name\n\n        if backup:"),
    ("extension-rule-endswith", "C14", MG,
     "    if not any(ext in file_name for ext in _engine_extensions.values()):",
     "    if not file_name.endswith(_engine_extensions[engine]):"),
    ("attrs-rewritten-for-joblib", "C14", MG,
     "    if engine not in {'joblib', 'zarr'}:\n        for attr, val in ds.attrs.items():",
     "    if engine not in {'zarr'}:\n        for attr, val in ds.attrs.items():"),
    ("attrs-false-becomes-None", "C14", MG,
     "                ds.attrs[attr] = \"False\"", "                ds.attrs[attr] = \"None\""),
    ("chunks-dict-truncates", "C14", MG,
     "    if load_to_mem:\n        ds.load()\n        ds.close()\n\n    return ds",
     "    if load_to_mem:\n        ds.load()\n        ds.close()\n    elif isinstance(chunks, dict):\n"
     "        ds = ds.isel({d: slice(0, c) for d, c in chunks.items()})\n\n    return ds"),
    ("complex-coordinates-cast-real", "C14", MG,
     "            kwargs.setdefault(\"invalid_netcdf\", True)",
     "            kwargs.setdefault(\"invalid_netcdf\", True)\n"
     "            ds = ds.assign_coords({k: c.real for k, c in ds.coords.items() if np.iscomplexobj(c.values)})"),
    # ---- changes seeded by independent reviewers (round 2) --------------------------------
    ("attrs-rewritten-by-equality", "C14", MG,
     "            if val is True:\n                ds.attrs[attr] = \"True\"\n            if val is False:\n                ds.attrs[attr] = \"False\"",
     "            if isinstance(val, (bool, int, float, np.integer)) and val == 1:\n                ds.attrs[attr] = \"True\"\n"
     "            if isinstance(val, (bool, int, float, np.integer)) and val == 0:\n                ds.attrs[attr] = \"False\""),
    ("create-new-tested-before-extension", "C14", MG,
     "    file_name = auto_add_extension(file_name, engine)\n\n    if not os.path.exists(file_name) and create_new:\n        return xr.Dataset()\n",
     "    if not os.path.exists(file_name) and create_new:\n        return xr.Dataset()\n\n    file_name = auto_add_extension(file_name, engine)\n"),
    ("find-missing-vectorised-untransposed", "C13", CR,
     "    all_cases = itertools.product(*(ds[arg].data for arg in fn_args))\n\n"
     "    # Only return those corresponding to all missing data\n"
     "    def gen_missing_list():\n"
     "        for case in progbar(all_cases, disable=not show_progbar):\n"
     "            setting = dict(zip(fn_args, case))\n"
     "            if is_case_missing(ds, setting, method=method):\n"
     "                yield case\n",
     "    import numpy as np\n"
     "    all_values = tuple(ds[arg].data for arg in fn_args)\n"
     "    null = ds.isnull() if method == 'isnull' else ~np.isfinite(ds)\n"
     "    null = null.to_array()\n"
     "    all_missing = null.all(dim=[d for d in null.dims if d not in fn_args])\n"
     "    where_missing = np.argwhere(all_missing.values)\n\n"
     "    def gen_missing_list():\n"
     "        for loc in progbar(where_missing, disable=not show_progbar):\n"
     "            yield tuple(values[i] for values, i in zip(all_values, loc))\n"),
    ("extension-via-splitext-replaces-suffix", "C14", MG,
     "    if not any(ext in file_name for ext in _engine_extensions.values()):\n        extension = _engine_extensions[engine]\n        file_name += extension\n",
     "    root, ext = os.path.splitext(file_name)\n    if ext not in _engine_extensions.values():\n        file_name = root + _engine_extensions[engine]\n"),
    ("missing-ignores-non-dimension-keys", "C13", CR,
     "        sds = ds.sel(setting)\n", "        sds = ds.sel({k: v for k, v in setting.items() if k in ds.dims})\n"),
    # ---- third review round ---------------------------------------------------------------
    ("missing-skips-non-nullable-variables", "C13", CR,
     "        nds = nds.to_array().all()\n",
     "        nullable = [name for name, var in ds.data_vars.items() if var.dtype.kind not in 'iub']\n"
     "        if not nullable:\n            return False\n"
     "        nds = nds[nullable].to_array().all()\n"),
    ("missing-casts-labels-to-coordinate-dtype", "C13", CR,
     "        sds = ds.sel(setting)\n",
     "        sds = ds.sel({k: (np.asarray(v, dtype=ds[k].dtype)[()] if k in ds.coords else v) for k, v in setting.items()})\n"),
    ("harvester-file-from-constructor-engine", "C14", FA,
     "        # the file actually written by ``save_ds`` carries the extension\n        file_name = auto_add_extension(self.data_name, engine)\n",
     "        # the file actually written by ``save_ds`` carries the extension\n        file_name = auto_add_extension(self.data_name, self.engine)\n"),
    # ---- fourth review round --------------------------------------------------------------
    ("load-uses-bare-name-when-it-exists", "C14", MG,
     "    file_name = auto_add_extension(file_name, engine)\n\n    if not os.path.exists(file_name) and create_new:",
     "    if not os.path.exists(file_name):\n        file_name = auto_add_extension(file_name, engine)\n\n    if not os.path.exists(file_name) and create_new:"),
    # ---- sixth review round ---------------------------------------------------------------
    ("harvest-cases-labelled-by-runner-signature", "C13", FA,
     "        ds = self.runner.run_cases(cases, **runner_settings)\n",
     "        cases = parse_cases(cases, self.runner.fn_args)\n        ds = self.runner.run_cases(cases, **runner_settings)\n"),
    # ---- seventh review round -------------------------------------------------------------
    ("parse-dedup-by-value-sequence", "C13", CR,
     "            new_case = {\n                **case,\n                **dict(zip(combo_keys, setting)),\n            }\n",
     "            new_case = {\n                **case,\n                **dict(zip(combo_keys, setting)),\n            }\n"
     "            if tuple(new_case.values()) in [tuple(c.values()) for c in new_cases]:\n                continue\n"),
    ("load-expands-glob-metacharacters", "C14", MG,
     "    if not os.path.exists(file_name) and create_new:\n        return xr.Dataset()\n",
     "    import glob as _glob\n    if _glob.has_magic(file_name):\n"
     "        return xr.merge([load_ds(f, engine=engine, load_to_mem=load_to_mem, chunks=chunks, **kwargs)\n"
     "                         for f in sorted(_glob.glob(file_name))])\n\n"
     "    if not os.path.exists(file_name) and create_new:\n        return xr.Dataset()\n"),
    ("load-decodes-json-looking-strings", "C14", MG,
     "    if load_to_mem:\n        ds.load()\n        ds.close()\n\n    return ds",
     "    import json as _json\n    for _k, _v in list(ds.attrs.items()):\n        if isinstance(_v, str) and _v.startswith('{'):\n"
     "            try:\n                ds.attrs[_k] = _json.loads(_v)\n            except ValueError:\n                pass\n\n"
     "    if load_to_mem:\n        ds.load()\n        ds.close()\n\n    return ds"),
    # ---- eighth review round --------------------------------------------------------------
    ("ignore-dims-string-split-into-characters", "C13", CR,
     "    ignore_dims = ({ignore_dims} if isinstance(ignore_dims, str) else\n                   set(ignore_dims) if ignore_dims else set())",
     "    ignore_dims = set(ignore_dims or ())"),
]

# Equivalent in this environment (NOT caught, and cannot be: behaviour is unchanged):
#   dropping  kwargs.setdefault("invalid_netcdf", True)  in save_ds - the installed h5netcdf/xarray
#   write complex data without it and every complex configuration still round-trips.
