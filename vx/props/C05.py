"""C05 - the harvested dataset is the faithful merge of everything ever harvested.
Harvest.tla / SpecH (MemEqDisk, NothingDropped, NothingDroppedSessions, PolicyValue, ConflictIsAtomic) checked by TLC
over all histories of bounded length; emitted histories replayed on real Harvester objects / save_merge_ds, memory
and disk projected to point -> version maps after every call."""
import itertools

from .. import common, harvest, tlc

CORE = ["harvest", "cases", "session"]
FULL = ["harvest", "cases", "savemerge", "expand", "drop", "delete", "session"]
H_PROPS = ["NothingDropped", "NothingDroppedSessions", "PolicyValue", "ConflictIsAtomic"]


def points(avals, bvals):
    return [tuple(p) for p in itertools.product(avals, bvals, (0, 7, 8))]


def key(case, variant, tag, step):
    return dict(tag=tag, engine=variant.get("engine"), ext=variant.get("ext"))


def variants(idx):
    return dict(engine=["joblib", "h5netcdf"][idx % 5 == 0], ext=[True, False, True, "dotted"][idx % 4], via_add_ds=(idx % 4 == 2),
                other_harvester=(idx % 2 == 1), percall_engine=(idx % 3 == 2),
                offset=[0, 10 ** 9, 0][idx % 3], second_var=(idx % 2 == 0), close_coords=(idx % 4 == 1), late_float=(idx % 10 in (5, 3)), int_first=(idx % 3 == 0), bool_attrs=(idx % 5 in (0, 2)))


def run(rep):
    q = rep.tier == "quick"
    rep.rule = ("TLC explores every history of length <= 3 over a 2x2(x c) point space with 2 function versions, 3 overwrite policies, "
                "harvest_combos / harvest_cases / add_ds / save_merge_ds / expand_dims / drop_sel / delete_ds / new Harvester objects, and "
                "simulates longer ones (<= 8) over 3x3; every emitted history is replayed with a data name with or without extension on "
                "joblib and h5netcdf and memory and disk are compared point by point after every call; the NothingDropped action property is "
                "additionally monitored on the real observations; distinct = (call sequence, variant)")
    rep.assumptions = ["values identify (point, function version): x = 1000 * version + 10 * a + b",
                       "netcdf4 / zarr engines are not installed; chunks (dask) sessions are exercised by C14 only"]
    A, B, V = [1, 2], [1, 2], [1, 2]
    # 1. exhaustive model checking
    r = harvest.run_model("MC_C05_core", spec="SpecH", avals=A, bvals=B, vers=V, max_steps=3, record=False, acts=CORE,
                          invariants=["HTypeOK", "MemEqDisk"], props=H_PROPS, coverage=True)
    rep.add_tlc("Harvest core (harvest, cases, sessions) exhaustive", r)
    if r.violated:
        raise tlc.TLCError("Harvest.tla core: %s violated" % r.violated)
    r2 = harvest.run_model("MC_C05_full", spec="SpecH", avals=A, bvals=B, vers=[1, 2], max_steps=2 if q else 3, record=False, acts=FULL,
                           policies=("none", "true", "false"), invariants=["HTypeOK"], props=["NothingDropped", "ConflictIsAtomic"],
                           coverage=True)
    rep.add_tlc("Harvest full (+ save_merge, expand_dims, drop_sel, delete_ds) exhaustive", r2)
    if r2.violated:
        raise tlc.TLCError("Harvest.tla full: %s violated" % r2.violated)
    for a in ("NewSession", "HarvestCombos", "HarvestCasesAny", "SaveMerge", "ExpandDims", "DropSel", "DeleteDs"):
        if r2.coverage.get(a, (0, 0))[1] == 0:
            raise tlc.TLCError("vacuous: %s never taken" % a)
    # 2. non-vacuity: the pinned naming rule (F6) and the un-synced reload (K1) are rejected by the model
    bad = harvest.run_model("MC_C05_f6", spec="SpecH", avals=[1], bvals=[1, 2], vers=[1], max_steps=3, record=False, acts=CORE,
                            policies=("none",), name_rule="bare", props=["NothingDropped", "NothingDroppedSessions"], workers=1)
    if bad.violated not in ("NothingDropped", "NothingDroppedSessions"):
        raise tlc.TLCError("self-test failed: NameRule='bare' (F6) not rejected, got %r" % bad.violated)
    rep.note("self-test: NameRule='bare' (pinned: file looked for without extension, F6) violates %s in TLC" % bad.violated)
    k1 = harvest.run_model("MC_C05_k1", spec="SpecH", avals=[1], bvals=[1, 2], vers=[1], max_steps=3, record=False,
                           acts=["harvest", "unsynced"], policies=("none",), props=["NothingDropped"], workers=1)
    if k1.violated != "NothingDropped":
        raise tlc.TLCError("expected the un-synced history (K1) to violate NothingDropped in the model, got %r" % k1.violated)
    rep.note("lead: with sync=False in play, the model (ReloadRule='disk', as coded) violates NothingDropped: synced, un-synced, synced "
             "history - replayed on the real Harvester below (known finding K1 if confirmed)")
    # 3. emission + replay
    jobs = []
    idx = 0
    emits = [
        ("core2", dict(avals=A, bvals=B, vers=V, max_steps=2, acts=CORE), dict(num=1200) if q else None, None if q else 8000),
        ("full2", dict(avals=A, bvals=B, vers=V, max_steps=2, acts=FULL), dict(num=1200) if q else None, None if q else 8000),
        ("unsynced3", dict(avals=[1], bvals=[1, 2], vers=[1, 2], max_steps=3, acts=["harvest", "unsynced", "session"],
                           policies=("none", "true")), dict(num=300) if q else None, None if q else 2000),
        ("long", dict(avals=[1, 2, 3], bvals=[1, 2, 3], vers=V, max_steps=6 if q else 8, acts=FULL),
         dict(num=300 if q else 5000), None),
    ]
    # the function gains a second output in a new session (all calls synced, no third dimension)
    emits.append(("twovars", dict(avals=[1, 2], bvals=[1, 2], vers=V, max_steps=3 if q else 4, acts=CORE),
                  dict(num=1000 if q else 6000), None))
    import random
    for name, kw, sim, sample in emits:
        e = harvest.run_model("MC_C05_" + name, spec="SpecH", record=True, emit="EmitH", workers=1,
                              simulate=sim, depth=(kw["max_steps"] + 2) if sim else None, seed=rep.seed, **kw)
        rep.add_tlc("Harvest emit " + name, e)
        cases = list({common.stable_hash(c): c for c in e.cases}.values())
        if sample and len(cases) > sample:
            cases = random.Random(rep.seed + 17).sample(cases, sample)
        rep.note("%s: %d histories emitted, %d replayed" % (name, len(e.cases), len(cases)))
        pts = points(kw["avals"], kw["bvals"])
        for c in cases:
            v = variants(idx)
            if name == "twovars":
                v["second_var"] = True
            jobs.append((c, v, pts))
            idx += 1
    results = common.pmap(harvest._hjob, jobs)
    harvest.collect(rep, results, key)
    int_then_float_labels(rep)


def int_then_float_labels(rep):
    """Labels that start as integers and become non-integral floats, through both entry points and both engines: what is
    saved and loaded again must carry exactly the labels harvested (MemEqDisk / NothingDropped on label level)."""
    import os
    import shutil
    import tempfile
    import contextlib
    import io
    xyz = common.use_repo()

    def f(a):
        return 10.0 * a
    for eng in ("h5netcdf", "joblib"):
        for how in ("save_merge_ds", "harvester", "harvester_sessions"):
            tmp = tempfile.mkdtemp(prefix="c05l-", dir=common.scratch("harv"))
            try:
                name = os.path.join(tmp, "data")
                case = dict(kind="int_then_float_labels", engine=eng, how=how)
                rep.add_case(["int_then_float_labels", eng, how], sample=None)
                r = xyz.Runner(f, var_names="x")
                steps = [[1, 2], [2.5], [0.25, 3]]
                try:
                    with contextlib.redirect_stdout(io.StringIO()), contextlib.redirect_stderr(io.StringIO()):
                        h = xyz.Harvester(r, name, engine=eng)
                        for vals in steps:
                            if how == "save_merge_ds":
                                xyz.save_merge_ds(r.run_combos({"a": vals}, verbosity=0), name, engine=eng)
                            else:
                                if how == "harvester_sessions":
                                    h = xyz.Harvester(r, name, engine=eng)
                                h.harvest_combos({"a": vals}, verbosity=0)
                        ds = xyz.load_ds(name, engine=eng)
                except Exception as e:  # noqa
                    rep.add_violation(case, "%s with %s, disjoint labels [1, 2] then [2.5] then [0.25, 3] (default policy): raised %s: %s" % (
                        how, eng, type(e).__name__, str(e)[:200]), key=dict(tag="raise", kind="int_then_float_labels", engine=eng))
                    continue
                got = sorted(float(v) for v in ds["a"].values)
                gotx = {float(a): float(ds["x"].sel(a=a).values) for a in ds["a"].values}
                ds.close()
                want = sorted(float(v) for vs in steps for v in vs)
                if got != want or any(gotx.get(a) != 10.0 * a for a in want):
                    rep.add_violation(case, "%s with %s, labels [1, 2] then [2.5] then [0.25, 3]: the file holds a=%r x=%r, harvested were %r" % (
                        how, eng, got, gotx, want), key=dict(tag="disk_value", kind="int_then_float_labels", engine=eng))
            finally:
                shutil.rmtree(tmp, ignore_errors=True)


def replay(rep, saved):
    if saved.get("kind") == "int_then_float_labels":
        int_then_float_labels(rep)
        return
    case = saved["case"]
    avals = sorted({a for ev in case["hist"] for a in ([1, 2, 3])})
    prob, tag, step, notes = harvest.replay_h(case, saved["variant"], points([1, 2, 3], [1, 2, 3]))
    if prob:
        rep.add_violation(saved, prob, key=key(case, saved["variant"], tag, step))
