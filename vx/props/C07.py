"""C07 - batches partition the work exactly and honour the requested size or count.
Crop.tla (Partition) checked by TLC for every (N, batchsize | num_batches); every emitted
partition is compared with the batch files a real sow writes and with the numbers the
crop reports before and after being reloaded."""
from .. import crop


def configs(tier):
    mk = crop.mk
    nmax = 24 if tier == "quick" else 48
    out = []
    i = 0
    for n in range(1, nmax + 1):
        shapes = [("combos", [n], 0, [])]
        if n % 2 == 0 and n >= 4:
            shapes.append(("combos", [2, n // 2], 0, []))
        if n <= 9:
            shapes.append(("cases", [], 1, [[v] for v in range(1, n + 1)]))
        if n % 3 == 0 and n <= 27:
            shapes.append(("cases", [n // 3], 1, [[3], [1], [2]]))
        if n <= 12:
            # a grid with one case over two further arguments (the case may be spelled as a bare dict)
            shapes.append(("combos", [n], 2, [[1, 2]]))
        if n % 2 == 0 and n <= 12:
            shapes.append(("combos", [n // 2], 2, [[1, 2], [2, 1]]))
        for kind, grid, nca, cases in shapes:
            opts = [("none", 1)] + [("size", s) for s in range(1, n + 2)] + [("count", k) for k in range(1, n + 3)]
            if tier == "quick" and (kind != "combos" or len(grid) > 1):
                opts = opts[::3]
            for bmode, bval in opts:
                i += 1
                sh = i % 4
                out.append(mk(grid, nca=nca, cases=cases, kind=kind, bmode=bmode, bval=bval,
                              bwhere=("ctor", "sow")[i % 2],
                              shufCtor=(1 if (sh == 1 and kind != "combos") else 0),
                              shufSow=({0: -1, 1: -1, 2: 1, 3: 2}[sh] if kind == "combos" else -1),
                              farmer=("none", "runner")[i % 5 == 0]))
    return out


def resow_other_n(rep, count):
    """Monitor of Partition on real observations: a crop sown once is sown again with another number of settings through
    the same object or a reloaded one.  The re-sow may be refused (ValueError); if it is accepted, the batch files 1..B
    (B = the number the crop reports) must hold every setting of the new sow exactly once, no batch empty, no other batch file."""
    import os
    import shutil
    import tempfile
    import random
    from .. import common
    xyz = common.use_repo()
    from xyzpy.gen.cropping import read_from_disk
    rnd = random.Random(rep.seed + 77)
    combos_list = []
    for n in range(3, 14):
        for mode, val in [("size", s) for s in range(2, 5)] + [("count", k) for k in range(2, 6)]:
            combos_list.append((n, mode, val))
    rnd.shuffle(combos_list)
    for n, mode, val in combos_list[:count]:
        bs = val if mode == "size" else max(1, n // min(n, val))
        # another number of settings; or the same settings with other batching given to the sow call
        val2s = sorted({val - 1, val + 1, val + 2, 2 * val} - {val})
        for n2, kw2 in [(m, {}) for m in sorted({n - 1, n + 1, n - bs, n + bs} - {n})] + \
                [(n, {("batchsize" if mode == "size" else "num_batches"): v2}) for v2 in val2s if v2 >= 1] + \
                [(n, {("num_batches" if mode == "size" else "batchsize"): 2})]:
            if n2 < 1:
                continue
            for reloaded in (False, True):
                tmp = tempfile.mkdtemp(prefix="c07r-", dir=common.scratch("crops"))
                try:
                    fn = lambda a: a      # noqa
                    kw = {"batchsize": val} if mode == "size" else {"num_batches": val}
                    c = xyz.Crop(fn=fn, name="r", parent_dir=tmp, **kw)
                    c.sow_combos({"a": list(range(n))}, verbosity=0)
                    if reloaded:
                        c = xyz.Crop(fn=fn, name="r", parent_dir=tmp)
                    case = dict(kind="resow_other_n", n=n, mode=mode, val=val, n2=n2, reloaded=reloaded, sow_kw=kw2)
                    rep.add_case(["resow_other_n", n, mode, val, n2, reloaded, sorted(kw2.items())], sample=None)
                    try:
                        c.sow_combos({"a": list(range(n2))}, verbosity=0, **kw2)
                    except ValueError:
                        continue          # refused: fine
                    B = c.num_batches
                    bdir = os.path.join(c.location, "batches")
                    files = sorted(os.listdir(bdir))
                    want_files = sorted("xyz-batch-%d.jbdmp" % i for i in range(1, B + 1))
                    prob = None
                    if files != want_files:
                        prob = "the crop reports %d batches but batches/ holds %r" % (B, files)
                    else:
                        got = []
                        for i in range(1, B + 1):
                            b = read_from_disk(os.path.join(bdir, "xyz-batch-%d.jbdmp" % i))
                            if len(b) == 0:
                                prob = "batch %d is empty" % i
                            got.extend(kw_["a"] for kw_ in b)
                        if prob is None and sorted(got) != list(range(n2)):
                            prob = "the batches hold the settings %r, the sow was for %r" % (sorted(got), list(range(n2)))
                    if prob:
                        rep.add_violation(case, "sow of %d settings (%s=%d), then an accepted re-sow of %d settings%s%s: %s" % (
                            n, mode, val, n2, (" with %r given to the sow call" % (kw2,)) if kw2 else "",
                            " from a reloaded crop" if reloaded else "", prob), key=dict(tag="resow_other_n", mode=mode))
                finally:
                    shutil.rmtree(tmp, ignore_errors=True)


def run(rep):
    rep.rule = ("TLC enumerates every N in 1..%d x every batchsize in 1..N+1 / num_batches in 1..N+2 (and neither) for grids and case "
                "lists, shuffle at the constructor / at the sow, plain and Runner crops; Partition is an invariant of the model and each "
                "emitted partition is compared with the real batch files (as id sequences) and the reported numbers, before and after a "
                "reload; distinct = distinct configuration; non-trivial = batching requested" % (24 if rep.tier == "quick" else 48))
    rep.assumptions = ["argument values are small integers; the function returns an injective token of its keyword arguments",
                       "shuffle permutations are forced through random.seed/random.shuffle; three fixed permutations when N > 3"]
    cfgs = configs(rep.tier)
    runs = [dict(name="C07_all", configs=cfgs, acts=["reload"], max_steps=1, mode="bfs", need=["DoSow", "DoReload"]),
            # re-sowing (documented as safe) from the same object and from a reloaded one must give the same partition
            dict(name="C07_resow", configs=cfgs[::3], acts=["reload", "resow"], max_steps=3, mode="bfs", need=["DoReSow"],
                 sample=1500 if rep.tier == "quick" else 12000)]
    # a second campaign on the same Crop object (sow, grow, reap with clean-up, sow again): same partition as the first
    runs.append(dict(name="C07_campaign2", configs=[crop.mk([10], bmode="count", bval=3), crop.mk([7], bmode="count", bval=2, bwhere="sow"),
                                                    crop.mk([5], bmode="size", bval=2), crop.mk([4], bmode="count", bval=6),
                                                    crop.mk([9], bmode="count", bval=4, farmer="runner")],
                     acts=["grow_missing", "reap_default", "campaign2", "reload"], max_steps=5, mode="bfs", need=["DoSow"], sample=400))
    # a re-sow with other constants while some batches have results already: every batch file (also those of finished batches)
    # holds exactly the keyword arguments a direct run would pass now
    runs.append(dict(name="C07_reconst", configs=[crop.mk([5], bmode="size", bval=2), crop.mk([6], bmode="count", bval=3, farmer="runner"),
                                                  crop.mk([4], bmode="count", bval=2, shufSow=1)],
                     acts=["grow", "const_mid", "resow"], max_steps=4, mode="bfs", need=["DoChangeConstMid", "DoReSow"], sample=600))

    def variants(case, idx):
        v = crop.default_variants(case, idx)
        # (only for histories that sow / reload / re-sow and nothing else)
        v["sow_override"] = (idx % 2 == 0) and not any(ev["a"] in ("grow", "grow_missing", "reap", "change_const") for ev in case["hist"])
        v["resow_drop_consts"] = (idx % 3 == 0) and not any(ev["a"] in ("grow", "grow_missing", "reap") for ev in case["hist"])
        return v
    crop.drive(rep, runs, variants=variants, claims=lambda tag: tag in ("batches", "numbers", "outcome_sow", "outcome_reload", "obs_sow", "obs_reload",
                                                     "dir_sow", "dir_reload", "outcome_resow", "obs_resow", "dir_resow"))
    resow_other_n(rep, 12 if rep.tier == "quick" else 77)
    rep.exhaustive = True
    rep.extra["configurations"] = len(cfgs)


def replay(rep, saved):
    if saved.get("kind") == "resow_other_n":
        resow_other_n(rep, 77)
        return
    crop.replay_saved(rep, saved, claims=lambda tag: tag in ("batches", "numbers", "outcome_sow", "outcome_reload", "obs_sow", "obs_reload",
                                                     "dir_sow", "dir_reload", "outcome_resow", "obs_resow", "dir_resow"))
