"""C18 - infiniplot draws each data slice once, correctly styled and correctly placed.

specs/Infiniplot.tla enumerates (TLC) assignments of dataset dims to the 8 mappable
properties x NaN masks x options, runs the code-shaped machine (InitMapped in the code's
order with select / drop-empty / domain, Aggregate / Histogram, DrawNext over the product of
the remaining dims), checks the draw list against a declarative oracle (invariants ExactlyOnce,
NothingEmpty, Placement, Styles, Points, Shape) and emits every explored case with its expected
draw list.  Each emitted case is replayed into the real xyzpy.infiniplot (Agg backend): the
Dataset's values encode their cell number, the Line2D / QuadMesh artists of every panel are read
back (vx/iplotread.py) and compared with the spec's expectation; the input Dataset must be
unchanged afterwards."""
import concurrent.futures as cf
import time
import warnings

from .. import common, tlc
from .. import iplotread as ipr

INVARIANTS = ["TypeOK", "ExactlyOnce", "NothingEmpty", "Placement", "Styles", "Points", "Shape"]

BASE = dict(Sizes=[2, 2, 2], Mode="lines", MaxMapped=2, Fuse=False, MaskFam="all", XVar=False, XDeps=["all"],
            Orders=["none"], Joins=[False], Aggs=["none"], Methods=["median"], Errs=["q"], Pals=[False],
            Dens=[True], Bins=["na"], HistAll=False, Stride=1, Sub=1, Seed=0, Bug="none")

# Histogram mode with *every* dim mapped (nothing left to bin over) raises on the pinned tree
# (Dataset.stack of an empty list, pandas 3).  Candidate repair: fixes/C18-hist-all-mapped.diff.  The
# assignments are kept out of the enumerated space until that repair is accepted; set to True afterwards.
HIST_ALL_MAPPED = True

O3 = ["none", "rev", "sub"]
B2 = [False, True]
M2 = ["median", "mean"]
E3 = ["q", "std", "stderr"]
# eu: explicit unequal edges; en: explicit edges narrower than the data; ee: explicit edges that coincide with samples
BINS = ["auto", "n4", "nN", "e1", "e3", "eu", "en", "ee"]
XD3 = ["all", "line", "one"]                             # dims of the x variable


def configs(tier):
    """(name, constants incl. the sampling constants Sub and Stride)"""
    t = tier == "thorough"
    mm = 4 if t else 3
    L = []
    # the quick tier runs a representative subset (every mode, 2-5 dims, x as variable, aggregation, fused dims,
    # square meshes, all bins kinds) so that fewer JVMs are started; thorough runs every configuration
    quick_set = {"L2", "L3", "L3x", "L4", "L4g", "L5", "H2", "H3", "H4", "G2a", "G3", "G4"}

    def add(name, q, th, **kw):
        """q, th = (Sub, Stride) for quick / thorough; Stride must stay below the size of the case-number space"""
        c = dict(BASE)
        c.update(kw)
        if not t and name not in quick_set:
            return
        sub, stride = th if t else q
        if stride >= total_cases(c):
            raise tlc.TLCError("configuration %s: Stride %d >= %d case numbers" % (name, stride, total_cases(c)))
        c.update(Sub=sub, Stride=stride)
        L.append((name, c))

    # --- lines
    add("L2", (1, 919), (1, 37), Sizes=[3, 3], MaxMapped=1, Orders=O3, Joins=B2, Pals=B2)
    add("L3", (1, 2521), (1, 83), Sizes=[2, 2, 2], MaxMapped=2, Fuse=True, Orders=O3, Joins=B2, Pals=B2)
    add("L3x", (1, 49999), (1, 2857), Sizes=[2, 2, 2], MaxMapped=2, XVar=True, XDeps=XD3, Orders=O3, Joins=B2, Pals=[False])
    add("L4", (9, 2503), (1, 859), Sizes=[3, 2, 3, 2], MaxMapped=3, Fuse=True, MaskFam="struct", Orders=O3, Joins=B2, Pals=B2)
    add("L4x", (19, 300007), (1, 162811), Sizes=[2, 3, 2, 3], MaxMapped=3, Fuse=True, MaskFam="struct", XVar=True, XDeps=XD3, Orders=O3, Joins=B2)
    add("L4g", (3, 10007), (1, 971), Sizes=[2, 3, 2, 3], MaxMapped=2, Fuse=True, MaskFam="struct", Orders=["none", "sub"], Joins=B2,
        Aggs=["all", "one"], Methods=M2, Errs=E3)
    add("L5", (47, 5003), (2, 6007), Sizes=[2, 3, 2, 2, 3], MaxMapped=mm, Fuse=True, MaskFam="struct", Orders=O3, Joins=B2, Pals=B2)
    add("L5g", (47, 10007), (1, 16127), Sizes=[3, 2, 2, 2, 2], MaxMapped=3, MaskFam="struct", Orders=["none", "sub"], Joins=B2,
        Aggs=["all", "one"], Methods=M2, Errs=E3)
    # --- heat maps
    add("H2", (1, 3), (1, 1), Sizes=[2, 3], Mode="heat", MaxMapped=1, Aggs=["auto"], Pals=B2)
    add("H3", (1, 1229), (1, 37), Sizes=[3, 2, 2], Mode="heat", MaxMapped=1, MaskFam="all", Orders=O3, Aggs=["auto"], Pals=B2)
    add("H4", (1, 691), (1, 31), Sizes=[3, 2, 2, 3], Mode="heat", MaxMapped=2, Fuse=True, MaskFam="struct", Orders=O3,
        Aggs=["auto", "all"], Methods=M2, Pals=B2)
    add("H5", (1, 11777), (1, 313), Sizes=[2, 3, 2, 3, 2], Mode="heat", MaxMapped=3, Fuse=True, MaskFam="struct", Orders=O3,
        Aggs=["auto", "all"], Methods=M2, Pals=B2)
    # --- histograms
    add("G2", (1, 6323), (1, 203), Sizes=[3, 3], Mode="hist", MaxMapped=1, Orders=O3, Dens=B2, Bins=BINS, Pals=B2)
    add("G3", (5, 5329), (1, 899), Sizes=[2, 3, 3], Mode="hist", MaxMapped=2, Fuse=True, MaskFam="struct", Orders=O3, Dens=B2, Bins=BINS, Pals=B2)
    if HIST_ALL_MAPPED:
        add("G2a", (1, 1338), (1, 97), Sizes=[3, 2], Mode="hist", MaxMapped=2, HistAll=True, Orders=O3, Dens=B2, Bins=BINS)
    add("G4", (113, 5329), (4, 4001), Sizes=[2, 3, 2, 3], Mode="hist", MaxMapped=3, Fuse=True, MaskFam="struct", Orders=O3, Dens=B2, Bins=BINS)
    return L


def exhaustive_configs(tier):
    """(name, constants, coverage): small constants, every case (Stride = Sub = 1), no emission"""
    L = []

    def add(name, cov, **kw):
        c = dict(BASE)
        c.update(kw)
        L.append((name, c, cov))

    # with -coverage (vacuity check of the actions); TLC does not cache under coverage, so these stay small
    add("XL", True, Sizes=[2, 2, 2], MaxMapped=1, Orders=["sub"], Joins=[True])
    add("XH", True, Sizes=[2, 2, 2], Mode="heat", MaxMapped=1, Orders=["sub"], Aggs=["auto"])
    add("XG", True, Sizes=[2, 2, 2], Mode="hist", MaxMapped=1, Dens=[True], Bins=["ee"])
    if tier == "thorough":
        add("XL2", False, Sizes=[2, 2, 2], MaxMapped=2, Fuse=True, Orders=O3, Joins=B2)
        add("XLg", False, Sizes=[2, 2, 2], MaxMapped=1, Orders=["none", "sub"], Joins=B2, Aggs=["all"], Methods=M2)
        add("XLx", False, Sizes=[2, 3], MaxMapped=1, XVar=True, XDeps=XD3, Orders=O3, Joins=B2)
        add("XH2", False, Sizes=[2, 2, 2], Mode="heat", MaxMapped=1, Orders=O3, Aggs=["auto"])
        add("XG2", False, Sizes=[2, 2, 2], Mode="hist", MaxMapped=2, Orders=["none", "sub"], Dens=B2, Bins=["n4", "ee", "en"])
    return L


# buggy variants of single steps that the invariants must reject (non-vacuity of the spec)
BUGS = [
    ("domBeforeDrop", dict(Sizes=[2, 2, 2], MaxMapped=2), {"Placement", "Styles"}),
    ("swapRowCol", dict(Sizes=[2, 3, 2], MaxMapped=2), {"Placement"}),
    ("maskYOnly", dict(Sizes=[2, 2, 2], MaxMapped=1, XVar=True, Joins=B2, Stride=7), {"NothingEmpty", "Points"}),
    ("joinInverted", dict(Sizes=[2, 2, 2], MaxMapped=1, Joins=B2), {"Points"}),
    ("noSkip", dict(Sizes=[2, 2, 2], MaxMapped=1), {"NothingEmpty"}),
    ("aggAll", dict(Sizes=[2, 2, 2, 2], MaxMapped=1, MaskFam="struct", Aggs=["one"]), {"Shape", "Points", "ExactlyOnce", "NothingEmpty"}),
    ("countsForDensity", dict(Sizes=[2, 2, 2], Mode="hist", MaxMapped=1, Bins=["n4"], Dens=[True]), {"Points"}),
    ("transposeMesh", dict(Sizes=[2, 2, 2], Mode="heat", MaxMapped=1, Aggs=["auto"]), {"Points"}),
]


def cfg_tail(emit):
    return "".join("INVARIANT %s\n" % i for i in INVARIANTS + (["EmitCase"] if emit else [])) + "CHECK_DEADLOCK FALSE\n"


def total_cases(c):
    """size of the mixed-radix index space of a configuration (must stay below 2^31 for TLC)"""
    import math
    ncells = math.prod(c["Sizes"])
    nmask = 2 ** ncells if c["MaskFam"] == "all" else 1 + 9 * ncells
    nx = 1 + 3 * ncells if c["XVar"] else 1
    tot = nmask * nx
    for k in ("Joins", "Aggs", "Methods", "Errs", "Pals", "Dens", "Bins", "Orders", "XDeps"):
        tot *= len(c[k])
    return tot


def run_tlc(name, consts, emit, **kw):
    if total_cases(consts) * 2 >= 2 ** 31:
        raise tlc.TLCError("configuration %s: index space too large for TLC integers" % name)
    return tlc.run_mc("Infiniplot", consts, cfg_tail(emit), name="MC_Infiniplot_" + name, **kw)


# ---------------------------------------------------------------------------
# replay of one case into the real code

def _changed(snap, var):
    """the variable is not bit-for-bit what it was (dtype, dims, values, NaN / inf positions)"""
    import numpy as np

    a, dt, dims = snap
    b = var.values
    if b.dtype != dt or tuple(var.dims) != dims or a.shape != b.shape:
        return True
    if a.dtype.kind == "f":
        return not (np.array_equal(np.isnan(a), np.isnan(b)) and np.array_equal(a, b, equal_nan=True)
                    and np.array_equal(np.signbit(a), np.signbit(b)))
    return not np.array_equal(a, b)


def _call(args, kw):
    return "infiniplot(ds, %s)" % ", ".join(list(map(repr, args)) + ["%s=%r" % it for it in sorted(kw.items())])


def check_case(case):
    """-> (kind, message, notes) ; kind None when the real plot agrees with the spec's expectation"""
    xyz = common.use_repo()
    import matplotlib
    matplotlib.use("Agg")
    import matplotlib.pyplot as plt
    import numpy as np

    ds, args, kw = ipr.build_call(case)
    before = ds.copy(deep=True)
    # bitwise snapshot of everything the caller owns: data variables and coordinates
    raw = {k: (np.array(v.values, copy=True), v.values.dtype, tuple(v.dims)) for k, v in ds.variables.items()}
    notes = []
    try:
        with warnings.catch_warnings():
            warnings.simplefilter("ignore")
            try:
                fig, axs = xyz.infiniplot(ds, *args, **kw)
            except Exception as e:  # noqa
                return ("raised", "raised %s: %s  <- %s" % (type(e).__name__, str(e)[:200], _call(args, kw)), notes)
            panels = ipr.read_figure(np.asarray(axs))
        if case["mode"] == "heat":
            problems, notes = ipr.compare_heat(case, panels)
        else:
            problems, notes = ipr.compare_lines(case, panels)
        if not ds.identical(before) or set(ds.variables) != set(raw) or any(_changed(raw[k], ds.variables[k]) for k in raw):
            problems.append(("mutated", "the input Dataset was modified by the call"))
        if problems:
            return (problems[0][0], "; ".join(m for _, m in problems[:4]) + "  <- " + _call(args, kw), notes)
        return (None, None, notes)
    finally:
        plt.close("all")


def _chk(case):
    if case.get("tie"):
        return (case, ("tie", None, []))
    return (case, check_case(case))


def case_key(c):
    return [c["sizes"], c["mode"], c["xvar"], c["anum"], c["num"]]


def viol_key(c, kind):
    return dict(kind=kind, mode=c["mode"], bins=c["bins"] if c["mode"] == "hist" else "na",
                xvar=bool(c["xvar"]), agg=c["agg"])


def run(rep):
    tier = rep.tier
    rep.rule = ("Infiniplot.tla Init enumerates injective assignments of dims to the 8 properties (optionally one fused pair) "
                "x NaN masks (all subsets of cells for <= 12 cells, a structured family of 9 kinds x anchor cell beyond) "
                "x explicit-order kind x join_across_missing x aggregate/method/err range x palette x density x bins; "
                "TLC keeps 1/Stride of them (congruence on the case number, seeded); distinct = distinct "
                "(sizes, mode, xvar, assignment number, case number); a case is non-trivial unless it is a histogram with a "
                "sample exactly on a computed bin edge")
    rep.assumptions = [
        "numeric equality (aggregated values, densities, bin centres) is decided by the harness against rationals computed by the spec, rel. tol. 1e-9",
        "a panel is identified by its title text (bold dim name = coordinate) and its grid position (subplotspec)",
        "a line's colour / marker / dash pattern / width / marker size are read from the Line2D artist; the legend is not examined",
        "colour-coded heat maps (no palette): colour saturation must be strictly increasing in z over the figure; exact z only with a palette (QuadMesh array)",
        "histograms of inputs where every dim is mapped (nothing to bin over) and plots of entirely null data are outside the enumerated space",
        "data refinement: for 2 cases in 3 the variables are stored with their dims in a non-identity permutation of tuple(ds.dims) (same abstract dataset, same expectation)",
        "data refinement: coordinate values of the non-x/y dims are stored ascending, descending or rotated (1/3 each, per dim); expectations are label based",
        "dims have <= 3 coordinates; the same dim is never mapped to two properties; markeredgecolor / text / err= are not explored",
    ]
    seed = int(rep.seed) % 100003        # keeps the hash arithmetic of Init inside 32 bits
    emit_cfgs = configs(tier)
    ex_cfgs = exhaustive_configs(tier)
    bugs = BUGS if tier == "thorough" else [b for b in BUGS if b[0] in ("domBeforeDrop", "maskYOnly", "joinInverted")]

    t0 = time.time()
    jobs = {}
    quick = tier != "thorough"
    par = max(2, common.NCPU - (0 if quick else 2))   # concurrent TLC processes (the emitting ones are single-worker)
    exw = max(2, common.NCPU // 4) if quick else max(1, common.NCPU // 3)
    # quick: every run lasts a second or two - C1-only JIT and few GC threads start faster and do not fight for cores
    jopts = ("-XX:TieredStopAtLevel=1", "-XX:ParallelGCThreads=2", "-XX:CICompilerCount=1") if quick else ()
    with cf.ThreadPoolExecutor(max_workers=par) as pool:
        for name, c, cov in sorted(ex_cfgs, key=lambda x: x[2]):       # the long ones first
            jobs[("ex", name)] = pool.submit(run_tlc, "ex_" + name, dict(c, Seed=seed), False, workers=exw, coverage=cov, java_opts=jopts)
        for name, c in sorted(emit_cfgs, key=lambda x: -len(x[1]["Sizes"])):
            jobs[("emit", name)] = pool.submit(run_tlc, name, dict(c, Seed=seed), True, workers=1, java_opts=jopts)
        for bug, kw, _ in bugs:
            c = dict(BASE)
            c.update(kw)
            c["Bug"] = bug
            jobs[("bug", bug)] = pool.submit(run_tlc, "bug_" + bug, c, False, workers=1, java_opts=jopts)
        results = {k: f.result() for k, f in jobs.items()}
    rep.extra["wall_tlc_s"] = round(time.time() - t0, 1)

    # 1. exhaustive small-constant runs: invariants + coverage (vacuity)
    need = {"lines": ["Prepare", "InitMapped", "Unmapped", "DrawNext", "Judge"],
            "heat": ["Prepare", "InitMapped", "Unmapped", "Aggregate", "DrawNext", "Judge"],
            "hist": ["Prepare", "InitMapped", "Unmapped", "Histogram", "DrawNext", "Judge"]}
    for name, c, cov in ex_cfgs:
        r = results[("ex", name)]
        rep.add_tlc("Infiniplot exhaustive " + name, r)
        if r.violated:
            rep.note("TLC: invariant %s violated in exhaustive config %s (lead, not an alarm)" % (r.violated, name))
        for act in need[c["Mode"]] + (["Aggregate"] if c["Aggs"] != ["none"] and c["Mode"] == "lines" else []):
            if cov and r.coverage.get(act, (0, 0))[1] == 0:
                raise tlc.TLCError("vacuous: action %s never taken in %s" % (act, name))
    # 2. the invariants reject the buggy variants
    for bug, kw, expect in bugs:
        r = results[("bug", bug)]
        if r.violated not in expect:
            raise tlc.TLCError("self-test failed: Bug=%s is not rejected (violated=%r, expected one of %s)" % (bug, r.violated, sorted(expect)))
    rep.note("self-test: TLC rejects the buggy variants " + ", ".join(b for b, _, _ in bugs))
    # 3. emitted cases -> real code
    cases = []
    for name, c in emit_cfgs:
        r = results[("emit", name)]
        rep.add_tlc("Infiniplot emit " + name, r)
        if r.violated:
            rep.note("TLC: invariant %s violated in config %s (lead, not an alarm)" % (r.violated, name))
        if not r.cases:
            rep.note("config %s emitted no case for this seed" % name)
        rep.extra.setdefault("cases_per_config", {})[name] = len(r.cases)
        cases += r.cases
    if len(cases) < 300:
        raise tlc.TLCError("too few emitted cases: %d" % len(cases))
    common.use_repo()
    import matplotlib
    matplotlib.use("Agg")
    import matplotlib.pyplot  # noqa  (imported before forking the workers)
    t1 = time.time()
    res = common.pmap(_chk, cases, chunksize=8)
    rep.extra["wall_replay_s"] = round(time.time() - t1, 1)
    nnotes = {}
    for c, (kind, msg, notes) in res:
        rep.add_case(case_key(c), nontrivial=(kind != "tie"),
                     sample=dict((k, c[k]) for k in ("sizes", "mode", "pm", "ynull", "join", "agg", "bins", "draws"))
                     if len(rep.samples) < 3 and len(c["draws"]) <= 3 else None)
        for n_ in notes:
            k = n_.split(":")[0][:60]
            nnotes[k] = nnotes.get(k, 0) + 1
        if kind not in (None, "tie"):
            small = dict(c)
            rep.add_violation(small, msg, key=viol_key(c, kind))
    for k, v in sorted(nnotes.items()):
        rep.note("model drift (not a violation) in %d case(s): %s" % (v, k))
    rep.exhaustive = False        # TLC is exhaustive on the X* configs; the replayed cases are a 1/(Sub*Stride) sample
    rep.extra["tlc_exhaustive_configs"] = [n for n, _, _ in ex_cfgs]
    rep.extra["figures"] = len(cases)
    rep.extra["by_mode"] = {m: sum(1 for c in cases if c["mode"] == m) for m in ("lines", "heat", "hist")}
    rep.extra["cases_with_permuted_storage"] = sum(
        1 for c in cases if ipr.storage_perm(c, len(c["sizes"])) != tuple(range(len(c["sizes"]))))
    rep.extra["cases_with_unsorted_mapped_coordinate"] = sum(
        1 for c in cases if any(
            t and any(ipr.coord_rank(c, d, i) != i for d in t for i in range(1, c["sizes"][d - 1] + 1))
            for t in c["pm"]))
    rep.extra["ties_skipped"] = sum(1 for _, (k, _, _) in res if k == "tie")


def replay(rep, case):
    kind, msg, notes = check_case(case)
    for n_ in notes:
        print("note:", n_)
    if kind:
        rep.add_violation(case, msg, key=viol_key(case, kind))
