"""C04 - sow, grow, reap returns exactly what running directly would have.
Crop.tla (ReapEqualsDirect: the reaper's replay order against the sown order, batch cutting,
chain of results) + replay of sow/grow.../reap histories into the real Crop."""
import itertools

from .. import crop, tlc

CLAIMS = ("reap_value_complete", "reap_raise_complete", "batch_order", "batches", "outcome_sow", "outcome_grow",
          "outcome_grow_set", "outcome_grow_missing", "outcome_reload", "outcome_resow", "outcome_fix_fn", "obs_grow", "obs_grow_missing")


def batchings(n, dense):
    out = [("none", 1)]
    sizes = range(1, n + 2) if dense else sorted({1, 2, 3, max(1, n // 2), n - 1 if n > 1 else 1, n, n + 1})
    out += [("size", s) for s in sizes if s >= 1]
    counts = range(1, n + 3) if dense else sorted({1, 2, 3, max(1, n // 2), n - 1 if n > 1 else 1, n, n + 2})
    out += [("count", k) for k in counts if k >= 1]
    return out


def shapes(tier):
    # (kind, grid (sorted-name order), nca, cases)
    sh = [("combos", [3], 0, []), ("combos", [2, 3], 0, []), ("combos", [2, 2, 2], 0, []),
          ("combos", [2], 1, [[3], [1]]), ("combos", [2], 2, [[1, 2], [2, 1], [2, 2]]),
          ("cases", [], 1, [[2], [3], [1]]), ("cases", [], 2, [[1, 1], [2, 2], [1, 2], [3, 1], [2, 3]]),
          ("cases", [2], 1, [[3], [1], [2]]), ("combos", [7], 0, []), ("cases", [], 1, [[v] for v in (4, 2, 6, 1, 3, 7, 5)]),
          ("combos", [12], 0, []), ("combos", [5, 5], 0, []), ("cases", [], 1, [[v] for v in (11, 3, 7, 1, 9, 12, 5, 2, 10, 4, 8)])]
    if tier == "thorough":
        sh += [("combos", [3, 4], 0, []), ("combos", [5, 2, 2], 0, []), ("combos", [4, 10], 0, []),
               ("cases", [3], 2, [[1, 1], [2, 3], [3, 2], [1, 3]]), ("combos", [2, 2], 1, [[2], [1], [3]])]
    return sh


def shuffles(kind):
    if kind == "combos":
        return [(0, -1), (0, 0), (0, 1), (0, 2), (1, -1), (1, 2), (2, 1)]
    return [(0, -1), (1, -1), (2, -1)]


def configs(tier):
    mk = crop.mk
    out = []
    i = 0
    for kind, grid, nca, cases in shapes(tier):
        n = crop.n_of(dict(grid=grid, cases=cases))
        for bmode, bval in batchings(n, dense=(n <= 8 and tier == "thorough")):
            for sc, ss in shuffles(kind):
                i += 1
                if tier == "quick" and n > 8 and i % 3:
                    continue
                out.append(mk(grid, nca=nca, cases=cases, kind=kind, bmode=bmode, bval=bval, bwhere=("ctor", "sow")[i % 2],
                              shufCtor=sc, shufSow=ss, farmer="none"))
    return out


def history_configs(tier):
    mk = crop.mk
    out = []
    for kind, grid, nca, cases, bmode, bval in [
            ("combos", [2, 3], 0, [], "size", 2), ("combos", [7], 0, [], "count", 3), ("combos", [5], 0, [], "size", 2),
            ("cases", [], 1, [[2], [3], [1], [4]], "count", 3), ("combos", [2], 1, [[3], [1]], "count", 4),
            ("cases", [2], 1, [[3], [1], [2]], "size", 4)]:
        for sc, ss in shuffles(kind)[:5]:
            out.append(mk(grid, nca=nca, cases=cases, kind=kind, bmode=bmode, bval=bval, shufCtor=sc, shufSow=ss))
    return out


def run(rep):
    rep.rule = ("TLC enumerates grids / case lists x batchsize / num_batches x shuffle placement (constructor, sow call, both) and, per "
                "configuration, histories of grow(i) / Crop.grow(i) / Crop.grow(set) / grow_missing / reload / re-sow / reap; "
                "ReapEqualsDirect is checked on every reaping transition; every emitted history is replayed on a real crop; "
                "distinct = (configuration, permutation, call sequence, variant)")
    rep.assumptions = ["shuffles are forced through random.seed/random.shuffle (one arbitrary permutation per seed)",
                       "fresh Crop objects stand for fresh processes in the quick tier; thorough adds real fresh processes",
                       "num_workers growing (loky pools) only in the thorough tier"]
    # non-vacuity: the pinned sow_cases (sown un-shuffled, reaped shuffled: F3) violates ReapEqualsDirect in the model
    bad = crop.run_model("MC_C04_f3", [crop.mk([], nca=1, cases=[[1], [2], [3]], kind="cases", shufCtor=1)],
                         acts=["grow_missing", "reap_default"], max_steps=2, record=False, sow_cases="none", workers=1)
    if bad.violated != "ReapEqualsDirect":
        raise tlc.TLCError("self-test failed: SowCasesShuffle='none' (F3) not rejected, got %r" % bad.violated)
    rep.note("self-test: SowCasesShuffle='none' (pinned sow_cases, F3) violates ReapEqualsDirect in TLC, as expected")
    q = rep.tier == "quick"
    runs = [
        dict(name="C04_configs", configs=configs(rep.tier), acts=["grow_missing", "reap_default"], max_steps=2, mode="bfs",
             need=["DoSow", "DoGrowMissing", "ReapDefault"], sample=1500 if q else 12000),
        # a corrected function reaches the growers through a re-sow (function un-pickled from the crop on every grow)
        dict(name="C04_fixfn", configs=[crop.mk([3], bmode="count", bval=2, failing=[2]), crop.mk([2, 2], bmode="size", bval=3, failing=[1, 3]),
                                        crop.mk([], nca=1, cases=[[2], [1], [3]], kind="cases", bmode="none", failing=[3], shufCtor=1)],
             acts=["grow", "grow_missing", "fix_fn", "resow", "reload", "reap_default"], max_steps=7, mode="sim", num=200 if q else 2500,
             need=["DoFixFn", "DoReSow"]),
        dict(name="C04_histories", configs=history_configs(rep.tier),
             acts=["grow", "grow_set", "grow_missing", "reload", "resow", "reap_default"], max_steps=7 if q else 10, mode="sim",
             num=800 if q else 8000, need=["GrowAny", "GrowSetAny", "DoReload", "DoReSow", "ReapDefault"]),
    ]
    def variants(case, idx):
        v = crop.default_variants(case, idx)
        # thorough: every 60th history grows its batches in fresh OS processes (function un-pickled from disk)
        v["subprocess"] = (rep.tier == "thorough" and idx % 60 == 0) or (rep.tier == "quick" and idx % 400 == 7)
        return v
    crop.drive(rep, runs, claims=lambda tag: tag in CLAIMS, variants=variants)
    crop.parallel_grow_cases(rep, 2 if q else 6)
    main_script_scenario(rep)


def main_script_scenario(rep):
    """Sow from a user's script (the swept function is a plain top-level function of __main__), grow every batch in a fresh
    process that only knows the crop's name and directory, reap in a third one: Crop.tla's Grow un-pickles the function
    from the crop (dfn), it never needs the session that sowed.  Compared with the direct evaluation."""
    import json
    import os
    import shutil
    import subprocess
    import sys
    import tempfile
    from .. import common
    tmp = tempfile.mkdtemp(prefix="c04s-", dir=common.scratch("crops"))
    try:
        head = "import sys; sys.path.insert(0, %r)\nimport xyzpy\nassert xyzpy.__file__.startswith(%r), xyzpy.__file__\n" % (common.REPO, common.REPO)
        sow = head + ("def energy(a, b):\n    return 100.0 * a + b\n\n"
                      "c = xyzpy.Crop(fn=energy, name='main', parent_dir=%r, batchsize=2)\n"
                      "c.sow_combos({'a': [1, 2, 3], 'b': [1, 2]}, verbosity=0)\n" % tmp)
        grow = head + "c = xyzpy.Crop(name='main', parent_dir=%r)\nc.grow_missing(verbosity=0)\n" % tmp
        reap = head + ("import json\nc = xyzpy.Crop(name='main', parent_dir=%r)\n"
                       "print('RESULT' + json.dumps([[float(v) for v in row] for row in c.reap()]))\n" % tmp)
        case = dict(kind="main_script")
        rep.add_case(["main_script"], sample=None)
        env = dict(os.environ, TQDM_DISABLE="1")
        out = None
        for nm, code in (("sow", sow), ("grow", grow), ("reap", reap)):
            f = os.path.join(tmp, nm + "_script.py")
            with open(f, "w") as fh:
                fh.write(code)
            p = subprocess.run([sys.executable, "-W", "ignore", f], capture_output=True, text=True, env=env, cwd=tmp)
            if p.returncode != 0:
                rep.add_violation(case, "a crop sown by a script whose function is a top-level function of __main__: the %s step in a fresh "
                                  "process failed: %s" % (nm, p.stderr.strip().splitlines()[-1][:300] if p.stderr.strip() else p.returncode),
                                  key=dict(tag="reap_raise_complete", kind="main_script"))
                return
            out = p.stdout
        got = json.loads([l for l in out.splitlines() if l.startswith("RESULT")][0][6:])
        want = [[100.0 * a + b for b in (1, 2)] for a in (1, 2, 3)]
        if got != want:
            rep.add_violation(case, "crop sown / grown / reaped by three processes gives %r, the direct run %r" % (got, want),
                              key=dict(tag="reap_value_complete", kind="main_script"))
    finally:
        shutil.rmtree(tmp, ignore_errors=True)


def replay(rep, saved):
    if saved.get("kind") == "main_script":
        main_script_scenario(rep)
        return
    if saved.get("kind") == "parallel_grow":
        crop.parallel_grow_cases(rep, 2)
        return
    crop.replay_saved(rep, saved, claims=lambda tag: tag in CLAIMS)
