"""C08 - reported progress always matches the batches that really finished.
Crop.tla (ProgressIsTruth, OnlyOwnResult, ResowKeepsResults, FailedGrowWritesNothing) + replay of
operation histories with the four progress queries and both directory listings compared after
every single call."""
from .. import crop

CLAIMS_PREFIX = ("obs_", "outcome_", "dir_", "batches", "numbers")


def configs(tier):
    mk = crop.mk
    out = []
    specs = [([3], 0, [], "combos", "none", 1), ([2, 2], 0, [], "combos", "size", 3), ([5], 0, [], "combos", "count", 2),
             ([7], 0, [], "combos", "count", 4), ([], 1, [[2], [1], [3], [4]], "cases", "size", 1), ([1], 0, [], "combos", "none", 1),
             ([2], 1, [[1], [3]], "combos", "count", 3), ([12], 0, [], "combos", "none", 1), ([23], 0, [], "combos", "size", 2),
             ([3], 0, [], "combos", "count", 5), ([2, 2], 0, [], "combos", "count", 9)]
    if tier == "thorough":
        specs += [([8], 0, [], "combos", "none", 1), ([4, 3], 0, [], "combos", "count", 8), ([3, 3], 0, [], "combos", "size", 2),
                  ([], 2, [[1, 1], [1, 2], [2, 1], [2, 2], [3, 1], [3, 2]], "cases", "count", 6)]
    for grid, nca, cases, kind, bmode, bval in specs:
        n = crop.n_of(dict(grid=grid, cases=cases))
        fails = [(), (1,), (n,), (2, n)] if n >= 2 else [(), (1,)]
        for f in fails:
            for farmer in ("none", "runner"):
                if farmer == "runner" and f and n > 3:
                    continue
                out.append(mk(grid, nca=nca, cases=cases, kind=kind, bmode=bmode, bval=bval, farmer=farmer,
                              failing=[i for i in f if i <= n], shufSow=(1 if kind == "combos" and len(f) == 1 else -1)))
    return out


def run(rep):
    q = rep.tier == "quick"
    rep.rule = ("TLC explores histories (<= %d calls) of sow / re-sow / grow i / grow subset / grow_missing / failing function / repair / "
                "delete result / corrupt result / check_bad / reload on crops of 1..%d batches; after every call the real crop's "
                "num_sown_batches, num_results, missing_results(), is_ready_to_reap(), batches/ and results/ listings and the call's "
                "outcome are compared with the model; distinct = (configuration, call sequence)" % (8 if q else 12, 4 if q else 8))
    rep.assumptions = ["a 'corrupt' result is a truncated pickle made by the environment; partial files made by growers are the subject of C10/C11",
                       "a failing function raises ValueError on chosen settings, read from a side file so that it can be repaired without re-sowing"]
    # liveness: grow_missing (after correcting and re-sowing a failing function) eventually makes the crop ready
    from .. import tlc
    live_cfgs = [crop.mk([3], bmode="count", bval=2, failing=[2]), crop.mk([2, 2], bmode="size", bval=3, failing=[1, 4]),
                 crop.mk([], nca=1, cases=[[2], [1], [3]], kind="cases", bmode="none", failing=[])]
    consts = dict(Configs=tlc.Raw("{" + ", ".join(crop.cfg_tla(c) for c in live_cfgs) + "}"), MaxPerm=3, MaxSteps=1, Record=False,
                  Acts={"grow", "grow_missing", "fix_fn", "resow", "reload"}, SowCasesShuffle="ctor", PlaceholderLen="actual",
                  SamplerCleanup="deferred")
    lr = tlc.run_mc("Crop", consts, "SPECIFICATION LiveSpec\nPROPERTY EventuallyReady\nPROPERTY ReadyIsStable\nCHECK_DEADLOCK FALSE\n",
                    name="MC_C08_live", workers=4)
    rep.add_tlc("Crop liveness (EventuallyReady under fairness)", lr)
    if lr.violated:
        raise tlc.TLCError("Crop.tla: liveness %s violated" % lr.violated)
    acts = ["resow", "grow", "grow_set", "grow_missing", "fix_fn", "delete", "corrupt", "check_bad", "reload"]
    allc = configs(rep.tier)

    def nbatches(c):
        n = crop.n_of(c)
        return n if c["bmode"] == "none" else (-(-n // c["bval"]) if c["bmode"] == "size" else min(n, c["bval"]))
    small = [c for c in allc if nbatches(c) <= 4]
    big = [c for c in allc if nbatches(c) > 4]
    need = ["DoSow", "DoReSow", "GrowAny", "GrowSetAny", "DoGrowMissing", "DoFixFn", "DeleteAny", "CorruptAny", "DoCheckBad", "DoReload"]
    # crops of up to 4 batches: all reachable states are model-checked; larger crops (up to 8 batches): simulated histories only
    runs = [dict(name="C08_hist", configs=small, acts=acts, max_steps=8 if q else 12, mode="sim", num=1500 if q else 12000, need=need)]
    if big:
        # (no grow-subset here: 2^B successor states per step would all be enumerated by the simulator)
        runs.append(dict(name="C08_big", configs=big, acts=[a for a in acts if a != "grow_set"], max_steps=8 if q else 12, mode="sim",
                         num=150 if q else 3000, check=False, sample=400 if q else 9000))
    # a batch finished with the corrected function is grown again after the session (and, through a re-sow, the crop) went
    # back to the failing one: the failed grow must leave the finished result alone (FailedGrowWritesNothing)
    def regrown_after_regress(case):
        acts_ = [ev["a"] for ev in case["hist"]]
        if "regress_fn" not in acts_:
            return False
        k = acts_.index("regress_fn")
        h = case["hist"]
        # ... a grow(i) that raises although batch i was finished before the call
        return any(h[j]["a"] == "grow" and h[j]["post"]["outcome"] == "raised" and h[j]["args"][0] not in h[j - 1]["post"]["missing"]
                   for j in range(k + 1, len(h)))
    runs.append(dict(name="C08_regress", configs=[crop.mk([3], bmode="count", bval=2, failing=[2]),
                                                  crop.mk([2, 2], bmode="size", bval=3, failing=[4])],
                     acts=["grow", "fix_fn", "regress_fn", "resow"], max_steps=6, mode="bfs", need=["DoRegressFn"],
                     filter=regrown_after_regress, sample=250 if q else 3000))
    crop.drive(rep, runs, claims=lambda tag: tag.startswith(CLAIMS_PREFIX))
    # "at every moment": progress queries interleaved with growers at the level of file operations (CropFS.tla)
    from .. import cropfs
    import os
    try:
        os.dup2(os.open(os.devnull, os.O_WRONLY), 2)
    except Exception:
        pass
    cropfs.progress_during_growth(rep, 60 if q else 600)
    # code -> spec: the repository's own crop / farming tests, recorded by vx/pytest_vx.py, validated by CropTrace.tla
    from .. import croptrace
    croptrace.check_repo_tests(rep, ("sow", "grow", "grow_missing", "check_bad"))


def replay(rep, saved):
    if str(saved.get("kind", "")).startswith("poll_"):
        from .. import cropfs
        setup = cropfs.Setup(4, 2)
        try:
            obs = cropfs.execute(setup, [("g1", 1, 9101), ("g2", 2, 9102)], [tuple(x) for x in saved["steps"]], npolls=2, with_reaper=False)
            prob, tag = cropfs.judge(setup, obs, False)
            if prob:
                rep.add_violation(saved, prob)
        finally:
            setup.close()
        return
    if saved.get("kind") == "test_trace":
        from .. import croptrace
        rej, at, _ = croptrace.validate(None, [saved], name="CropTraceReplay", progress=True)
        if rej:
            rep.add_violation(saved, "recorded test trace rejected by CropTrace.tla at event %d" % at.get(1, 0))
        return
    crop.replay_saved(rep, saved, claims=lambda tag: tag.startswith(CLAIMS_PREFIX))
