"""C03 - labelled outputs (Dataset / DataFrame) name every number correctly.
Sweep.tla (Placement, UnionAxes, RowPairing, DsAttrs/DsCoords/DfCols) + replay through
combo_runner_to_ds/_df, case_runner_to_ds/_df, Runner.run_combos/run_cases and label()."""
import itertools

from .. import sweep

ASSUME = [
    "output descriptions exercised: one scalar variable, two scalar variables, a scalar plus a 1-d array variable (internal dimension t given "
    "by a constant or by var_coords; var_dims spelled as dict/str/tuple/grouped-key/list), functions returning Dataset or dict with var_names=None",
    "DataFrame rows are compared as a set of (arguments, outputs) pairs: the property demands the pairing, not a row order",
    "2-dimensional internal dimensions are not exercised",
]


def metas():
    keys = ["cattr", "cdim", "res", "attrs", "tdim"]
    return [dict(zip(keys, bits)) for bits in itertools.product([False, True], repeat=5)]


def runs(tier):
    mk, grids, case_sets = sweep.mk, sweep.grids, sweep.case_sets
    out = []
    # Dataset: all 32 meta combinations on tiny sweeps
    cfgs = []
    i = 0
    for m in metas():
        cfgs.append(mk([2], kind="ds", meta=m, shuffle=(i % 2 == 0)))
        cfgs.append(mk([], nca=1, cases=[[2], [1]], kind="ds", meta=m))
        cfgs.append(mk([2], nca=1, cases=[[3], [1]], kind="ds", meta=m, shuffle=(i % 2 == 1)))
        i += 1
    out.append(dict(name="C03_ds_meta", configs=cfgs, max_perm=4))
    # Dataset: shapes
    cfgs = []
    for g in grids(3, 3, 6, min_args=1):
        m = dict(sweep.META0, tdim=(i % 2 == 0), cdim=(i % 4 == 0), cattr=(i % 3 == 0), attrs=(i % 5 == 0), res=(i % 2 == 1))
        cfgs.append(mk(g, kind="ds", meta=m, shuffle=(i % 2 == 0), pool=(i % 3 == 0) and __import__('math').prod(g) <= 3))
        i += 1
    for cs in case_sets(2, 2, 3, ordered=False) + case_sets(1, 3, 3, ordered=False):
        m = dict(sweep.META0, tdim=(i % 2 == 0), cdim=(i % 4 == 0), cattr=(i % 3 == 0), attrs=(i % 5 == 0), res=(i % 2 == 1))
        cfgs.append(mk([2] if i % 3 == 0 else [], nca=len(cs[0]), cases=cs[::-1], kind="ds", meta=m, shuffle=(i % 2 == 0)))
        i += 1
    out.append(dict(name="C03_ds_shapes", configs=cfgs, max_perm=3))
    # DataFrame: every permutation for N <= 4 (this is where the pinned tree mis-pairs rows, F2)
    cfgs = []
    for g in ([2], [3], [2, 2], [1, 3], [4]):
        for m in (sweep.META0, dict(sweep.META0, cattr=True, attrs=True, res=True)):
            cfgs.append(mk(g, kind="df", meta=m, shuffle=True))
            cfgs.append(mk(g, kind="df", meta=m, shuffle=False, pool=len(g) == 1))
    for cs in case_sets(2, 2, 3, ordered=False) + case_sets(1, 3, 3, ordered=False):
        cfgs.append(mk([2] if i % 3 == 0 else [], nca=len(cs[0]), cases=cs, kind="df", shuffle=(i % 2 == 0),
                       meta=dict(sweep.META0, cattr=(i % 2 == 0), res=(i % 3 == 0))))
        i += 1
    out.append(dict(name="C03_df", configs=cfgs, max_perm=4, sample=1200 if tier == "quick" else None))
    big = [g for g in grids(4, 4, 36, min_args=2) if 6 <= __import__("math").prod(g) <= 36]
    cfgs = []
    for j, g in enumerate(big[::6 if tier == "quick" else 1]):
        kind = ("ds", "df")[j % 2]
        m = dict(sweep.META0, tdim=(kind == "ds" and j % 4 == 0), cattr=(j % 3 == 0), res=(j % 2 == 0))
        cfgs.append(mk(g, kind=kind, meta=m, shuffle=(j % 3 != 0), pool=(j % 5 == 0)))
    cfgs.append(mk([11, 2], kind="ds", meta=dict(sweep.META0, tdim=True), shuffle=True))
    cfgs.append(mk([12], kind="df", meta=dict(sweep.META0, cattr=True), shuffle=True))
    cfgs.append(mk([2], nca=1, cases=[[v] for v in (11, 3, 7, 1, 9, 12, 5, 2, 10, 4, 8)], kind="ds", meta=dict(sweep.META0), shuffle=True))
    out.append(dict(name="C03_big", configs=cfgs, max_perm=4, check=False, simulate=60 if tier == "quick" else 4000, depth=200))
    return out


def run(rep):
    rep.rule = ("TLC enumerates sweeps x {Dataset, DataFrame} x all 32 combinations of (plain constant, constant named like an internal "
                "dimension, resources, attrs, internal dimension present) x shuffle permutations; each terminal behaviour is replayed through one "
                "of the public entry points and every grid point / row is compared; distinct = (config, permutation, history, variant)")
    rep.assumptions = ASSUME
    # non-vacuity: the pinned code's labelling (rows zip the *shuffled* settings with the un-shuffled
    # results, defect F2) must violate RowPairing in the model
    from .. import tlc
    bad = sweep.run_model("MC_C03_f2", [sweep.mk([3], kind="df", shuffle=True)], 3, df="shuffled", emit=False, workers=1)
    if bad.violated != "RowPairing":
        raise tlc.TLCError("self-test failed: DfSettings='shuffled' (defect F2) not rejected by RowPairing")
    rep.note("self-test: DfSettings='shuffled' (pinned code, F2) violates RowPairing in TLC, as expected")
    sweep.drive(rep, runs(rep.tier), "C03", n_variants=1 if rep.tier == "quick" else 6)
    real_pool_datasets(rep)


def _pool_fn(a, b):
    return float(100 * a + b), [float(a), float(b)]


def real_pool_datasets(rep):
    """The built-in process pool (num_workers=2, real loky workers, real completion order) on sweeps with more settings
    than 4 x workers: the labelled Dataset / DataFrame must be the one Sweep.tla's Place action dictates - every grid
    point holds the value of its own setting (here: computed from the labels themselves)."""
    import contextlib
    import io
    import numpy as np
    from .. import common
    xyz = common.use_repo()
    from xyzpy.gen import combo_runner as cr
    for t, (na, nb_, shuffle) in enumerate([(3, 3, False), (5, 3, 7)]):
        combos = {"a": list(range(1, na + 1)), "b": [3, 1, 2][:nb_]}
        case = dict(kind="real_pool_ds", na=na, nb=nb_, shuffle=shuffle)
        rep.add_case(["real_pool_ds", na, nb_, shuffle], sample=None)
        prob = None
        ds = None
        try:
            with contextlib.redirect_stdout(io.StringIO()), contextlib.redirect_stderr(io.StringIO()):
                ds = cr.combo_runner_to_ds(_pool_fn, combos, ["x", "v"], var_dims={"v": ["t"]}, var_coords={"t": [0, 1]},
                                           num_workers=2, shuffle=shuffle, verbosity=0)
        except Exception as e:  # noqa
            prob = "raised %s: %s" % (type(e).__name__, str(e)[:200])
        if prob:
            pass
        elif list(ds["a"].values) != combos["a"] or list(ds["b"].values) != combos["b"]:
            prob = "coordinates a=%r b=%r, expected %r / %r" % (list(ds["a"].values), list(ds["b"].values), combos["a"], combos["b"])
        else:
            for a in combos["a"]:
                for b in combos["b"]:
                    x = ds["x"].sel(a=a, b=b).values
                    v = ds["v"].sel(a=a, b=b).values
                    if not (x == 100 * a + b) or list(np.asarray(v, dtype=float)) != [float(a), float(b)]:
                        prob = "ds.sel(a=%d, b=%d): x=%r v=%r, the function returned %r" % (a, b, x, v, _pool_fn(a, b))
                        break
                if prob:
                    break
        if prob:
            rep.add_violation(case, "combo_runner_to_ds(..., num_workers=2%s) over %d settings: %s" % (
                ", shuffle=%r" % shuffle if shuffle else "", na * nb_, prob), key=dict(tag="real_pool_ds"))


def replay(rep, saved):
    if saved.get("kind") == "real_pool_ds":
        real_pool_datasets(rep)
        return
    sweep.replay_saved(rep, saved)
