"""C20 - format_number_with_error: NumFmt.tla enumerates a boundary-dense decimal
grid, checks the code-shaped machine against the denotation oracle (TLC), and emits
every input with the oracle's answer; each is fed to the real function and the
returned string is read back by an independent parser."""
import re
from decimal import Decimal
from fractions import Fraction

from .. import common, tlc

MX_Q = [0, 1000, 1004, 1005, 1006, 1499, 1500, 1501, 2500, 4999, 5000, 9949, 9950, 9951, 9994, 9995, 9996, 9999]
ME_Q = [100, 104, 105, 106, 149, 150, 250, 499, 500, 949, 950, 951, 994, 995, 996, 999]
MX_T = sorted(set(MX_Q + [1001, 1049, 1050, 1051, 1234, 1999, 2000, 3333, 5001, 7777, 9499, 9500, 9501, 9989, 9990, 9991, 9997, 9998]))
ME_T = sorted(set(ME_Q + [101, 109, 110, 111, 123, 199, 200, 333, 501, 777, 899, 900, 985, 989, 990, 991, 997, 998]))


def run_model(name, mxs, mes, exs, rels, rule="max0", emit=True, **kw):
    tail = "INVARIANT TypeOK\nINVARIANT Denotation\n%sCHECK_DEADLOCK FALSE\n" % ("INVARIANT EmitCase\n" if emit else "")
    return tlc.run_mc("NumFmt", dict(MXs=set(mxs), MEs=set(mes), EXs=set(exs), Rels=set(rels), DigitsRule=rule),
                      tail, name=name, **kw)


_RX = re.compile(r"^(-?)(\d+)(?:\.(\d+))?\((\d+)\)(?:e([+-]\d+))?$")


def read_back(s):
    """Independent reader: '[-]digits[.digits](dd)[e+-XX]' -> (value, error) as Fractions."""
    m = _RX.match(s)
    if not m:
        return None
    sign, ip, fp, br, ex = m.groups()
    fp = fp or ""
    ex = int(ex) if ex else 0
    place = Fraction(10) ** (ex - len(fp))
    val = Fraction(int(ip + fp)) * place
    if sign:
        val = -val
    return val, Fraction(int(br)) * place


def to_float(sign, mant, exp10):
    return float(Decimal(sign * mant).scaleb(exp10))


def check_one(c):
    """Returns None if the real function agrees with the oracle, else a message."""
    xyz = common.use_repo()
    from xyzpy.utils import format_number_with_error as f
    x = to_float(c["sx"], c["mx"], c["ex"] - 3)
    err = to_float(1, c["me"], c["ee"] - 2)
    try:
        s = f(x, err)
    except Exception as e:  # noqa
        return "raised %s: %s" % (type(e).__name__, e)
    rb = read_back(s)
    if rb is None:
        return "unreadable output %r" % (s,)
    val, er = rb
    want_err = Fraction(c["e2"]) * Fraction(10) ** c["p"]
    want_val = Fraction(c["vd"]) * Fraction(10) ** c["vp"]
    if er != want_err:
        return "x=%r err=%r -> %r denotes error %s, expected %s" % (x, err, s, float(er), float(want_err))
    if val != want_val:
        return "x=%r err=%r -> %r denotes value %s, expected %s" % (x, err, s, float(val), float(want_val))
    return None


def _chk(c):
    return (c, check_one(c))


def float_sweep(rep, n, seed):
    """Dense float sweep around the rounding boundaries with the oracle evaluated in exact
    Fractions (same rule as NumFmt.tla: OracleErr / OracleVal); near-ties (within 4 ulp of a
    half-way point) are skipped because the function scales by 10^k in floating point."""
    import math
    import random
    rnd = random.Random(seed)
    common.use_repo()
    from xyzpy.utils import format_number_with_error as f

    def oracle(x, err):
        fx, fe = Fraction(x), Fraction(err)
        # exponent of err's leading digit
        ee = math.floor(math.log10(err))
        while Fraction(10) ** ee > fe:
            ee -= 1
        while Fraction(10) ** (ee + 1) <= fe:
            ee += 1
        unit = Fraction(10) ** (ee - 1)
        q = fe / unit                      # in [10, 100)
        e2 = math.floor(q + Fraction(1, 2))
        etie = abs((q - math.floor(q)) - Fraction(1, 2)) * unit <= 4 * Fraction(math.ulp(err))
        # at a (near-)tie of the error either neighbour is a correct two-digit rounding; each fixes the decimal place
        # the value is then rounded to (again either neighbour at a near-tie)
        accept = set()
        tie = etie
        for e2c in ([math.floor(q), math.floor(q) + 1] if etie else [e2]):
            p = ee - 1
            if e2c == 100:
                e2c, p = 10, ee
            place = Fraction(10) ** p
            qx = fx / place
            vtie = abs((qx - math.floor(qx)) - Fraction(1, 2)) * place <= 4 * Fraction(math.ulp(x) if x else 0)
            tie = tie or vtie
            for vd in ([math.floor(qx), math.floor(qx) + 1] if vtie else [math.floor(qx + Fraction(1, 2))]):
                accept.add((e2c * place, vd * place))
        p = ee - 1
        if e2 == 100:
            e2, p = 10, ee
        place = Fraction(10) ** p
        vd = math.floor(fx / place + Fraction(1, 2))
        return e2 * place, vd * place, tie, accept

    bad = 0
    done = 0
    for i in range(n):
        kind = i % 5
        ee = rnd.choice([-300, -20, -5, -3, -2, -1, 0, 1, 2, 3, 5, 20, 250])
        if kind == 4:
            # decimal literals exactly on a rounding boundary of the error (9.95, 1.05, 1.5 x 10^k): which side the double
            # falls on depends on k, and so may an internal rescaling - the output must still be one of the two roundings
            ee = rnd.randint(-30, 30)
            mant = rnd.choice([9.95, 9.95, 9.95, 1.05, 1.5, 9.85, 2.5])
        elif kind == 0:
            mant = rnd.uniform(9.94, 10.0)       # carry boundary
        elif kind == 1:
            mant = rnd.uniform(1.0, 10.0)
        else:
            mant = rnd.choice([1.0, 1.05, 1.5, 9.95, 9.949999, 9.950001, 5.0]) * (1 + rnd.uniform(-1e-3, 1e-3))
            mant = min(max(mant, 1.0), 9.9999999)
        err = float("%.17ge%d" % (mant, ee))
        rel = rnd.choice([-12, -6, -3, -2, -1, 0, 1, 2, 3, 6, 12])
        if kind == 4:
            rel = rnd.choice([1, 2, 3, 4, 6])
        if kind == 3:
            x = 0.0
        else:
            xm = rnd.choice([1.0, 9.999, 9.95, 1.0000001, 0.99999999 * 10]) if rnd.random() < 0.4 else rnd.uniform(1, 10)
            x = float("%.17ge%d" % (xm, ee + rel)) * rnd.choice([1, -1])
        if not (err > 0 and math.isfinite(x) and math.isfinite(err)):
            continue
        want_err, want_val, tie, accept = oracle(x, err)
        done += 1
        try:
            s = f(x, err)
            rb = read_back(s)
        except Exception as e:  # noqa
            s, rb = "raised %r" % (e,), None
        case = dict(kind="float", x=x.hex(), err=err.hex())
        rep.add_case(["float", x, err], sample=dict(case, out=s) if i < 2 else None)
        if rb is None or (rb[1], rb[0]) not in accept:
            bad += 1
            rep.add_violation(case, "x=%r err=%r -> %r, expected value %s error %s%s" % (
                x, err, s, float(want_val), float(want_err),
                " (a near-tie: any of %s would be right)" % sorted((float(v), float(e)) for e, v in accept) if tie else ""),
                key=dict(kind="float", tie=bool(tie)))
    return done, bad


def run(rep):
    thorough = rep.tier == "thorough"
    rep.rule = ("NumFmt.tla Init enumerates sx*mx*10^(ex-3), me*10^(ee-2) over boundary-dense mantissa sets x "
                "exponent classes x relative exponents; a case is non-trivial when it is not an exact rounding tie; "
                "distinct = distinct (sx,mx,ex,me,ee)")
    rep.assumptions = [
        "IEEE rounding of the decimal inputs to doubles is not modelled: exact half-way ties (flagged by the spec) are skipped",
        "the reader of the output string (vx/props/C20.py:read_back) is the conventional reading of value(err)e+XX",
        "TLC checks the code-shaped machine against the oracle only inside the enumerated decimal grid",
    ]
    if thorough:
        mxs, mes = MX_T, ME_T
        exs = [-300, -3, -2, -1, 0, 1, 2, 3, 280]
        rels = list(range(-13, 14))
    else:
        mxs, mes = MX_Q, ME_Q
        exs = [-300, -2, -1, 0, 1, 2, 280]
        rels = [-13, -4, -3, -2, -1, 0, 1, 2, 3, 4, 13]
    # 1. exhaustive check of the machine against the oracle (all cores), no emission
    r = run_model("MC_NumFmt_check", mxs, mes, exs, rels, emit=False, coverage=True)
    rep.add_tlc("NumFmt exhaustive (Denotation)", r)
    if r.violated:
        rep.note("TLC: invariant %s violated in the code-shaped machine (lead, not an alarm)" % r.violated)
    for act in ("ChooseExponent", "DecideHide", "Scale", "RoundErr", "Digits", "Emit"):
        if r.coverage and r.coverage.get(act, (0, 0))[1] == 0:
            raise tlc.TLCError("vacuous: action %s never taken" % act)
    # 2. non-vacuity: the pinned code's digit rule must violate Denotation in the model
    rbad = run_model("MC_NumFmt_abs", [9990], [996], [1], [1], rule="abs", emit=False, workers=1)
    if rbad.violated != "Denotation":
        raise tlc.TLCError("self-test failed: the 'abs' digit rule (defect F13) is not rejected by Denotation")
    rep.note("self-test: DigitsRule='abs' (pinned code) violates Denotation on 99.9 +- 9.96 in TLC, as expected")
    # 3. emission (single worker) and replay into the real function
    e = run_model("MC_NumFmt_emit", mxs, mes, exs, rels, emit=True, workers=1)
    rep.add_tlc("NumFmt emit", e)
    cases = e.cases
    if len(cases) < 1000:
        raise tlc.TLCError("too few emitted cases: %d" % len(cases))
    res = common.pmap(_chk, cases)
    for c, msg in res:
        nontrivial = not c["tie"]
        rep.add_case([c["sx"], c["mx"], c["ex"], c["me"], c["ee"]], nontrivial=nontrivial,
                     sample=c if len(rep.samples) < 3 else None)
        if msg and not c["tie"]:
            carry = c["e2"] == 10 and c["me"] >= 995
            rep.add_violation(c, msg, key=dict(kind="grid", hide=c["hide"], xexp=c["xexp"], carry=carry))
    rep.exhaustive = True
    done, bad = float_sweep(rep, 200000 if thorough else 30000, rep.seed)
    rep.extra["float_sweep_cases"] = done
    rep.extra["grid_cases"] = len(cases)


def replay(rep, case):
    if case.get("kind") == "float":
        common.use_repo()
        from xyzpy.utils import format_number_with_error as f
        x, err = float.fromhex(case["x"]), float.fromhex(case["err"])
        rep.add_violation(case, "replay float case: %r" % f(x, err)) if False else None
        # recompute through the sweep's oracle
        import math  # noqa
        s = f(x, err)
        print("output:", s, "read back:", read_back(s))
        return
    msg = check_one(case)
    if msg and not case.get("tie"):
        rep.add_violation(case, msg)
