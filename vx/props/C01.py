"""C01 - a grid sweep evaluates every combination exactly once, in its own slot.
Sweep.tla (ExactlyOnce, OnlyRequestedOnce, Placement, FlatOrder) + replay of every emitted
behaviour (permutation, completion order) into combo_runner with scripted executors."""
from .. import sweep

ASSUME = [
    "a result token is realised as scalar / tuple (split or not) / array / nested list; argument values as ints, floats, strings (data refinement chosen by the harness per case)",
    "pool strategies are bound through scripted executors (submit / apply_async / multiprocessing.Pool subclass) that execute calls in TLC's completion order; real pools are covered by trace validation in the thorough tier",
    "all permutations only for N <= MaxPerm; three fixed permutations beyond (reverse, rotate, interleave) plus TLC -simulate",
]


def runs(tier):
    mk, grids = sweep.mk, sweep.grids
    small = grids(3, 3, 3)                       # N <= 3: all permutations, all completion orders
    mid = [g for g in grids(3, 3, 6) if g not in small]
    out = []
    cfgs = []
    for g in small:
        for kind in ("nested", "flat"):
            for sh in (False, True):
                for pool in (False, True):
                    cfgs.append(mk(g, shuffle=sh, pool=pool, kind=kind))
    for g in ([2], [1, 2], [3, 2]):
        for sh in (False, True):
            for pool in (False, True):
                cfgs.append(mk(g, shuffle=sh, pool=pool, kind="nested", dup=True))
    out.append(dict(name="C01_small", configs=cfgs, max_perm=3))
    # N = 4: all 24 permutations x all interleavings are model-checked; a seeded sample of them is replayed
    cfgs = []
    for g in ([2, 2], [4]) if tier == "quick" else ([2, 2], [4], [1, 4], [2, 1, 2]):
        for sh in (False, True):
            cfgs.append(mk(g, shuffle=sh, pool=True, kind="nested"))
    out.append(dict(name="C01_n4", configs=cfgs, max_perm=4, simulate=600 if tier == "quick" else 5000, depth=40))
    cfgs = []
    for g in mid:
        for kind in ("nested", "flat"):
            cfgs.append(mk(g, shuffle=True, pool=False, kind=kind))
            cfgs.append(mk(g, shuffle=False, pool=False, kind=kind))
    out.append(dict(name="C01_mid", configs=cfgs, max_perm=3))
    # larger grids and pools by simulation only: 2-5 arguments, up to 4 values, N up to 48
    big = [g for g in grids(5, 4, 48, min_args=2) if 5 <= __import__("math").prod(g) <= 48]
    step = 5 if tier == "quick" else 1
    cfgs = []
    for i, g in enumerate(big[::step]):
        cfgs.append(mk(g, shuffle=(i % 2 == 0), pool=(i % 3 != 1), kind=("nested", "flat")[i % 5 == 4]))
    # arguments with 10 and more values (two-digit positions), sequential / shuffled / pooled
    for i, g in enumerate(([11], [12, 2], [2, 10], [3, 13])):
        cfgs.append(mk(g, shuffle=(i % 2 == 0), pool=(i % 2 == 1), kind=("nested", "flat")[i == 2]))
    out.append(dict(name="C01_big", configs=cfgs, max_perm=5, check=False,
                    simulate=150 if tier == "quick" else 6000, depth=250))
    # several hundred settings through a pool (beyond any window an executor adapter might use)
    out.append(dict(name="C01_huge", configs=[mk([4, 4, 3, 3, 2], shuffle=False, pool=True, kind="nested")] +
                    ([mk([4, 4, 4, 3, 2], shuffle=True, pool=True, kind="flat")] if tier == "thorough" else []),
                    max_perm=3, check=False, simulate=1 if tier == "quick" else 3, depth=1400))
    if tier == "thorough":
        cfgs = [mk(g, shuffle=True, pool=False, kind="nested") for g in ([2, 3], [3, 2], [6], [1, 6], [2, 1, 3])]
        out.append(dict(name="C01_perm6", configs=cfgs, max_perm=6))
        cfgs = [mk(g, shuffle=sh, pool=True, kind="nested") for g in ([5], [1, 5]) for sh in (False, True)]
        out.append(dict(name="C01_pool5", configs=cfgs, max_perm=3, simulate=2000, depth=60))
    return out


def with_constants(runs_):
    """C01: 'with the constant arguments added, and nothing else' - give constants to most configs."""
    for r in runs_:
        for i, c in enumerate(r["configs"]):
            c["meta"] = dict(sweep.META0, cattr=(i % 4 != 3), cdim=(i % 3 == 0))
    return runs_


def run(rep):
    rep.rule = ("TLC enumerates grid shapes x strategy (sequential/shuffled/pool) x output form; every permutation and every "
                "submit/complete/collect interleaving for N<=3 (N=4 for 4 shapes), sampled beyond; each terminal behaviour is replayed. "
                "distinct = distinct (config, permutation, event history, data-refinement variant); non-trivial = N >= 2")
    rep.assumptions = ASSUME
    sweep.drive(rep, with_constants(runs(rep.tier)), "C01", n_variants=1 if rep.tier == "quick" else 4)
    rep.exhaustive = False
    # code -> spec: executions with the real seeded shuffle and real thread / process pools, validated by SweepTrace.tla
    traces = sweep.record_real_runs(rep.seed, 24 if rep.tier == "quick" else 120)
    # binding self-test: a recorded execution with two output slots swapped / a call repeated must be rejected
    import copy
    bad = copy.deepcopy([t for t in traces if len(t["out"]) >= 3 and not t.get("error")][:2])
    bad[0]["out"][0], bad[0]["out"][1] = bad[0]["out"][1], bad[0]["out"][0]
    bad[1]["calls"] = bad[1]["calls"][:-1] + [bad[1]["calls"][0]]
    rej_bad, _ = sweep.validate_traces(rep, bad, name="SweepTraceSelf")
    if len(rej_bad) != 2:
        from .. import tlc
        raise tlc.TLCError("binding self-test failed: corrupted traces were accepted by SweepTrace.tla")
    rep.note("binding self-test: 2 corrupted recorded executions rejected by SweepTrace.tla")
    rejected, r = sweep.validate_traces(rep, traces)
    rep.traces += len(traces) - len(rejected)
    rep.extra["real_nondeterminism_traces"] = dict(recorded=len(traces), accepted=len(traces) - len(rejected),
                                                   kinds=sorted({t["how"] for t in traces}))
    for i, t in rejected:
        rep.add_violation(dict(kind="trace", trace=t), "recorded execution (%s, shuffle=%s, a pool owned by the caller and used for several sweeps) is not a behaviour of Sweep.tla: calls=%r out=%r%s" % (
            t["how"], t["shuffle"], t["calls"], t["out"], (" - the sweep raised " + t["error"]) if t.get("error") else ""), key=dict(kind="trace", how=t["how"]))


def replay(rep, saved):
    if saved.get("kind") == "trace":
        rejected, r = sweep.validate_traces(rep, [saved["trace"]])
        for i, t in rejected:
            rep.add_violation(saved, "recorded execution is not a behaviour of Sweep.tla")
        return
    sweep.replay_saved(rep, saved)
