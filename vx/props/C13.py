"""C13 - missing-data discovery.  FindMissing.tla enumerates every null pattern of small
datasets (1-4 parameter dimensions, 1-3 variables with/without an internal dimension,
cells in {data, nan, inf}, both null criteria), checks the code-shaped scan machine against
the property (exactly the all-null locations, grid order, no duplicates; harvest the reported
cells => nothing missing; requested locations incl. unknown coordinates) and emits every
pattern with the expected lists.  Each emitted case is rebuilt as a real xarray.Dataset and
fed to find_missing_cases / is_case_missing / parse_into_cases and to a real
Harvester.harvest_cases(missing) -> find_missing_cases(full_ds) loop."""
import random
from concurrent.futures import ThreadPoolExecutor

from .. import common, tlc

INVS = ["TypeOK", "NeverReportsData", "GridOrderNoDup", "CompleteSoFar", "ExactlyTheMissing",
        "SecondScanEmpty", "NoNewLabels", "HarvestTouchesOnlyReported", "ParseExact", "RequestedNowPresent"]
ALLREQ = ("combos", "cases", "mixed", "partial", "foreigncombo", "foreigncase", "keyorder")
BOTH = ("isnull", "isfinite")
V3 = ("data", "nan", "inf")

# name, sizes, NV, IntVars, Vals, Methods, KindSel, ReqKinds, emit?, quick sample (None = all)
SHAPES_QUICK = [
    ("d1v1", [2], 1, [], V3, BOTH, "cells", ("combos", "cases"), True, None),
    ("d1v2t", [2], 2, [2], V3, BOTH, "cells", ("combos", "cases", "foreigncase"), True, 1500),
    ("d1v1t3", [3], 1, [1], ("data", "nan"), ("isnull",), "cells", ("cases",), True, None),
    ("d2v1", [2, 2], 1, [], V3, BOTH, "cells", ALLREQ, True, None),
    ("d2v2t", [2, 2], 2, [2], ("data", "nan"), ("isnull",), "cells", ("mixed", "keyorder"), True, 2100),
    ("d2v3", [2, 2], 3, [], ("data", "inf"), ("isfinite",), "cells", (), True, 1200),
    ("d3v1", [2, 2, 2], 1, [], ("nan", "inf"), BOTH, "cells", ("mixed", "foreigncase"), True, 650),
    ("d3v2t", [2, 2, 2], 2, [1], V3, BOTH, ("allnan", "s1data"), ("partial", "keyordercombo"), True, 500),
    ("d4v2t", [2, 2, 1, 2], 2, [2], V3, ("isnull",), ("allnan", "lastdata"), ("combos", "foreigncombo"), True, 300),
]
SHAPES_THOROUGH = [
    ("d1v1", [2], 1, [], V3, BOTH, "cells", ("combos", "cases"), True, None),
    ("d1v2t", [2], 2, [2], V3, BOTH, "cells", ("combos", "cases", "foreigncase"), True, None),
    ("d1v3t", [2], 3, [1, 3], ("data", "nan"), ("isnull",), "cells", ("cases",), True, None),
    ("d1v1t3", [3], 1, [1], V3, BOTH, "cells", ("combos", "cases"), True, None),
    ("d2v1", [2, 2], 1, [], V3, BOTH, "cells", ALLREQ, True, None),
    ("d2v1t", [2, 2], 1, [1], V3, BOTH, "cells", (), True, None),
    ("d2v2t", [2, 2], 2, [2], ("data", "nan"), ("isnull",), "cells", ALLREQ, True, None),
    ("d2v2ti", [2, 2], 2, [1], ("data", "inf"), ("isfinite",), "cells", ("mixed", "foreigncase", "keyorder"), True, None),
    ("d2v3", [2, 2], 3, [], ("data", "inf"), ("isfinite",), "cells", ("combos",), True, None),
    ("d2v3n", [2, 2], 3, [], ("nan", "inf"), BOTH, "cells", (), True, None),
    ("d2s33", [3, 3], 1, [], ("data", "nan"), ("isnull",), "cells", ("mixed",), True, None),
    ("d2s32", [3, 2], 1, [], V3, BOTH, "cells", ("partial", "keyorder"), True, None),
    ("d3v1", [2, 2, 2], 1, [], V3, ("isfinite",), "cells", ("mixed",), True, None),
    ("d3v2t", [2, 2, 2], 2, [1], V3, ("isnull",), ("allnan", "s1data", "alldata"), ("partial", "keyordercombo"), True, None),
    ("d3v3t", [2, 2, 2], 3, [2], V3, ("isfinite",), ("allinf", "s1nan", "naninf"), ("partial",), True, None),
    ("d4v2t", [2, 2, 1, 2], 2, [2], V3, ("isfinite",), ("allnan", "lastdata", "s1nan"), ("combos",), True, None),
    ("d4v1", [2, 1, 2, 2], 1, [], ("data", "nan"), ("isnull",), "cells", ("mixed", "foreigncombo", "foreigncase", "keyordercombo"), True, None),
    # 16 locations: checked by TLC only (2^16 patterns x 2 criteria), no replay
    ("d4full", [2, 2, 2, 2], 1, [], ("data", "nan"), ("isnull",), "cells", (), False, None),
]
BUGGY_RULES = {"anyvar": "any() across variables", "anypos": "any() inside a variable",
               "firstvar": "only the first variable inspected", "swap": "isnull/isfinite swapped",
               "keyfalse": "unknown coordinate reported as present",
               "ignoreforeign": "a requested parameter that is no dimension of the dataset is ignored",
               "dedupvalues": "requested locations de-duplicated by their value sequence (key order ignored)", "prepend": "reverse order",
               "twice": "duplicates"}


JAVA_OPTS = ("-Xmx3g", "-XX:ParallelGCThreads=2")


def _tlc(*a, **kw):
    """tlc.run_mc with modest JVM settings (many small runs are started side by side) and one retry
    when the JVM itself fails on a loaded machine (never on a parse error or an invariant violation)."""
    kw.setdefault("java_opts", JAVA_OPTS)
    try:
        return tlc.run_mc(*a, **kw)
    except tlc.TLCError as e:
        if "Parsing or semantic analysis failed" in str(e) or "Semantic errors" in str(e):
            raise
        import sys
        import time
        sys.stderr.write("TLC run failed once, retrying: %s\n" % str(e)[-400:])
        time.sleep(2.0)
        return tlc.run_mc(*a, **kw)


def consts_of(shape, rule="all", modes=("find", "parse"), labelby="given"):
    name, sizes, nv, intvars, vals, methods, kindsel, reqs, emit, sample = shape
    if not reqs:
        modes = ("find",)
    return dict(Sizes=list(sizes), NV=nv, IntVars=set(intvars) if intvars else tlc.Raw("{}"), TSize=2,
                Vals=set(vals), Methods=set(methods),
                KindSel={kindsel} if isinstance(kindsel, str) else set(kindsel),
                Modes=set(modes), ReqKinds=set(reqs) if reqs else tlc.Raw("{}"), Rule=rule, LabelBy=labelby)


def run_shape(shape, rule="all", emit=None, labelby="given", **kw):
    emit = shape[8] if emit is None else emit
    tail = "".join("INVARIANT %s\n" % i for i in INVS) + ("INVARIANT EmitCase\n" if emit else "") + "CHECK_DEADLOCK FALSE\n"
    return _tlc("FindMissing", consts_of(shape, rule, labelby=labelby), tail,
                name="MC_FindMissing_%s_%s%s" % (shape[0], rule, "" if labelby == "given" else "_" + labelby), **kw)


# ---------------------------------------------------------------------------
# abstract ids -> concrete inputs

DIMS = ["a", "b", "c", "d"]
VARS = ["x", "y", "z"]
TCOORD = [100, 200]
COORD_TABLES = {
    # the 'unknown' label of the int and str flavours would land ON a stored label if it were cast to the
    # coordinate's dtype (10.5 -> 10, 'qx' -> 'q' as '<U1'): it is still a coordinate the dataset does not have
    "int": ([20, 10, 30], 10.5),
    "float": ([0.5, -1.5, 0.25], 9.75),
    "str": (["q", "p", "r"], "qx"),
    # ascending flavours for the Harvester.expand_dims route: merging (outer join) sorts the indexes
    "ints": ([10, 20, 30], 20.5),
    "floats": ([-1.5, 0.25, 0.5], 9.75),
    "strs": (["p", "q", "r"], "px"),
}
SORTED_VARIANTS = ["ints", "floats", "strs"]
VARIANTS = ["int", "float", "str", "mixed"]
FOREIGN = "e"                 # a parameter no dataset here has a dimension or coordinate for
FOREIGN_VALUES = [5, 6]


def table_for(variant, d):
    if variant == "mixed":
        variant = ["str", "int", "float", "int"][d]
    return COORD_TABLES[variant]


def coord_value(variant, d, idx, size):
    vals, absent = table_for(variant, d)
    return vals[idx - 1] if idx <= size else absent


def coord_index(variant, d, value, size):
    """real coordinate value -> index (size+1 for the 'unknown' value, None if unrecognised)"""
    vals, absent = table_for(variant, d)
    try:
        value = value.item()
    except AttributeError:
        pass
    for i in range(size):
        if type(value) is type(vals[i]) and value == vals[i]:
            return i + 1
    if type(value) is type(absent) and value == absent:
        return size + 1
    return None


def grid(sizes):
    import itertools
    return [tuple(l) for l in itertools.product(*[range(1, n + 1) for n in sizes])]


def tname(c):
    """name of the internal dimension: one character, several characters, or the concatenation of the names
    of two parameter dimensions ('ab' is ONE dimension, not the dimensions a and b)"""
    return c.get("tname", "t")


def dims_of(c):
    """names of the model's dimensions 1..ND, in the dataset's order"""
    return list(c.get("dimnames") or DIMS[:len(c["sizes"])])


def cell_value(kind, r, slot):
    import numpy as np
    if kind == "data":
        return 1.0 + r + 0.25 * slot
    if kind == "nan":
        return np.nan
    return np.inf if (r + slot) % 2 == 0 else -np.inf


def permutation(c, n):
    """axes order of a variable with n >= 2 dimensions in the 'permuted' layout: never the identity"""
    if n >= 3 and c["idx"] % 2:
        return list(range(1, n)) + [0]          # rotation
    return list(range(n))[::-1]                 # reversal


def build_ds(c):
    """The real Dataset for an emitted pattern.  c['cells'][r][s]: location of rank r (row-major),
    slot s (variable 1's positions, variable 2's, ...).

    layouts: natural    - every variable stores its dimensions in the dataset's order
             transposed - variables 2.. store them reversed (variable 1 fixes the dataset's order)
             permuted   - the coordinates fix the dataset's order and EVERY variable is then assigned
                          with permuted dimensions (as after Harvester.expand_dims + harvest, or
                          ds['x'] = (('b', 'a'), ...))"""
    import numpy as np
    import xarray as xr
    sizes, nv, intvars, variant = c["sizes"], c["nv"], c["intvars"], c["variant"]
    nd = len(sizes)
    dims = dims_of(c)
    layout = c.get("layout", "natural")
    coords = {dims[d]: np.array([coord_value(variant, d, i, sizes[d]) for i in range(1, sizes[d] + 1)]) for d in range(nd)}
    if intvars:
        coords[tname(c)] = np.array(TCOORD)
    arrays = {}
    s = 0
    for v in range(1, nv + 1):
        nt = 2 if v in intvars else 1
        arr = np.empty(tuple(sizes) + (nt,), dtype=float)
        for r, loc in enumerate(grid(sizes)):
            for t in range(nt):
                arr[tuple(i - 1 for i in loc) + (t,)] = cell_value(c["cells"][r][s + t], r, s + t)
        s += nt
        vdims = list(dims) + ([tname(c)] if v in intvars else [])
        if v not in intvars:
            arr = arr[..., 0]
        vdt = (c.get("vdtypes") or {}).get(str(v))
        if vdt:
            # data refinement of the cell state "data": a variable whose every cell holds data may as well be
            # an integer, boolean or string variable (none of which can hold a null)
            if any(k != "data" for row in c["cells"] for k in row[s - nt:s]):
                raise RuntimeError("harness: variable %d is given dtype %s but has null cells" % (v, vdt))
            q = np.round(arr * 4).astype(int)
            arr = {"int": q, "bool": q % 2 == 0,
                   "str": np.array(["s%d" % x for x in q.ravel()]).reshape(q.shape)}[vdt]
        if layout == "transposed" and v >= 2:      # the first variable fixes the dataset's dimension order
            arr = arr.transpose(*reversed(range(arr.ndim)))
            vdims = vdims[::-1]
        if layout == "permuted" and arr.ndim >= 2:
            perm = permutation(c, arr.ndim)
            arr = arr.transpose(*perm)
            vdims = [vdims[i] for i in perm]
        arrays[VARS[v - 1]] = (vdims, arr)
    if layout == "permuted":
        ds = xr.Dataset(coords=coords)
        for name, (vdims, arr) in arrays.items():
            ds[name] = (vdims, arr)
        for name in arrays:
            if ds[name].ndim >= 2 and tuple(ds[name].dims) == tuple(d for d in ds.dims if d in ds[name].dims):
                raise RuntimeError("harness: layout 'permuted' did not take: %s stored as %r in a dataset ordered %r"
                                   % (name, ds[name].dims, tuple(ds.dims)))
    else:
        ds = xr.Dataset(coords=coords, data_vars=arrays)
    if [d for d in ds.dims if d != tname(c)] != dims:
        raise RuntimeError("harness: dataset dimension order %r is not the model's %r" % (list(ds.dims), dims))
    return ds


def setting_dict(c, s, order=None):
    """the dict for a setting; `order` (1-based positions) is the order in which the dict lists its keys"""
    dims = dims_of(c)
    nd = len(dims)
    out = {}
    for d in ([k - 1 for k in order] if order else range(len(s))):
        if s[d] == 0:
            continue
        if d < nd:
            out[dims[d]] = coord_value(c["variant"], d, s[d], c["sizes"][d])
        else:
            out[FOREIGN] = FOREIGN_VALUES[s[nd] - 1]
    return out


def project_setting(c, dct):
    nd = len(c["sizes"])
    out = [0] * (nd + 1)
    dims = dims_of(c)
    for key, val in dct.items():
        if key == FOREIGN:
            if val not in FOREIGN_VALUES:
                return None
            out[nd] = FOREIGN_VALUES.index(val) + 1
            continue
        if key not in dims:
            return None
        d = dims.index(key)
        i = coord_index(c["variant"], d, val, c["sizes"][d])
        if i is None:
            return None
        out[d] = i
    return out


def ignore_arg(c):
    if not c["intvars"]:
        return None
    t = tname(c)
    # a bare name (of one or of several characters), or a set / list / tuple of names
    return [t, {t}, [t], (t,)][c["idx"] % 4]


def sig_order(c):
    """the order in which the Runner's function lists the parameters: a permutation of the dataset's dimension
    order (all permutations are visited as the case index runs)"""
    import itertools
    dims = dims_of(c)
    perms = list(itertools.permutations(range(len(dims))))
    return [dims[i] for i in perms[c.get("sigperm", 0) % len(perms)]]


def make_harvester(xyz, c, ds, pattern=False):
    """A real Harvester around `ds` whose function takes the parameter dimensions as arguments and
    returns data in every slot - or, with pattern=True, the emitted pattern's value for the slot."""
    import numpy as np
    nv, intvars, sizes = c["nv"], c["intvars"], c["sizes"]
    dims = dims_of(c)
    locs = grid(sizes)

    def fn(**kw):
        if pattern:
            loc = tuple(coord_index(c["variant"], d, kw[dims[d]], sizes[d]) for d in range(len(dims)))
            r = locs.index(loc)
            out, s = [], 0
            for v in range(1, nv + 1):
                nt = 2 if v in intvars else 1
                vals = [cell_value(c["cells"][r][s + t], r, s + t) for t in range(nt)]
                out.append(np.array(vals) if v in intvars else vals[0])
                s += nt
            out = tuple(out)
        else:
            out = tuple(np.array([5.0, 6.0]) if v in intvars else 7.0 for v in range(1, nv + 1))
        return out if nv > 1 else out[0]

    # a signature with the parameter names, as a user's function would have
    sig = dims if pattern else sig_order(c)
    src = "lambda %s: _f(%s)" % (", ".join(sig), ", ".join("%s=%s" % (d, d) for d in dims))
    f = eval(src, {"_f": fn})
    names = VARS[:nv] if nv > 1 else VARS[0]
    var_dims = {VARS[v - 1]: [tname(c)] for v in intvars} or None
    var_coords = {tname(c): TCOORD} if intvars else None
    r = xyz.Runner(f, var_names=names, var_dims=var_dims, var_coords=var_coords)
    return xyz.Harvester(r, data_name=None, full_ds=ds)


_EXPAND_ORDER = {}


def _expand_once(xyz, cc):
    dims, sizes, variant = cc["dimnames"], cc["sizes"], cc["variant"]
    p = dims.index("c")
    locs = grid(sizes)
    base = dict(cc, sizes=[n for d, n in enumerate(sizes) if d != p], dimnames=[d for d in dims if d != "c"],
                cells=[cc["cells"][r] for r, loc in enumerate(locs) if loc[p] == 1], layout="natural")
    h = make_harvester(xyz, cc, build_ds(base), pattern=True)
    h.expand_dims("c", coord_value(variant, p, 1, sizes[p]))
    cases = [tuple(coord_value(variant, d, loc[d], sizes[d]) for d in range(len(dims))) for loc in locs if loc[p] == 2]
    h.harvest_cases(cases, fn_args=tuple(dims), verbosity=0)
    return h.full_ds


def build_via_expand(xyz, c):
    """Realise a three-dimensional pattern the way a user grows a dataset: a two-dimensional dataset in a
    real Harvester, expand_dims('c', v1), then harvest_cases at c = v2 with a function that returns the
    pattern's values.  Which position 'c' takes in the grown dataset's dimension order is read off the
    result (and the pattern laid out accordingly).  Returns (dataset, case) or (None, reason)."""
    import numpy as np
    key = (c["nv"], tuple(c["intvars"]))
    guess = list(_EXPAND_ORDER.get(key, ["a", "b", "c"]))
    for _ in range(2):
        cc = dict(c, dimnames=list(guess), layout="natural")
        ds = _expand_once(xyz, cc)
        actual = [d for d in ds.dims if d != tname(cc)]
        if actual == guess:
            for d, name in enumerate(guess):
                want = [coord_value(cc["variant"], d, i, cc["sizes"][d]) for i in range(1, cc["sizes"][d] + 1)]
                if np.asarray(ds[name].values).tolist() != want:
                    return None, "coordinate %s stored as %r" % (name, ds[name].values.tolist())
            _EXPAND_ORDER[key] = guess
            return ds, cc
        guess = actual
    return None, "dimension order not stable"


def check_one(c):
    """Replay one emitted case on the real functions.  Returns a list of (category, message)."""
    xyz = common.use_repo()
    import numpy as np  # noqa
    bad = []
    sizes, method = c["sizes"], c["method"]
    nd = len(sizes)
    ds = None
    if c.get("route") == "expand":
        try:
            ds, cc = build_via_expand(xyz, c)
        except Exception as e:  # noqa   (growing the dataset is not C13's subject: fall back, and say so)
            ds, cc = None, "%s: %s" % (type(e).__name__, str(e)[:120])
        if ds is None:
            bad.append(("note", "Harvester.expand_dims route not used (%s); pattern built directly" % cc))
        else:
            c = cc
    if ds is None:
        ds = build_ds(c)
    dims = dims_of(c)
    ig = ignore_arg(c)
    if c["mode"] == "find":
        want = [list(l) for l in c["missing"]]
        try:
            fn_args, cases = xyz.find_missing_cases(ds, ignore_dims=ig, method=method)
        except Exception as e:  # noqa
            return [("find-raises", "find_missing_cases raised %s: %s" % (type(e).__name__, e))]
        got = None
        if tuple(fn_args) != tuple(dims):
            bad.append(("find-args", "find_missing_cases reports arguments %r, dataset dimensions (ignoring %r) are %r"
                        % (tuple(fn_args), ig, tuple(dims))))
        else:
            got = [[coord_index(c["variant"], d, case[d], sizes[d]) for d in range(nd)] for case in cases]
            if got != want:
                what = "find-list"
                if sorted(map(tuple, got), key=repr) == sorted(map(tuple, want), key=repr):
                    what = "find-order"
                elif len(set(map(tuple, got))) != len(got):
                    what = "find-duplicates"
                bad.append((what, "find_missing_cases(method=%s) -> %r, the all-null locations in grid order are %r"
                            % (method, [tuple(x) for x in cases], [tuple(setting_dict(c, l).values()) for l in want])))
        # is_case_missing at every location (Dataset; DataArray too when there is one variable)
        wantset = set(map(tuple, want))
        objs = [("Dataset", ds)] + ([("DataArray", ds[VARS[0]])] if c["nv"] == 1 else [])
        for oname, obj in objs:
            for loc in grid(sizes):
                try:
                    m = xyz.is_case_missing(obj, setting_dict(c, loc), method=method)
                except Exception as e:  # noqa
                    bad.append(("is-raises", "is_case_missing(%s, %r) raised %s: %s" % (oname, setting_dict(c, loc), type(e).__name__, e)))
                    break
                if bool(m) != (tuple(loc) in wantset):
                    bad.append(("is-missing", "is_case_missing(%s, %r, method=%s) -> %r, expected %r"
                                % (oname, setting_dict(c, loc), method, m, tuple(loc) in wantset)))
                    break
        # find -> harvest -> find
        if got == want:
            try:
                h = make_harvester(xyz, c, ds.copy(deep=True))
                style = c.get("casestyle", "tuple")
                how = "harvest_cases(cases, fn_args=fn_args) [tuple cases, Runner signature %r, dataset order %r]" % (
                    tuple(sig_order(c)), tuple(dims))
                if cases:
                    ow = True if method == "isfinite" else None
                    if style == "dict":
                        how = "harvest_cases(dict cases) [Runner signature %r, dataset order %r]" % (tuple(sig_order(c)), tuple(dims))
                        h.harvest_cases([dict(zip(fn_args, case)) for case in cases], overwrite=ow, verbosity=0)
                    else:       # exactly as the docs show: the tuples and the fn_args find_missing_cases returned
                        h.harvest_cases(cases, fn_args=fn_args, overwrite=ow, verbosity=0)
                full = h.full_ds
                _, again = xyz.find_missing_cases(full, ignore_dims=ig, method=method)
            except Exception as e:  # noqa
                bad.append(("loop-raises", "find -> harvest_cases(reported) -> find raised %s: %s" % (type(e).__name__, e)))
            else:
                if len(again) != 0:
                    bad.append(("loop-left", "after %s of exactly the %d reported cases %r find_missing_cases still reports %r"
                                % (how, len(cases), [tuple(x) for x in cases], [tuple(x) for x in again])))
                for d in dims:
                    before = sorted(np.asarray(ds[d].values).tolist(), key=repr)
                    after = sorted(np.asarray(full[d].values).tolist(), key=repr) if d in full.coords else None
                    if before != after:
                        bad.append(("loop-grew", "after %s of exactly the reported cases %r coordinate %r is %r, it was %r"
                                    % (how, [tuple(x) for x in cases], d, after, before)))
                        break
    else:
        want = [list(s) for s in c["expect"]]
        combos = {}
        for cb in c["combos"]:
            d = cb["dim"] - 1
            if d == nd:       # a parameter the dataset has no dimension for
                combos[FOREIGN] = [FOREIGN_VALUES[i - 1] for i in cb["vals"]]
            else:
                combos[dims[d]] = [coord_value(c["variant"], d, i, sizes[d]) for i in cb["vals"]]
        orders = c.get("orders") or [None] * len(c["cases"])
        cases = [setting_dict(c, s, o) for s, o in zip(c["cases"], orders)]
        objs = [("Dataset", ds)] + ([("DataArray", ds[VARS[0]])] if c["nv"] == 1 else [])
        for oname, obj in objs:
            kw = {}
            if combos:
                kw["combos"] = combos
            if not (len(cases) == 1 and not cases[0]) or c["idx"] % 2:
                kw["cases"] = cases
            call_kw = dict(kw)
            if "cases" in call_kw and c["idx"] % 3 == 1:
                # the cases arrive as a one-shot iterator (a generator of dicts): every case must still be looked at once
                call_kw["cases"] = (dict(x) for x in cases)
            try:
                new = xyz.parse_into_cases(ds=obj, method=method, **call_kw)
            except Exception as e:  # noqa
                bad.append(("parse-raises", "parse_into_cases(%r) raised %s: %s" % (kw, type(e).__name__, e)))
                continue
            got = [project_setting(c, dict(x)) for x in new]
            if got != want:
                what = "parse-list"
                if None not in got and sorted(map(tuple, got)) == sorted(map(tuple, want)):
                    what = "parse-order"
                bad.append((what, "parse_into_cases(%s, method=%s, %r) -> %r, expected %r"
                            % (oname, method, kw, new, [setting_dict(c, s) for s in want])))
            # parse_into_cases -> harvest_cases(what it returned) -> find: no requested location is left without data
            if got == want and oname == "Dataset" and c["kind"] in ("keyorder", "keyordercombo"):
                try:
                    h = make_harvester(xyz, c, ds.copy(deep=True))
                    if new:
                        h.harvest_cases(new, overwrite=(True if method == "isfinite" else None), verbosity=0)
                    full = h.full_ds
                    fa, again = xyz.find_missing_cases(full, ignore_dims=ig, method=method)
                except Exception as e:  # noqa
                    bad.append(("loop-raises", "parse_into_cases -> harvest_cases -> find raised %s: %s" % (type(e).__name__, e)))
                else:
                    left = [project_setting(c, dict(zip(fa, case))) for case in again]
                    wleft = [list(l) + [0] for l in c.get("missing2", [])]
                    if left != wleft and sorted(map(repr, left)) != sorted(map(repr, wleft)):
                        bad.append(("loop-left", "after harvest_cases(parse_into_cases(%r)) find_missing_cases still reports %r, expected %r"
                                    % (kw, [tuple(x) for x in again], [setting_dict(c, l) for l in wleft])))
                    for d in dims:
                        before = sorted(np.asarray(ds[d].values).tolist(), key=repr)
                        after = sorted(np.asarray(full[d].values).tolist(), key=repr) if d in full.coords else None
                        if before != after:
                            bad.append(("loop-grew", "after harvest_cases(parse_into_cases(%r)) coordinate %r is %r, it was %r"
                                        % (kw, d, after, before)))
                            break
            # is_case_missing at every requested location (the request unrolled by the spec)
            wantset = set(map(tuple, want))
            for st in c.get("list", []):
                try:
                    m = xyz.is_case_missing(obj, setting_dict(c, st), method=method)
                except Exception as e:  # noqa
                    bad.append(("is-raises", "is_case_missing(%s, %r) raised %s: %s" % (oname, setting_dict(c, st), type(e).__name__, e)))
                    break
                if bool(m) != (tuple(st) in wantset):
                    bad.append(("is-missing", "is_case_missing(%s, %r, method=%s) -> %r, expected %r"
                                % (oname, setting_dict(c, st), method, m, tuple(st) in wantset)))
                    break
    return bad


def _all_data(c, v):
    """every cell of variable v (1-based) holds data at every location"""
    lo = sum(2 if u in c["intvars"] else 1 for u in range(1, v))
    hi = lo + (2 if v in c["intvars"] else 1)
    return all(k == "data" for row in c["cells"] for k in row[lo:hi])


def _viol(bad):
    return [b for b in bad if b[0] != "note"]


def _chk(c):
    try:
        return (c, check_one(c), None)
    except Exception as e:  # harness failure, reported as machinery failure by run()
        import traceback
        return (c, [], "%s\n%s" % (e, traceback.format_exc()))


def decorate(shape, cases):
    name, sizes, nv, intvars = shape[:4]
    out = []
    for i, c in enumerate(cases):
        c = dict(c)
        c.update(shape=name, sizes=list(sizes), nv=nv, intvars=list(intvars), idx=i)
        out.append(c)
    return out


def run(rep):
    thorough = rep.tier == "thorough"
    shapes = SHAPES_THOROUGH if thorough else SHAPES_QUICK
    rep.rule = ("FindMissing.tla Init enumerates every assignment of {data,nan,inf} (or of per-location classes for the "
                "8-location shapes) to the cells of each listed shape x null criterion x request form; a case is "
                "non-trivial when some location is partially null or when some but not all locations are missing; "
                "distinct = distinct (shape, pattern, criterion, request, coordinate flavour)")
    rep.assumptions = [
        "datasets are bounded: 1-4 parameter dimensions of size <= 2 (<= 3 for 1-2 dimensions), 1-3 float variables, "
        "internal dimension of size 2; the 16-location shape is model-checked only",
        "coordinate flavours (int unsorted / float / str / mixed), the stored dimension order of the variables (natural / "
        "every variable permuted against the dataset's order / variables 2.. reversed), growth of the three-dimensional "
        "patterns by a real Harvester (expand_dims then harvest_cases, ascending coordinates), the name of the internal dimension ('t' / 'time' / 'ab') and "
        "the spelling of ignore_dims (bare string / set / list / tuple), the order in which the "
        "Runner's function lists its parameters (every permutation) and tuple vs dict cases in the harvest loop, the dtype of variables that "
        "hold data everywhere (float / int / bool / str), Dataset vs DataArray and the "
        "spelling of ignore_dims are rotated over the emitted cases by the harness, not enumerated by TLC",
        "the harvest step of the find->harvest->find loop uses overwrite=True under the isfinite criterion (a reported "
        "cell may hold +-inf, which the default merge policy treats as conflicting data - that is C05's subject)",
        "in quick tier the larger shapes are replayed on a seeded sample of the emitted patterns (TLC still checks all)",
    ]
    rnd = random.Random(rep.seed)
    # 1. TLC: every shape (check + emission in one single-worker run), buggy machines, in parallel
    common.scratch_root()
    jobs = {}
    with ThreadPoolExecutor(max_workers=max(2, common.NCPU // 2)) as ex:
        for sh in shapes:
            if sh[8]:
                jobs[("shape", sh[0])] = ex.submit(run_shape, sh, workers=1, coverage=True)
            else:
                jobs[("shape", sh[0])] = ex.submit(run_shape, sh, workers=common.NCPU, coverage=True)
        bug_shape = ("bug", [2, 2], 2, [2], V3, BOTH, ("allnan", "alldata", "s1nan", "s1data", "naninf"), ALLREQ, False, None)
        for rule in BUGGY_RULES:
            jobs[("bug", rule)] = ex.submit(run_shape, bug_shape, rule=rule, workers=1)
        label_shape = ("label", [3, 2], 1, [], ("data", "nan"), ("isnull",), "cells", (), False, None)
        jobs[("label", "signature")] = ex.submit(run_shape, label_shape, labelby="signature", workers=1)
        results = {k: f.result() for k, f in jobs.items()}
    if results[("label", "signature")].violated is None:
        raise tlc.TLCError("self-test failed: labelling the reported tuples by the runner's signature is not rejected")
    rep.note("self-test: LabelBy='signature' (harvest labels the reported tuples with the runner's own argument order) is "
             "rejected by TLC: %s" % results[("label", "signature")].violated)
    for rule, text in BUGGY_RULES.items():
        r = results[("bug", rule)]
        if r.violated is None:
            raise tlc.TLCError("self-test failed: the buggy machine Rule=%s (%s) is not rejected by the invariants" % (rule, text))
    rep.note("self-test: the machines Rule in %s are each rejected by TLC (%s)" % (
        sorted(BUGGY_RULES), ", ".join("%s:%s" % (k, results[("bug", k)].violated) for k in sorted(BUGGY_RULES))))
    todo = []
    for sh in shapes:
        r = results[("shape", sh[0])]
        rep.add_tlc("FindMissing %s" % sh[0], r)
        if r.violated:
            raise tlc.TLCError("FindMissing.tla: invariant %s violated for shape %s with Rule=all" % (r.violated, sh[0]))
        need = ["Visit1", "HarvestReported", "Visit2"] + (["VisitReq", "HarvestRequested"] if sh[7] else [])
        for act in need:
            if r.coverage.get(act, (0, 0))[1] == 0:
                raise tlc.TLCError("vacuous: action %s never taken for shape %s" % (act, sh[0]))
        if not sh[8]:
            continue
        cases = decorate(sh, r.cases)
        if not cases:
            raise tlc.TLCError("no case emitted for shape %s" % sh[0])
        rep.extra.setdefault("emitted_per_shape", {})[sh[0]] = len(cases)
        if not thorough and sh[9] is not None and len(cases) > sh[9]:
            cases = rnd.sample(cases, sh[9])
        todo.extend(cases)
    # harness-level variants
    final = []
    for n, c in enumerate(todo):
        flavours = VARIANTS if (thorough and len(c["cells"]) <= 3) else [VARIANTS[(n + c["idx"]) % len(VARIANTS)]]
        for fl in flavours:
            cc = dict(c)
            cc["variant"] = fl
            cc["layout"] = ["natural", "permuted", "transposed"][n % 3]
            cc["tname"] = ["t", "time", "ab"][(n // 4) % 3]
            cc["sigperm"] = n // 2                   # the Runner's signature: every permutation of the dimensions in turn
            cc["casestyle"] = "dict" if n % 4 == 1 else "tuple"
            # variables all of whose cells hold data become int / bool / str variables (at least one float variable
            # stays; str only under isnull: np.isfinite is not defined for strings)
            full = [v for v in range(1, c["nv"] + 1) if _all_data(c, v)]
            if c["nv"] >= 2 and full and n % 4 != 3:
                if len(full) == c["nv"]:
                    full = full[:-1]
                kinds = ["int", "bool", "str"] if c["method"] == "isnull" else ["int", "bool"]
                cc["vdtypes"] = {str(v): kinds[(n + v) % len(kinds)] for v in full}
            if c["sizes"] == [2, 2, 2] and c["mode"] == "find" and n % 2 == 0 and "vdtypes" not in cc:
                # grown by a real Harvester: 2-d dataset -> expand_dims('c') -> harvest_cases at the new value
                cc["route"] = "expand"
                cc["variant"] = SORTED_VARIANTS[n % len(SORTED_VARIANTS)]
                cc["layout"] = "natural"
            final.append(cc)
    # non-vacuity of the emitted set
    nfind = [c for c in final if c["mode"] == "find"]
    if not any(c["npartial"] > 0 and c["missing"] for c in nfind) or not any(not c["missing"] for c in nfind) \
            or not any(c["mode"] == "parse" and any(any(s[d] > n for d, n in enumerate(c["sizes"])) for s in c["expect"]) for c in final):
        raise tlc.TLCError("vacuous case set: no partial-null pattern / no empty result / no absent coordinate among the cases")
    nforeign = sum(1 for c in final if c["mode"] == "parse" and c["kind"].startswith("foreign")
                   and any(s[-1] != 0 and any(any(k != "nan" for k in row) for row in c["cells"]) for s in c["expect"]))
    if nforeign < 50:
        raise tlc.TLCError("vacuous case set: only %d requests naming a foreign parameter on a dataset that holds data" % nforeign)
    rep.extra["foreign_parameter_requests"] = nforeign
    nkey = sum(1 for c in final if c["mode"] == "parse" and c["kind"].startswith("keyorder") and c["variant"] != "mixed"
               and len(c["expect"]) >= 2)
    if nkey < 50:
        raise tlc.TLCError("vacuous case set: only %d requests with dicts in differing key order and coinciding values" % nkey)
    rep.extra["key_order_requests"] = nkey
    ntyped = sum(1 for c in final if c.get("vdtypes") and any(k != "data" for row in c["cells"] for k in row))
    if ntyped < 50:
        raise tlc.TLCError("vacuous case set: only %d cases with an int/bool/str variable next to a variable with nulls" % ntyped)
    rep.extra["typed_variable_cases"] = ntyped
    nperm = sum(1 for c in final if c["layout"] == "permuted" and len(c["sizes"]) >= 2 and 0 < len(c.get("missing", c.get("expect"))) < len(c["cells"]))
    nroute = sum(1 for c in final if c.get("route") == "expand")
    if nperm < 50 or nroute < 20:
        raise tlc.TLCError("vacuous case set: %d permuted-layout cases with a proper sub-list, %d Harvester-grown cases" % (nperm, nroute))
    rep.extra["permuted_layout_cases"] = nperm
    rep.extra["harvester_grown_cases"] = nroute
    # binding self-test: a corrupted expectation must be rejected by the replay
    probe = next(c for c in final if c["mode"] == "find" and c["missing"] and c["npartial"] > 0)
    corrupted = dict(probe, missing=probe["missing"][1:])
    if _viol(check_one(probe)) or not _viol(check_one(corrupted)):
        if _viol(check_one(probe)):
            rep.note("binding self-test skipped: the probe case itself fails on this tree")
        else:
            raise RuntimeError("binding self-test failed: replay accepts a case whose expected list lost an entry")
    else:
        rep.note("binding self-test: a case with one expected location removed is rejected by the replay")
    res = common.pmap(_chk, final)
    notes = {}
    for c, bad, err in res:
        if err:
            raise RuntimeError("harness failure on case %r: %s" % ({k: c[k] for k in ("shape", "idx", "mode")}, err))
        nloc = len(c["cells"])
        nontrivial = c["npartial"] > 0 or (c["mode"] == "find" and 0 < len(c["missing"]) < nloc) or c["mode"] == "parse"
        rep.add_case([c["shape"], c["cells"], c["method"], c["mode"], c.get("kind"), c["variant"], c["layout"]],
                     nontrivial=nontrivial, sample=c if (len(rep.samples) < 3 and c["npartial"] > 0) else None)
        for what, msg in bad:
            if what == "note":
                notes[msg] = notes.get(msg, 0) + 1
            else:
                rep.add_violation(c, msg, key=dict(mode=c["mode"], what=what, method=c["method"]))
    for msg, k in sorted(notes.items()):
        rep.note("%s [%d cases]" % (msg, k))
    rep.exhaustive = thorough
    rep.extra["replayed_cases"] = len(final)


def replay(rep, case):
    for what, msg in _viol(check_one(case)):
        rep.add_violation(case, msg, key=dict(mode=case["mode"], what=what, method=case["method"]))
