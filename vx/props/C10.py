"""C10 - killing a worker at any instant never corrupts what is later reaped.
For each phase (sow, grow, grow_missing, reap for plain / Harvester / Sampler crops) the sequence of file-system
operations is recorded from the real code; CropFS.tla crashes that program at every index and runs the documented
recovery (NoSilentCorruption, RecoveryReachesExact, HarvestedDataSurvives); every crash index is then realised by a real
SIGKILL of a forked process at exactly that operation, the directory compared with the model's prediction, an immediate
reap attempted, the harvested data checked, the recovery run (with a second kill inside it for a sample)."""
import os
import random

from .. import common, crash, cropfs, tlc

PHASES_Q = [("none", "joblib", "sow"), ("none", "joblib", "grow"), ("none", "joblib", "grow_missing"), ("none", "joblib", "reap"),
            ("harvester", "joblib", "reap"), ("harvester", "h5netcdf", "reap"), ("sampler", "joblib", "reap"),
            ("harvester", "joblib", "sow"), ("sampler", "csv", "reap"), ("none", "shuffle", "reap"), ("sampler", "joblib", "sow")]
PHASES_T = PHASES_Q + [("runner", "joblib", "reap"), ("harvester", "joblib", "grow_missing_all"), ("sampler", "csv", "sow"),
                       ("none", "joblib", "grow_missing_all")]


def program_consts(box, ops, pre, record):
    names = set(pre)
    seq = []
    full = {}
    final = {}
    # which batch's result does a created file finally become?
    for idx, op in enumerate(ops):
        if op[0] == "rename":
            final[op[1]] = op[2]
    for op in ops:
        k, p = op[0], op[1]
        q = op[2] if len(op) > 2 else "-"
        if k in ("stat", "list", "read", "sleep", "mkdir", "rmdir") or p.startswith("dir_") or p == "root":
            seq.append(dict(k="stat", p="info", q="-", s=0))
            continue
        names.add(p)
        if q != "-":
            names.add(q)
        if k == "write":
            full[p] = full.get(p, 0) + 1
        s = 0
        if k == "creat":
            tgt = final.get(p, p)
            if tgt.startswith("res"):
                s = int(tgt[3:])
        seq.append(dict(k=k, p=p, q=q, s=s))
    for n in names:
        pre.setdefault(n, "absent")
    sowfiles = {n for n in names if n in ("info", "fn") or n.startswith("bat")}
    consts = dict(
        Names=names, Writers={"w"},
        Prog=tlc.Raw('("w" :> %s)' % tlc.tla(seq)),
        BatchOf=tlc.Raw('("w" :> 0)'),
        FullOf=tlc.Raw('("w" :> [n \\in mc_Names |-> %s 0])' % " ".join('IF n = "%s" THEN %d ELSE' % (n, c) for n, c in sorted(full.items()))),
        NB=crash.NBATCH, Counted=tlc.Raw("{}"), Pollers=tlc.Raw("{}"), NPolls=0, MaxSleeps=0, WithReaper=False, MaxCrashes=1, Record=record,
        Pre=tlc.Raw("(" + " @@ ".join('"%s" :> "%s"' % (n, pre[n]) for n in sorted(names)) + ")"),
        SowFiles=sowfiles | {"info", "fn"} | {"bat%d" % i for i in range(1, crash.NBATCH + 1)},
        DataFiles={"data"} if "data" in names else tlc.Raw("{}"), WithRecovery=True)
    return consts, names


def _phase_job(job):
    farmer, engine, phase, tier, seed = job
    label = "%s/%s/%s" % (farmer, engine, phase)
    out = dict(label=label, tlc=[], cases=[], notes=[], violations=[])
    crash.silence()
    rnd = random.Random(seed * 131 + hash(label) % 1000)
    pre_box = crash.Box(farmer, engine)
    try:
        try:
            crash.prepare(pre_box, phase)
        except Exception as ex:  # noqa
            raise common.LibraryFailure("the uninterrupted steps before the phase %s fail: %s: %s" % (label, type(ex).__name__, str(ex)[:200]))
        pre = crash.dir_state(pre_box)
        if farmer in ("harvester", "sampler"):
            pre["data"] = "complete"
        rec_box = pre_box.copy()
        try:
            ops = crash.record(rec_box, phase)
        finally:
            rec_box.close()
        out["program"] = [list(o) for o in ops]
        m = len(ops)
        # names must cover everything the recovery talks about
        for i in range(1, crash.NBATCH + 1):
            pre.setdefault("bat%d" % i, "absent")
            pre.setdefault("res%d" % i, "absent")
        consts, names = program_consts(pre_box, ops, dict(pre), record=False)
        r = tlc.run_mc("CropFS", consts, "INVARIANT TypeOK\nINVARIANT NoSilentCorruption\nINVARIANT RecoveryReachesExact\n"
                       "INVARIANT HarvestedDataSurvives\nCHECK_DEADLOCK FALSE\n",
                       name="MC_C10_%s_%s_%s" % (farmer, engine[:2], phase), workers=2, coverage=True)
        out["tlc"].append((label + " crash+recovery", r.summary(), dict(r.coverage)))
        if r.violated:
            out["notes"].append("lead: %s violated in the model for %s (decided by the real kills below)" % (r.violated, label))
        else:
            for act in ("WStep", "Crash"):
                if r.coverage.get(act, (0, 0))[1] == 0:
                    raise tlc.TLCError("vacuous: %s never taken in %s" % (act, label))
        consts_e, _ = program_consts(pre_box, ops, dict(pre), record=True)
        consts_e["WithRecovery"] = False
        e = tlc.run_mc("CropFS", consts_e, "INVARIANT EmitCrash\nCHECK_DEADLOCK FALSE\n",
                       name="MC_C10_%s_%s_%s_e" % (farmer, engine[:2], phase), workers=1)
        out["tlc"].append((label + " emit crash states", e.summary(), {}))
        predicted = {}
        for c in e.cases:
            predicted[c["pcs"]["w"]] = c
        want = crash.expected()
        ks = list(range(1, m + 1))
        second = set(rnd.sample(ks, min(len(ks), 6))) if tier == "quick" else set(ks)
        # thorough: every kill point is visited several times: once with a plain recovery and with second kills at
        # different operations of the recovery
        visits = [(k, None) for k in ks] if tier == "quick" else [(k, r) for k in ks for r in range(4)]
        for k, rep_no in visits:
            box = pre_box.copy()
            try:
                how, _ = crash.run_in_child(box, crash.phase_fn(box, phase), kill_at=k)
                case = dict(phase=label, kill_before_op=k, op=list(ops[k - 1]), nops=m)
                if rep_no:
                    case["visit"] = rep_no
                out["cases"].append(case)
                if how != "killed":
                    out["notes"].append("model_drift: %s op %d: child ended %s instead of being killed" % (label, k, how))
                    continue
                st = crash.dir_state(box)
                pred = predicted.get(k)
                if pred is not None:
                    diff = {n: (st[n], pred["files"].get(n)) for n in st if pred["files"].get(n) not in (None, st[n])}
                    if diff:
                        out["notes"].append("model_drift: %s killed before op %d %r: directory %r differs from the model's %r" % (
                            label, k, ops[k - 1], {n: v[0] for n, v in diff.items()}, {n: v[1] for n, v in diff.items()}))
                # (a) data harvested before must have survived
                prob = crash.prior_survives(box)
                if prob:
                    out["violations"].append((case, "killed before operation %d %r of %s: %s" % (k, ops[k - 1], label, prob),
                                              dict(tag="prior_lost", phase=phase, farmer=farmer)))
                    continue
                # (b) a reap attempted right now either refuses/raises or is exact
                kind, val = crash.reap_now(box)
                if kind == "returned" and val != want:
                    out["violations"].append((case, "killed before operation %d %r of %s: an immediate reap returned %r as if complete, the "
                                              "uninterrupted run gives %r" % (k, ops[k - 1], label, val, want),
                                              dict(tag="silent_corruption", phase=phase, farmer=farmer)))
                    continue
                # (c) the documented recovery reaches the exact results (optionally with a second kill inside it)
                if (k in second and rep_no is None) or (rep_no is not None and rep_no > 0):
                    rb = box
                    nrec = 60
                    j = rnd.randint(1, nrec)
                    how2, _ = crash.run_in_child(rb, lambda: crash.recover(rb), kill_at=j)
                    case = dict(case, second_kill_at=j, second=how2)
                    prob = crash.prior_survives(box)
                    if prob:
                        out["violations"].append((case, "second kill (operation %d of the recovery) after a kill before op %d of %s: %s" % (
                            j, k, label, prob), dict(tag="prior_lost", phase=phase, farmer=farmer)))
                        continue
                try:
                    val, log = crash.recover(box)
                except Exception as ex:  # noqa
                    import traceback
                    out["violations"].append((case, "killed before operation %d %r of %s: the documented recovery failed: %s: %s" % (
                        k, ops[k - 1], label, type(ex).__name__, str(ex)[:200]), dict(tag="recovery_failed", phase=phase, farmer=farmer)))
                    continue
                if val != want:
                    out["violations"].append((case, "killed before operation %d %r of %s: after recovery (%s) the reap gives %r, expected %r" % (
                        k, ops[k - 1], label, "; ".join(log), val, want), dict(tag="recovery_wrong", phase=phase, farmer=farmer)))
                    continue
                prob = crash.prior_survives(box)
                if prob:
                    out["violations"].append((case, "after recovery from a kill before op %d of %s: %s" % (k, label, prob),
                                              dict(tag="prior_lost_after_recovery", phase=phase, farmer=farmer)))
            finally:
                box.close()
    finally:
        pre_box.close()
    return out


def run(rep):
    rep.rule = ("for each phase the operation sequence is recorded from the real code; TLC crashes it at every index and explores the recovery; "
                "every index k is realised by SIGKILL of a forked process immediately before its k-th file-system operation (creat, each half "
                "of a write, close, rename, unlink, mkdir, rmdir, incl. directory-descriptor deletions of rmtree); distinct = (phase, k); "
                "a sample gets a second kill inside the recovery")
    rep.assumptions = ["kill points are the boundaries of Python-level file operations; writes inside C libraries (HDF5) are one step",
                       "power loss (un-synced page cache) is out of scope: the property is about killed processes",
                       "recovery = re-sow if settings/function/batch files are incomplete or fewer than num_batches, check_bad, grow_missing, reap"]
    phases = PHASES_Q if rep.tier == "quick" else PHASES_T
    jobs = [p + (rep.tier, rep.seed) for p in phases]
    results = common.pmap(_phase_job, jobs, procs=min(common.NCPU, len(jobs)), chunksize=1)
    progs = {}
    for out in results:
        for name, summ, cov in out["tlc"]:
            class R(object):
                pass
            r = R()
            r.distinct, r.generated, r.coverage = summ["distinct"], summ["generated"], cov
            r.summary = lambda summ=summ: summ
            rep.add_tlc(name, r)
        for n in out["notes"][:4]:
            rep.note(n)
        progs[out["label"]] = out.get("program")
        for case in out["cases"]:
            rep.add_case([case["phase"], case["kill_before_op"], case.get("visit")], sample=case if len(rep.samples) < 3 else None)
        for case, prob, key in out["violations"]:
            rep.add_violation(case, prob, key=key)
    rep.extra["recorded_programs"] = progs
    rep.exhaustive = True


def replay(rep, case):
    farmer, engine, phase = case["phase"].split("/")
    out = _phase_job((farmer, engine, phase, "quick", rep.seed))
    for c, prob, key in out["violations"]:
        if c["kill_before_op"] == case["kill_before_op"]:
            rep.add_violation(c, prob, key=key)
