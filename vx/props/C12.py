"""C12 - a crop is deleted only after its data is safely delivered.
Crop.tla (DeleteOnlyAfterDelivery, FailedReapKeepsCrop, CleanUp rule) over clean_up x allow_incomplete x farmer kind x
failure stage (unreadable result, wrong output description, merge conflict, save error) followed by a corrected retry;
replayed into real crops, the directory compared after every attempt."""
from .. import crop, tlc

CLAIMS_PREFIX = ("dir_", "reap_", "store", "obs_reap", "outcome_fix_cause", "last_result")


def configs(tier):
    mk = crop.mk
    out = []
    for farmer, causes in (("none", ["none"]), ("runner", ["none", "build"]),
                           ("harvester", ["none", "build", "merge", "save"]), ("sampler", ["none", "save"])):
        for cause in causes:
            if farmer == "sampler":
                out.append(mk([], nca=1, cases=[[2], [1], [3]], kind="samples", bmode="count", bval=2, farmer=farmer, cause=cause))
                out.append(mk([], nca=2, cases=[[1, 1], [2, 2], [1, 2], [2, 1]], kind="samples", bmode="size", bval=3, farmer=farmer, cause=cause))
            else:
                out.append(mk([3], kind="combos", bmode="count", bval=2, farmer=farmer, cause=cause))
                out.append(mk([2], nca=1, cases=[[1], [3]], kind="combos", bmode="size", bval=3, farmer=farmer, cause=cause, shufSow=1))
    return out


def run(rep):
    q = rep.tier == "quick"
    rep.rule = ("TLC explores, per farmer kind (none / Runner / Harvester / Sampler) and failure cause (none / wrong var_names / conflicting "
                "data already on disk / data directory missing), histories of grow-subset, grow_missing, corrupt, check_bad, reap(clean_up in "
                "{None,True,False}, allow_incomplete in {False,True}), correct-the-cause, reap again; the crop directory, the outcome class, "
                "the reaped values and the harvester file are compared after every call; distinct = (configuration, call sequence, variant)")
    rep.assumptions = ["failures are provoked through the environment, never by patching xyzpy",
                       "wait=True is only meaningful with concurrent growers and is covered by C11",
                       "a DataFrame (Sampler) reap cannot fail at the build stage: extra var_names are silently ignored by the code"]
    bad = crop.run_model("MC_C12_f8", [crop.mk([], nca=1, cases=[[1], [2]], kind="samples", farmer="sampler", cause="save")],
                         acts=["grow_missing", "reap"], max_steps=2, record=False, sampler="early", workers=1)
    if bad.violated not in ("DeleteOnlyAfterDelivery", "FailedReapKeepsCrop"):
        raise tlc.TLCError("self-test failed: SamplerCleanup='early' (F8) not rejected, got %r" % bad.violated)
    rep.note("self-test: SamplerCleanup='early' (pinned reap_samples, F8) violates %s in TLC, as expected" % bad.violated)
    acts = ["grow_set", "grow_missing", "corrupt", "check_bad", "fix_cause", "reap", "reload"]
    runs = [
        dict(name="C12_direct", configs=configs(rep.tier), acts=["grow_missing", "reap", "fix_cause"], max_steps=4, mode="bfs",
             need=["DoSow", "DoGrowMissing", "ReapAny", "DoFixCause"], sample=2500 if q else 40000),
        dict(name="C12_hist", configs=configs(rep.tier), acts=acts, max_steps=7, mode="sim", num=700 if q else 8000,
             need=["GrowSetAny", "CorruptAny", "DoCheckBad", "DoReload"]),
    ]
    crop.drive(rep, runs, claims=lambda tag: tag.startswith(CLAIMS_PREFIX))
    # code -> spec: the repository's own crop / farming tests, recorded by vx/pytest_vx.py, validated by CropTrace.tla
    from .. import croptrace
    croptrace.check_repo_tests(rep, ("reap", "delete_all"))


def replay(rep, saved):
    if saved.get("kind") == "test_trace":
        from .. import croptrace
        rej, at, _ = croptrace.validate(None, [saved], name="CropTraceReplay", progress=True)
        if rej:
            rep.add_violation(saved, "recorded test trace rejected by CropTrace.tla at event %d" % at.get(1, 0))
        return
    crop.replay_saved(rep, saved, claims=lambda tag: tag.startswith(CLAIMS_PREFIX))
