"""C06 - a crop attached to a Runner, Harvester or Sampler reaps what a direct run gives.
Crop.tla (ReapEqualsDirect with farmer kinds, store delivery) composed with Sweep.tla's labelling (validated on the
direct run by C03): every replayed complete reap is compared with the spec's value map, recorded as the farmer's last
result, compared with the accumulated on-disk data, and compared (identical Dataset / equal DataFrame) with a direct
run of the same runner on the same inputs."""
from .. import crop

CLAIMS_PREFIX = ("reap_value", "reap_raise", "direct", "store", "last_result", "batches", "outcome_sow", "outcome_grow",
                 "outcome_reload", "outcome_resow", "outcome_fix_fn", "outcome_change_const", "outcome_direct_harvest", "obs_grow", "obs_sow")


def configs(tier):
    mk = crop.mk
    out = []
    i = 0
    shapes = [("combos", [2, 3], 0, []), ("combos", [3], 0, []), ("combos", [2], 1, [[3], [1]]),
              ("combos", [2, 2], 1, [[2], [1]]), ("cases", [], 2, [[1, 2], [2, 1], [2, 2]]), ("cases", [2], 1, [[3], [1]]),
              ("cases", [2, 3], 1, [[3], [1]])]
    if tier == "thorough":
        shapes += [("combos", [2, 2, 2], 0, []), ("combos", [4, 3], 0, []), ("cases", [], 1, [[v] for v in (3, 1, 4, 2, 5)])]
    for farmer in ("runner", "harvester", "sampler"):
        for kind, grid, nca, cases in shapes:
            if farmer == "sampler":
                if kind != "cases" or grid:
                    continue
                kind2 = "samples"
            else:
                kind2 = kind
            n = crop.n_of(dict(grid=grid, cases=cases))
            for bmode, bval in [("none", 1), ("size", 2), ("count", 2), ("count", n + 1), ("size", n)]:
                for sc, ss in ([(0, -1), (0, 1), (0, 2), (1, -1), (2, 1)] if kind2 == "combos" else [(0, -1), (1, -1), (2, -1)]):
                    i += 1
                    out.append(mk(grid, nca=nca, cases=cases, kind=kind2, bmode=bmode, bval=bval, bwhere=("ctor", "sow")[i % 2],
                                  shufCtor=sc, shufSow=ss, farmer=farmer))
    if True:
        for cs in ([[2], [1], [3]], [[1, 1], [2, 2], [1, 2], [2, 1]]):
            for bmode, bval in [("none", 1), ("size", 2), ("count", 2)]:
                for sc in (0, 1):
                    out.append(mk([], nca=len(cs[0]), cases=cs, kind="samples", bmode=bmode, bval=bval, shufCtor=sc, farmer="sampler"))
    return out


def campaign_configs():
    mk = crop.mk
    out = []
    for farmer in ("runner", "sampler"):
        for bmode, bval in (("none", 1), ("count", 2)):
            if farmer == "sampler":
                out.append(mk([], nca=1, cases=[[2], [1], [3]], kind="samples", bmode=bmode, bval=bval, farmer=farmer))
            else:
                out.append(mk([3], kind="combos", bmode=bmode, bval=bval, farmer=farmer))
                out.append(mk([2], nca=1, cases=[[1], [3]], kind="combos", bmode=bmode, bval=bval, farmer=farmer, shufSow=1))
    return out


def fixfn_configs():
    mk = crop.mk
    out = []
    for farmer in ("runner", "harvester"):
        for failing in ([2], [1, 3]):
            out.append(mk([3], kind="combos", bmode="count", bval=2, farmer=farmer, failing=failing))
            out.append(mk([2, 2], kind="combos", bmode="size", bval=3, farmer=farmer, failing=failing))
    return out


def variants(case, idx):
    v = crop.default_variants(case, idx)
    if case["cfg"]["farmer"] in ("runner", "harvester"):
        v["fmode"] = ["xy", "xv", "xvt", "scalar"][idx % 4]
    return v


def run(rep):
    q = rep.tier == "quick"
    rep.rule = ("TLC enumerates farmer kind x sweep shape x batching x shuffle placement and histories of grow / grow-subset / grow_missing / "
                "reload (farmer un-pickled from disk or re-attached) / re-sow / reap; each replayed reap is compared with the model's value map, "
                "the farmer's last result, the data file, and a direct run of the same runner (runner descriptions: two scalars; scalar + 1-d "
                "array with var_coords; scalar + 1-d array whose dimension is a constant; one scalar); distinct = (configuration, calls, variant)")
    rep.assumptions = ["the direct run itself is validated against Sweep.tla by C03",
                       "Sampler draws are forced through callables returning the model's cases",
                       "fresh Crop objects stand for fresh processes in the quick tier"]
    cfgs = configs(rep.tier)
    runs = [
        dict(name="C06_configs", configs=cfgs, acts=["grow_missing", "reap_default"], max_steps=2, mode="bfs",
             need=["DoSow", "DoGrowMissing", "ReapDefault"], sample=1200 if q else 10000),
        dict(name="C06_hist", configs=cfgs[::3], acts=["grow", "grow_set", "grow_missing", "reload", "resow", "reap_default", "reap_partial"],
             max_steps=6, mode="sim", num=500 if q else 6000, check=False),
        # a second campaign on the same Crop object after the farmer's constants were changed; and a corrected function
        # that reaches the workers through a re-sow
        dict(name="C06_campaigns", configs=campaign_configs(), acts=["grow_missing", "reap_default", "campaign2", "reload"],
             max_steps=8, mode="sim", num=500 if q else 4000, need=["DoChangeConst"]),
        # other data harvested directly into the same file before / after the sow must survive the crop's reap, also when
        # the crop (and with it the pickled Harvester) is reloaded by name
        dict(name="C06_direct", configs=[crop.mk([3], kind="combos", bmode="count", bval=2, farmer="harvester"),
                                         crop.mk([2], nca=1, cases=[[1], [3]], kind="combos", bmode="none", farmer="harvester", shufSow=1)],
             acts=["direct_harvest", "grow_missing", "reload", "reap_default", "reap_partial", "grow"], max_steps=6, mode="sim",
             num=300 if q else 3000, need=["DoDirectHarvest"]),
        dict(name="C06_fixfn", configs=fixfn_configs(), acts=["grow", "grow_missing", "fix_fn", "resow", "reload", "reap_default"],
             max_steps=7, mode="sim", num=300 if q else 3000, need=["DoFixFn", "DoReSow"]),
    ]
    # the farmer's constants are changed in the middle of a campaign (results exist already), the crop is sown again and batches
    # are grown again: every batch grown after the re-sow must carry the new constants, whatever result it had before
    runs.append(dict(name="C06_reconst", configs=campaign_configs() + [crop.mk([2, 2], kind="combos", bmode="size", bval=3, farmer="runner")],
                     acts=["grow", "grow_set", "grow_missing", "const_mid", "resow", "reap_default", "reap_partial"],
                     max_steps=7, mode="sim", num=400 if q else 4000, need=["DoChangeConstMid", "DoReSow"]))
    # overwrite policies with data that really conflicts: the default policy refuses, overwrite=True and overwrite=False both
    # deliver (what a direct harvest with that policy does)
    runs.append(dict(name="C06_conflict", configs=[crop.mk([3], kind="combos", bmode="count", bval=2, farmer="harvester", cause="merge"),
                                                   crop.mk([2], nca=1, cases=[[1], [3]], kind="combos", bmode="size", bval=3,
                                                           farmer="harvester", cause="merge", shufSow=1)],
                     acts=["grow_missing", "reap_default", "fix_cause", "reload"], max_steps=5, mode="bfs", need=["DoFixCause"],
                     sample=200 if q else 2000))
    crop.drive(rep, runs, claims=lambda tag: tag.startswith(CLAIMS_PREFIX), variants=variants)
    # batches grown by a pool of worker processes (the cluster-script path) whose first setting finishes last
    crop.parallel_grow_cases(rep, 2 if q else 6, farmer=True)


def replay(rep, saved):
    if saved.get("kind") == "parallel_grow":
        crop.parallel_grow_cases(rep, 2, farmer=True)
        return
    crop.replay_saved(rep, saved, claims=lambda tag: tag.startswith(CLAIMS_PREFIX))
