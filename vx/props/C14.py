"""C14 - saving and loading a dataset.  DsStore.tla (part 1) is the state machine of ONE logical
data name on disk: a single naming rule FileOf(name, engine) used at every site where xyzpy turns
the name into a file (save_ds, load_ds, save_merge_ds' exists/load, Harvester.load_full_ds /
save_full_ds / delete_ds).  TLC checks that after any history the directory holds exactly that
file with the last saved/merged content, that Load returns it and that merges see it, and emits
every history up to a length bound x name with/without extension x engine; each is replayed in a
temporary directory on the real functions, comparing directory listing and file content (read
back independently of xyzpy) after every step.  Part 2 enumerates the dataset configurations
(0-4 dims x dtypes of variables and coordinates x NaN pattern x attributes x chunks) for which
the axiom Load(Save(d)) = d is tested on the real engines, with the expected attributes (the
documented None/True/False rewriting) coming from the spec."""
import itertools
import os
import random
import shutil
import tempfile
from concurrent.futures import ThreadPoolExecutor

from .. import common, tlc

INV = ["TypeOK", "DirExact", "DiskIsWant", "LoadReturnsLast", "LoadNewReturnsLast", "LoadSibReturnsLast", "DecoyUntouched", "DecoyNeverLoaded", "MergeSeesPrevious", "DeleteWorks", "MemIsDisk"]
RTINV = ["RtIdentity", "RtLazyIsEager", "RtDir", "RtNoDeadlock"]
ALLOPS = ["Save", "Load", "LoadNew", "SaveMerge", "HarvSame", "HarvFresh", "Delete"]
SITES = ["save", "load", "loadNewTest", "mergeTest", "mergeLoad", "harvTest", "harvLoad", "harvRemove", "harvSave", "delete"]
HARV_SITES = ["harvTest", "harvLoad", "harvRemove", "harvSave"]
EXTS = ["", ".h5", ".dmp"]
DOTTED = ".5"      # the logical name 'data_T0.5' (a dot, no engine extension) with the sibling 'data_T0.25' next to it
DECOY_OPS = ["Save", "Load", "LoadNew", "SaveMerge", "HarvFresh", "Delete"]
MAGIC = ["[1]", "[T=0.5]", "*b", "?b"]   # 'data[1]' (+ 'data1'), 'sweep[T=0.5]' (+ 'sweepT'), 'a*b' / 'a?b' (+ 'axb'): literal names
SIB_EXTS = [DOTTED] + MAGIC              # names that come with a sibling name in the same directory
MAGIC_OPS_QUICK = ["Save", "Load", "LoadNew", "SaveMerge", "HarvFresh", "SaveSib"]
TEXTS = {"obj": '{"kind": "power-law"}', "emptyobj": "{}", "arr": "[1, 2]", "num": "1.5", "null": "null", "quoted": '"x"'}
DOTTED_OPS = ["Save", "Load", "LoadNew", "SaveMerge", "HarvFresh", "Delete", "SaveSib", "LoadSib"]
ENGINES = ["h5netcdf", "joblib"]
POL = {"none": None, "true": True, "false": False}


JAVA_OPTS = ("-Xmx3g", "-XX:ParallelGCThreads=2")


def _tlc(*a, **kw):
    """tlc.run_mc with modest JVM settings (many small runs are started side by side) and one retry
    when the JVM itself fails on a loaded machine (never on a parse error or an invariant violation)."""
    kw.setdefault("java_opts", JAVA_OPTS)
    try:
        return tlc.run_mc(*a, **kw)
    except tlc.TLCError as e:
        if "Parsing or semantic analysis failed" in str(e) or "Semantic errors" in str(e):
            raise
        import sys
        import time
        sys.stderr.write("TLC run failed once, retrying: %s\n" % str(e)[-400:])
        time.sleep(2.0)
        return tlc.run_mc(*a, **kw)


def _extid(ext):
    """the name flavour as part of a TLA+ module name"""
    return {"[1]": "_br1", "[T=0.5]": "_brT", "*b": "_star", "?b": "_qm"}.get(ext, ext.replace(".", "_"))


def _name_of(ext):
    return {".5": "data_T0.5", "[1]": "data[1]", "[T=0.5]": "sweep[T=0.5]", "*b": "a*b", "?b": "a?b"}.get(ext, "data" + ext)


def _set(x):
    return set(x) if x else tlc.Raw("{}")


def run_naming(ext, eng, maxlen, pols=("none",), raw=(), deff=(), emit=False, tag="", namerule="append", ctor=None, ctorsites=(),
               decoy="none", bare=(), globsites=(), ops=None, **kw):
    consts = dict(NameExt=ext, NameRule=namerule, Engine=eng, CtorEngine=ctor or eng, CtorEngSites=_set(ctorsites),
                  MaxLen=maxlen, Policies=_set(pols),
                  Decoy=decoy, BareIfExistsSites=_set(bare), GlobSites=_set(globsites),
                  OpsOn=_set(ops or (DECOY_OPS if decoy != "none" else DOTTED_OPS if ext in SIB_EXTS else ALLOPS)),
                  RawSites=_set(raw), DefEngSites=_set(deff), RtRule="ok", RmRule="ok")
    tail = "".join("INVARIANT %s\n" % i for i in INV) + ("INVARIANT EmitCase\n" if emit else "") + "CHECK_DEADLOCK FALSE\n"
    return _tlc("DsStore", consts, tail, name="MC_DsStore_%s%s_%s%s" % (eng, _extid(ext), tag, ("_ctor" if ctor else "") + ("_" + decoy if decoy != "none" else "")), **kw)


def run_rt(ext, eng, rule="ok", emit=False, **kw):
    consts = dict(NameExt=ext, NameRule="append", Engine=eng, CtorEngine=eng, CtorEngSites=_set([]), Decoy="none",
                  BareIfExistsSites=_set([]), GlobSites=_set([]), MaxLen=0, Policies=_set(["none"]), OpsOn=_set([]),
                  RawSites=_set([]), DefEngSites=_set([]), RtRule=rule, RmRule="ok")
    tail = "INIT RtInit\nNEXT RtNext\n" + "".join("INVARIANT %s\n" % i for i in RTINV) \
        + ("INVARIANT RtEmit\n" if emit else "") + "CHECK_DEADLOCK FALSE\n"
    return _tlc("DsStore", consts, tail, name="MC_DsStoreRt_%s%s_%s" % (eng, _extid(ext), rule), **kw)


def run_rm(eng, rule="ok", emit=False, **kw):
    consts = dict(NameExt="", NameRule="append", Engine=eng, CtorEngine=eng, CtorEngSites=_set([]), Decoy="none",
                  BareIfExistsSites=_set([]), GlobSites=_set([]), MaxLen=0, Policies=_set(["none"]), OpsOn=_set([]),
                  RawSites=_set([]), DefEngSites=_set([]), RtRule="ok", RmRule=rule)
    tail = "INIT RmInit\nNEXT RmNext\nINVARIANT RmIdentity\nINVARIANT RmDir\n" + ("INVARIANT RmEmit\n" if emit else "") \
        + "CHECK_DEADLOCK FALSE\n"
    return _tlc("DsStore", consts, tail, name="MC_DsStoreRm_%s_%s" % (eng, rule), **kw)


# ---------------------------------------------------------------------------
# part 1: replay of a naming history

def piece_ds(p):
    import xarray as xr
    return xr.Dataset({"v": ("x", [10.0 * p + 1.0])}, coords={"x": [p]})


def raw_read(path):
    """Read a stored dataset WITHOUT xyzpy: (format, {piece: value})."""
    import joblib
    import numpy as np
    import xarray as xr
    if os.path.isdir(path):
        return "dir", {}
    with open(path, "rb") as fh:
        sig = fh.read(8)
    if sig == b"\x89HDF\r\n\x1a\n":
        fmt = "h5netcdf"
        with xr.open_dataset(path, engine="h5netcdf") as ds:
            ds = ds.load()
    else:
        fmt = "joblib"
        ds = joblib.load(path)
    return fmt, pieces_of(ds)


def pieces_of(ds):
    import numpy as np
    out = {}
    if "v" not in ds or "x" not in ds.coords:
        return out
    for x, v in zip(np.asarray(ds["x"].values).tolist(), np.asarray(ds["v"].values).tolist()):
        if v == v:
            out[int(x)] = float(v)
    return out


def _as_dict(d):
    return dict(d) if isinstance(d, dict) else {}


def check_hist(c):
    """Replay one emitted history.  Returns a list of (key-dict, message) (at most one: the first
    step at which the real code leaves the behaviour the property demands)."""
    xyz = common.use_repo()
    ext, eng = c["ext"], c["engine"]
    name = c.get("name", "data" + ext)
    sib = c.get("sib")
    ctor = c.get("ctor", eng)
    td = tempfile.mkdtemp(prefix="c14-", dir=common.scratch("c14"))
    cwd = os.getcwd()
    os.chdir(td)
    h = None
    runner = xyz.Runner(lambda x: 10.0 * x + 1.0, var_names="v")
    decoy = c.get("decoy", "none")
    try:
        # an unrelated entry called exactly like the bare name: a folder, or an older dataset (piece 99) that was
        # saved under a name with an explicit extension and then renamed
        if decoy == "dir":
            os.mkdir(name)
        elif decoy == "file":
            old = "older" + (".h5" if eng == "h5netcdf" else ".dmp")
            xyz.save_ds(piece_ds(99), old, engine=eng)
            os.rename(old, name)
        for n, st in enumerate(c["hist"]):
            op = st["op"]
            got_st, got_val, exc = "ok", None, None
            if op not in ALLOPS + DOTTED_OPS:
                raise RuntimeError("harness: unknown op %r" % op)
            try:
                if op == "Save":
                    xyz.save_ds(piece_ds(st["p"]), name, engine=eng)
                elif op == "Load":
                    lds = xyz.load_ds(name, engine=eng, chunks=(1 if st.get("ch") == "int" else None))
                    try:
                        got_val = pieces_of(lds)
                    finally:
                        lds.close()
                elif op == "SaveSib":
                    xyz.save_ds(piece_ds(st["p"]), sib, engine=eng)
                elif op == "LoadSib":
                    got_val = pieces_of(xyz.load_ds(sib, engine=eng))
                elif op == "LoadNew":
                    lds = xyz.load_ds(name, engine=eng, create_new=True, chunks=(1 if st["ch"] == "int" else None))
                    try:
                        blank = len(lds.data_vars) == 0 and len(lds.coords) == 0 and len(lds.sizes) == 0
                        got_val = pieces_of(lds)
                    finally:
                        lds.close()
                    if blank:
                        got_st = "blank"
                elif op == "SaveMerge":
                    xyz.save_merge_ds(piece_ds(st["p"]), name, overwrite=POL[st["pol"]], engine=eng)
                elif op in ("HarvFresh", "HarvSame"):
                    if op == "HarvFresh" or h is None:
                        h = xyz.Harvester(runner, data_name=name, engine=ctor)
                    if ctor == eng:
                        h.add_ds(piece_ds(st["p"]), overwrite=POL[st["pol"]])
                    else:   # the engine is given with the call, not (only) at construction
                        h.add_ds(piece_ds(st["p"]), overwrite=POL[st["pol"]], engine=eng)
                elif op == "Delete":
                    (h if (h is not None and ctor == eng) else xyz.Harvester(runner, data_name=name, engine=eng)).delete_ds()
                    h = None
            except Exception as e:  # noqa
                got_st, exc = "raises", "%s: %s" % (type(e).__name__, str(e)[:160])
            where = "step %d (%s%s) of %s with name %r%s, engine %s" % (
                n + 1, op, "" if st["pol"] == "none" else ", overwrite=%s" % POL[st["pol"]],
                [s["op"] for s in c["hist"]], name, (" (sibling %r)" % sib) if ext in SIB_EXTS else "",
                eng if ctor == eng else "%s given per call (Harvester constructed with %s)" % (eng, ctor))
            if decoy != "none":
                where += ", next to %s called %r" % ("a folder" if decoy == "dir" else "an older dataset file (piece 99)", name)
            key = dict(part="naming", op=op, percall=(ctor != eng), decoy=decoy, hasext=ext in (".h5", ".dmp"), dotted=(ext == DOTTED), magic=(ext in MAGIC), engine=eng)
            want_st = st["st"] if st["st"] in ("ok", "blank") else "raises"
            if got_st != want_st:
                if got_st == "blank":
                    return [(dict(key, what="blank"), "%s: load_ds(create_new=True) returned a blank dataset although %r holds the "
                             "saved content %r" % (where, sorted(os.listdir(td)), sorted(st.get("val", []))))]
                if want_st == "blank":
                    return [(dict(key, what="not-blank"), "%s: load_ds(create_new=True) did not return a blank dataset (%s) although "
                             "nothing was saved" % (where, exc or got_val))]
                if got_st == "raises":
                    return [(dict(key, what="raises"), "%s: raised %s where the operation must succeed" % (where, exc))]
                return [(dict(key, what="no-error"), "%s: succeeded although no file of that name exists" % where)]
            listing = sorted(os.listdir(td))
            if listing != sorted(st["dir"]):
                return [(dict(key, what="directory"), "%s: directory holds %r, the naming rule gives %r" % (where, listing, sorted(st["dir"])))]
            want_disk = {f: sorted(v) for f, v in _as_dict(st["disk"]).items()}
            for f in listing:
                fmt, pcs = raw_read(os.path.join(td, f))
                if sorted(pcs) != want_disk.get(f, []):
                    return [(dict(key, what="content"), "%s: %s holds the pieces %r, the last saved/merged content is %r"
                             % (where, f, sorted(pcs), want_disk.get(f, [])))]
                if any(abs(v - (10.0 * p + 1.0)) > 0 for p, v in pcs.items()):
                    return [(dict(key, what="values"), "%s: %s holds changed values %r" % (where, f, pcs))]
            if op in ("Load", "LoadNew", "LoadSib") and want_st == "ok":
                if sorted(got_val) != sorted(st["val"]):
                    return [(dict(key, what="loaded"), "%s: load_ds returned the pieces %r, last saved/merged content is %r"
                             % (where, sorted(got_val), sorted(st["val"])))]
                if any(abs(v - (10.0 * p + 1.0)) > 0 for p, v in got_val.items()):
                    return [(dict(key, what="values"), "%s: load_ds returned changed values %r" % (where, got_val))]
        return []
    finally:
        if h is not None and getattr(h, "_full_ds", None) is not None:
            try:
                h._full_ds.close()
            except Exception:  # noqa
                pass
        os.chdir(cwd)
        shutil.rmtree(td, ignore_errors=True)


# ---------------------------------------------------------------------------
# part 2: the axiom Load(Save(d)) = d on the real engines

def coord_values(dt, d):
    import numpy as np
    return {"int": np.array([3 + d, 1 + d]), "float": np.array([0.5 + d, -1.25]),
            "complex": np.array([1 + 2j, 3 - 1j * (d + 1)]), "bool": np.array([True, False]),
            "str": np.array(["b%d" % d, "a"])}[dt]


def data_values(dt, shape, nan, salt=0):
    import numpy as np
    n = 1
    for s in shape:
        n *= s
    i = np.arange(n) + salt
    if dt == "int":
        a = i * 3 - 2
    elif dt == "float":
        a = i * 0.5 - 1.0
    elif dt == "complex":
        a = i * (0.5 + 1j) - 1.0
    elif dt == "bool":
        a = i % 3 == 0
    else:
        a = np.array(["s%d" % k for k in i])
    a = a.reshape(shape)
    if dt in ("float", "complex"):
        if nan == "some":
            a = a.copy()
            a.flat[0] = np.nan
            if n > 2:
                a.flat[n - 1] = np.nan
        elif nan == "all":
            a = np.full(shape, np.nan, dtype=a.dtype)
    return a


def attr_value(tok):
    kind, _, val = tok.partition(":")
    if kind == "py":
        return {"None": None, "True": True, "False": False}[val]
    if kind == "int":
        return int(val)
    if kind == "npint":
        import numpy as np
        return np.int64(val)
    if kind == "float":
        return float(val)
    if kind == "str":
        return val
    if kind == "text":          # a plain string that happens to look like a serialised value
        return TEXTS[val]
    if kind == "seq":
        return [int(x) for x in val.split(",")]
    raise RuntimeError("harness: unknown attribute token %r" % tok)


def attr_matches(tok, val):
    import numpy as np
    kind, _, w = tok.partition(":")
    if kind == "py":
        want = {"None": None, "True": True, "False": False}[w]
        if want is None:
            return val is None
        return isinstance(val, (bool, np.bool_)) and bool(val) is want
    if kind == "str":
        return isinstance(val, str) and val == w
    if kind == "text":
        return isinstance(val, str) and val == TEXTS[w]
    if isinstance(val, (str, bytes)) or val is None:
        return False
    if kind in ("int", "float", "npint"):
        return np.ndim(val) == 0 and not isinstance(val, (bool, np.bool_)) and float(val) == float(w)
    if kind == "seq":
        return np.asarray(val).ravel().tolist() == [int(x) for x in w.split(",")]
    return False


def build_cfg_ds(cfg, attrs):
    import xarray as xr
    nd = cfg["nd"]
    dims = ["d%d" % i for i in range(nd)]
    coords = {d: coord_values(cfg["cdt"], i) for i, d in enumerate(dims)}
    dv = {"v": (dims, data_values(cfg["vdt"], (2,) * nd, cfg["nan"]))}
    if nd:
        # a second variable of the coordinate's dtype along the last dimension only
        dv["w"] = (dims[-1:], data_values(cfg["cdt"], (2,), "some" if cfg["nan"] != "none" else "none", salt=5))
    return xr.Dataset(coords=coords, data_vars=dv, attrs={k: attr_value(t) for k, t in _as_dict(attrs).items()})


def same_values(a, b):
    import numpy as np
    a, b = np.asarray(a), np.asarray(b)
    if a.shape != b.shape:
        return False
    if a.dtype.kind in "fc" or b.dtype.kind in "fc":
        try:
            return bool(np.array_equal(a, b, equal_nan=True))
        except TypeError:
            return False
    if a.dtype.kind in "USO" or b.dtype.kind in "USO":
        return [str(x) for x in a.ravel().tolist()] == [str(x) for x in b.ravel().tolist()]
    return bool(np.array_equal(a, b))


def compare_ds(orig, got, expect_attrs, label):
    """None or (what, message): dims, coords, variables, values, attributes."""
    if dict(orig.sizes) != dict(got.sizes):
        return ("dims", "%s: dimensions %r, saved %r" % (label, dict(got.sizes), dict(orig.sizes)))
    if set(orig.coords) != set(got.coords):
        return ("coords", "%s: coordinates %r, saved %r" % (label, sorted(got.coords), sorted(orig.coords)))
    if set(orig.data_vars) != set(got.data_vars):
        return ("variables", "%s: variables %r, saved %r" % (label, sorted(got.data_vars), sorted(orig.data_vars)))
    for k in list(orig.coords) + list(orig.data_vars):
        if tuple(orig[k].dims) != tuple(got[k].dims):
            return ("dims", "%s: %r has dimensions %r, saved %r" % (label, k, got[k].dims, orig[k].dims))
        if not same_values(orig[k].values, got[k].values):
            return ("values", "%s: values of %r are %r, saved %r" % (label, k, got[k].values.tolist(), orig[k].values.tolist()))
    if expect_attrs is not None:
        exp = _as_dict(expect_attrs)
        if set(exp) != set(got.attrs):
            return ("attrs", "%s: attributes %r, expected keys %r" % (label, dict(got.attrs), sorted(exp)))
        for k, tok in exp.items():
            if not attr_matches(tok, got.attrs[k]):
                return ("attrs", "%s: attribute %r is %r (%s), expected %s" % (label, k, got.attrs[k], type(got.attrs[k]).__name__, tok))
    return None


def check_rt(c):
    xyz = common.use_repo()
    import numpy as np  # noqa
    cfg, eng, ext = c["cfg"], c["engine"], c["ext"]
    name = c.get("name", "data" + ext)
    key = dict(part="roundtrip", engine=eng, vdt=cfg["vdt"], cdt=cfg["cdt"])
    td = tempfile.mkdtemp(prefix="c14-", dir=common.scratch("c14"))
    cwd = os.getcwd()
    os.chdir(td)
    opened = []
    notes = []
    try:
        orig = build_cfg_ds(cfg, c["attrs"])
        tosave = orig.copy(deep=True)
        tosave.attrs = dict(orig.attrs)
        label = "save_ds/load_ds(%r, engine=%s) of a %d-d %s dataset with %s coordinates, NaNs=%s, attrs=%s" % (
            name, eng, cfg["nd"], cfg["vdt"], cfg["cdt"], cfg["nan"], cfg["attrs"])
        try:
            xyz.save_ds(tosave, name, engine=eng)
        except Exception as e:  # noqa
            return [(dict(key, what="save-raises"), "%s: save_ds raised %s: %s" % (label, type(e).__name__, str(e)[:200]))], notes
        listing = sorted(os.listdir(td))
        if listing != [c["file"]]:
            return [(dict(key, what="directory"), "%s: directory holds %r, the naming rule gives %r" % (label, listing, [c["file"]]))], notes
        try:
            eager = xyz.load_ds(name, engine=eng)
            opened.append(eager)
        except Exception as e:  # noqa
            return [(dict(key, what="load-raises"), "%s: load_ds raised %s: %s" % (label, type(e).__name__, str(e)[:200]))], notes
        bad = compare_ds(orig, eager, c["expect"], label)
        if bad:
            return [(dict(key, what=bad[0]), bad[1])], notes
        for k in list(orig.data_vars) + list(orig.coords):
            if orig[k].dtype != eager[k].dtype:
                notes.append("dtype of %s %s -> %s with %s (values equal)" % (
                    "coordinate" if k in orig.coords else "variable", orig[k].dtype.kind, eager[k].dtype.kind, eng))
        if cfg["chunks"] != "none":
            chunks = 1 if cfg["chunks"] == "int" else {"d0": 1}
            try:
                lazy = xyz.load_ds(name, engine=eng, chunks=chunks)
                opened.append(lazy)
                bad = compare_ds(eager, lazy, None, label + ", chunks=%r vs in-memory load" % (chunks,))
            except Exception as e:  # noqa
                return [(dict(key, what="lazy-raises", chunks=cfg["chunks"]),
                         "%s: load_ds(chunks=%r) raised %s: %s" % (label, chunks, type(e).__name__, str(e)[:200]))], notes
            if bad:
                return [(dict(key, what="lazy-" + bad[0], chunks=cfg["chunks"]), bad[1])], notes
        # what a program does to the dataset it loaded (values overwritten in place) is not what the untouched file holds:
        # a second load in the same process must again give what was saved
        touched = False
        for v_ in eager.data_vars:
            try:
                arr_ = eager[v_].values
                if arr_.dtype.kind in "fciu" and arr_.size:
                    arr_[...] = 0
                    touched = True
            except Exception:  # noqa  (read-only buffers: nothing was modified)
                pass
        if touched:
            try:
                again = xyz.load_ds(name, engine=eng)
                opened.append(again)
            except Exception as e:  # noqa
                return [(dict(key, what="reload-raises"), "%s: a second load_ds raised %s: %s" % (label, type(e).__name__, str(e)[:200]))], notes
            bad = compare_ds(orig, again, c["expect"], label + ", loaded a second time after the first loaded copy was overwritten in place")
            if bad:
                return [(dict(key, what="reload-" + bad[0]), bad[1])], notes
        return [], notes
    finally:
        for o in opened:
            try:
                o.close()
            except Exception:  # noqa
                pass
        os.chdir(cwd)
        shutil.rmtree(td, ignore_errors=True)


RM_EXPECT = {   # (target, change) -> piece merged in, dataset handed to the save
    ("coord", "frac"): (([2.5], [25]), ([1.0, 2.0, 2.5], [10.0, 20.0, 25.0])),
    ("var", "frac"): (([3], [2.5]), ([1.0, 2.0, 3.0], [10.0, 20.0, 2.5])),
    ("var", "wholenan"): (([3], [float("nan")]), ([1.0, 2.0, 3.0], [10.0, 20.0, float("nan")])),
}


def check_rm(c):
    """save (integers) -> load (memory / chunks) -> extend (floats) -> save -> load: what was handed to the second
    save must be what the second load returns."""
    xyz = common.use_repo()
    import numpy as np
    import xarray as xr
    cfg, eng, name = c["rm"], c["engine"], c.get("name", "data")
    (px, pv), (wx, wv) = RM_EXPECT[(cfg["target"], cfg["change"])]
    chunks = {"none": None, "int": 1, "dict": {"x": 1}}[cfg["chunks"]]
    key = dict(part="reload", engine=eng, target=cfg["target"], change=cfg["change"], chunks=cfg["chunks"], saver=cfg["saver"])
    label = "save_ds(integers) -> load_ds(chunks=%r) -> extend with %s (%s) -> %s -> load_ds" % (
        chunks, "fractional values" if cfg["change"] == "frac" else "whole numbers and NaN", cfg["target"], cfg["saver"])
    td = tempfile.mkdtemp(prefix="c14-", dir=common.scratch("c14"))
    cwd = os.getcwd()
    os.chdir(td)
    opened = []
    try:
        ds0 = xr.Dataset({"v": ("x", np.array([10, 20]))}, coords={"x": np.array([1, 2])})
        piece = xr.Dataset({"v": ("x", np.array(pv))}, coords={"x": np.array(px)})
        try:
            xyz.save_ds(ds0, name, engine=eng)
            if cfg["saver"] == "save_ds":
                l = xyz.load_ds(name, engine=eng, chunks=chunks)
                opened.append(l)
                if cfg["target"] == "var":
                    # the user extends the loaded dataset along x: the new slot is NaN, or is then filled in
                    ext = l.reindex(x=[1, 2, 3]).load()
                    if cfg["change"] == "frac":
                        ext["v"].loc[{"x": 3}] = 2.5
                else:
                    ext = xr.merge([l, piece]).load()
                l.close()
                xyz.save_ds(ext, name, engine=eng)
            elif cfg["saver"] == "save_merge_ds":
                xyz.save_merge_ds(piece, name, engine=eng)
            else:
                runner = xyz.Runner(lambda x: 1.0 * x, var_names="v")
                h = xyz.Harvester(runner, data_name=name, engine=eng, chunks=chunks)
                h.add_ds(piece)
                if h._full_ds is not None:
                    opened.append(h._full_ds)
            for o in opened:
                o.close()
            got = xyz.load_ds(name, engine=eng)
        except Exception as e:  # noqa
            return [(dict(key, what="raises"), "%s: raised %s: %s" % (label, type(e).__name__, str(e)[:200]))]
        if sorted(os.listdir(td)) != [c["file"]]:
            return [(dict(key, what="directory"), "%s: directory holds %r" % (label, sorted(os.listdir(td))))]
        gx = np.asarray(got["x"].values, dtype=float) if "x" in got.coords else None
        gv = np.asarray(got["v"].values, dtype=float) if "v" in got else None
        if gx is None or gv is None or not np.array_equal(gx, np.array(wx)) or not np.array_equal(gv, np.array(wv), equal_nan=True):
            return [(dict(key, what="values"), "%s: loaded x=%r v=%r, the dataset saved had x=%r v=%r" % (
                label, None if gx is None else got["x"].values.tolist(), None if gv is None else got["v"].values.tolist(), wx, wv))]
        return []
    finally:
        for o in opened:
            try:
                o.close()
            except Exception:  # noqa
                pass
        os.chdir(cwd)
        shutil.rmtree(td, ignore_errors=True)


def _chk(c):
    try:
        if "rm" in c:
            return (c, check_rm(c), [], None)
        if "hist" in c:
            return (c, check_hist(c), [], None)
        bad, notes = check_rt(c)
        return (c, bad, notes, None)
    except Exception as e:  # harness failure
        import traceback
        return (c, [], [], "%s\n%s" % (e, traceback.format_exc()))


# ---------------------------------------------------------------------------

def run(rep):
    thorough = rep.tier == "thorough"
    rnd = random.Random(rep.seed)
    len_a, len_b = (5, 3) if thorough else (4, 2)
    rep.rule = ("part 1: DsStore.tla explores every history of Save/Load/LoadNew(create_new)/SaveMerge/HarvFresh/HarvSame/Delete of length "
                "%d (overwrite=None; one less for the names that carry an extension; quick tier: also for 'data' with h5netcdf) and %d (all three policies) "
                "for name in {data, data.h5, data.dmp, data_T0.5 (+ sibling data_T0.25 in the same directory), literal names with glob "
                "metacharacters data[1] (+ data1), sweep[T=0.5] (+ sweepT), a*b / a?b (+ axb)} x engine in "
                "{h5netcdf, joblib}; a history is non-trivial when it contains a merge or delete after a save; part 2: "
                "every (ndim 0-4, variable dtype, coordinate dtype, NaN pattern, attribute set, chunks) configuration; "
                "distinct = distinct (name, engine, history) resp. (name, engine, configuration)" % (len_a, len_b))
    rep.assumptions = [
        "file content is uninterpreted in the model (sets of disjoint pieces); value identity Load(Save(d)) = d is an "
        "axiom of the model and is what the harness tests on the real engines for the enumerated configurations",
        "engines h5netcdf and joblib only (netcdf4, zarr are not importable here)",
        "pieces written by different steps never overlap, so the three merge policies give the same content (conflict "
        "semantics belong to C05)",
        "dtype widening on disk, str -> object dtype, list attributes read back as arrays are notes, not violations, "
        "as long as values are equal",
        "after Delete the Harvester object is dropped (a new one is created by the next harvest step)",
        "the decoy entry (folder / older dataset file named exactly like the extension-less name) is present from the start of "
        "a history and only for names without an engine extension; those histories use Save/Load/LoadNew/SaveMerge/HarvFresh/Delete",
    ]
    if not thorough:
        rep.assumptions.append("quick tier: round-trip configurations are a seeded sample of the emitted set (TLC enumerates all)")
    common.scratch_root()
    combos = list(itertools.product(EXTS, ENGINES))
    jobs = {}
    with ThreadPoolExecutor(max_workers=max(2, common.NCPU)) as ex:
        for ext, eng in combos:
            # quick tier: the longest histories only for the extension-less name (where the sites can
            # disagree) with the cheap engine
            la = len_a if (ext == "" and (thorough or eng == "joblib")) else len_a - 1
            jobs[("A", ext, eng)] = ex.submit(run_naming, ext, eng, la, ("none",), emit=True, tag="A", workers=1, coverage=True)
            jobs[("B", ext, eng)] = ex.submit(run_naming, ext, eng, len_b, ("none", "true", "false"), emit=True, tag="B", workers=1, coverage=True)
            jobs[("rt", ext, eng)] = ex.submit(run_rt, ext, eng, emit=True, workers=1, coverage=True)
        for eng in ENGINES:
            jobs[("A", DOTTED, eng)] = ex.submit(run_naming, DOTTED, eng, len_a - 1, ("none",), emit=True,
                                                 tag="A", workers=1, coverage=True)
        # the engine given with the call differs from the one the Harvester was constructed with
        for eng, ctor in ([("joblib", "h5netcdf"), ("h5netcdf", "joblib")] if thorough else [("joblib", "h5netcdf")]):
            jobs[("C", "", eng)] = ex.submit(run_naming, "", eng, len_a - 1, ("none",), emit=True, tag="C", ctor=ctor,
                                             workers=1, coverage=True)
        jobs[("ctorsites", "all")] = ex.submit(run_naming, "", "joblib", 3, ctor="h5netcdf", ctorsites=HARV_SITES, tag="ctorsites", workers=1)
        # an unrelated folder / older dataset file called exactly like the extension-less name sits in the directory
        dcombos = [(e, g, d) for e in ("", DOTTED) for g in ENGINES for d in ("dir", "file")]
        if not thorough:
            dcombos = [("", "h5netcdf", "file"), ("", "joblib", "dir"), (DOTTED, "joblib", "file")]
        for e, g, d in dcombos:
            jobs[("D" + d, e, g)] = ex.submit(run_naming, e, g, len_a - 1, ("none",), emit=True, tag="D", decoy=d,
                                              workers=1, coverage=True)
        jobs[("bare", "load")] = ex.submit(run_naming, "", "joblib", 3, decoy="file", bare=["load"], tag="bareload", workers=1)
        # literal names containing glob metacharacters, each with a sibling the pattern would match
        mcombos = [(e, g) for e in MAGIC for g in ENGINES] if thorough else [("[1]", "h5netcdf"), ("[T=0.5]", "joblib"), ("*b", "joblib")]
        for e, g in mcombos:
            jobs[("M", e, g)] = ex.submit(run_naming, e, g, len_a - 1, ("none",), emit=True, tag="M", workers=1, coverage=True,
                                          ops=None if thorough else MAGIC_OPS_QUICK)
        jobs[("glob", "load")] = ex.submit(run_naming, "[1]", "h5netcdf", 3, globsites=["load"], tag="glob", workers=1)
        jobs[("rm", "", "h5netcdf")] = ex.submit(run_rm, "h5netcdf", emit=True, workers=1, coverage=True)
        jobs[("rm", "", "joblib")] = ex.submit(run_rm, "joblib", emit=True, workers=1, coverage=True)
        for rule in ("wholeKeepsInt", "dropOnEagerLoadOnly"):
            jobs[("rmrule", rule)] = ex.submit(run_rm, "h5netcdf", rule=rule, workers=1)
        jobs[("namerule", "splitext")] = ex.submit(run_naming, DOTTED, "h5netcdf", 3, namerule="splitext", tag="splitext", workers=1)
        # deviating implementations the invariants must reject
        jobs[("pinned", "", "h5netcdf")] = ex.submit(run_naming, "", "h5netcdf", 3, raw=["mergeTest", "harvTest", "harvRemove"],
                                                    deff=["mergeLoad"], tag="pinned", workers=1)
        jobs[("pinned", ".dmp", "joblib")] = ex.submit(run_naming, ".dmp", "joblib", 3, raw=["mergeTest", "harvTest", "harvRemove"],
                                                      deff=["mergeLoad"], tag="pinned", workers=1)
        for site in SITES:
            jobs[("site", site)] = ex.submit(run_naming, "", "joblib", 3, raw=[site], tag="raw_" + site, workers=1)
        for rule, eng in (("rewriteAlways", "joblib"), ("rewriteNever", "h5netcdf"), ("rewriteByEquality", "h5netcdf"),
                          ("decodeJsonText", "h5netcdf"),
                          ("lazyStale", "h5netcdf")):
            jobs[("rtrule", rule)] = ex.submit(run_rt, "", eng, rule=rule, workers=1)
        results = {k: f.result() for k, f in jobs.items()}
    for k, r in results.items():
        if k[0] in ("pinned", "rtrule", "namerule", "ctorsites", "bare", "glob", "rmrule") or (k[0] == "site" and k[1] != "harvRemove"):
            if r.violated is None:
                raise tlc.TLCError("self-test failed: deviating model %r is not rejected by the invariants" % (k,))
    rep.note("self-test: TLC rejects the pinned naming (%s for 'data'/h5netcdf, %s for 'data.dmp'/joblib), every single site "
             "using the raw name (%s) and the round-trip rules %s; harvRemove alone is benign (save overwrites): %s" % (
                 results[("pinned", "", "h5netcdf")].violated, results[("pinned", ".dmp", "joblib")].violated,
                 ", ".join("%s:%s" % (s, results[("site", s)].violated) for s in SITES if s != "harvRemove"),
                 ", ".join("%s:%s" % (k[1], r.violated) for k, r in results.items() if k[0] == "rtrule"),
                 results[("site", "harvRemove")].violated))
    rep.note("self-test: TLC rejects NameRule='splitext' (unknown suffix replaced by the extension) for 'data_T0.5': %s; "
             "and Harvester sites using the constructor's engine instead of the call's: %s"
             % (results[("namerule", "splitext")].violated, results[("ctorsites", "all")].violated))
    rep.note("self-test: TLC rejects load_ds expanding a name with glob metacharacters as a pattern: %s" % results[("glob", "load")].violated)
    rep.note("self-test: TLC rejects load_ds using the bare name when an older dataset file of that name exists: %s"
             % results[("bare", "load")].violated)
    hists, rts, rms = [], [], []
    for (kind, ext, eng), r in [(k, r) for k, r in results.items() if k[0] in ("A", "B", "C", "Ddir", "Dfile", "M", "rt", "rm")]:
        rep.add_tlc("DsStore %s name=%s engine=%s" % ({"A": "naming", "B": "naming+policies", "C": "naming, engine per call", "Ddir": "naming, folder of the bare name present",
                                                        "Dfile": "naming, older file of the bare name present",
                                                        "M": "naming, glob metacharacters in the name", "rt": "round-trip",
                                                        "rm": "load-modify-save"}[kind],
                                                       _name_of(ext), eng), r)
        if r.violated:
            raise tlc.TLCError("DsStore.tla: invariant %s violated (%s, data%s, %s)" % (r.violated, kind, ext, eng))
        need = ["RtSave", "RtLoadEager", "RtLoadLazy"] if kind == "rt" else ["RmSave1", "RmLoad1", "RmModify", "RmSave2", "RmLoad2"] if kind == "rm" else ["Save", "Load", "LoadNew", "SaveMerge", "HarvSync", "Delete"]
        if ext in SIB_EXTS and not kind.startswith("D"):
            need += ["SaveSib"] + (["LoadSib"] if (thorough or kind != "M") else [])
        if kind == "M" and not thorough:
            need.remove("Delete")
        for act in need:
            if r.coverage.get(act, (0, 0))[1] == 0:
                raise tlc.TLCError("vacuous: action %s never taken (%s, data%s, %s)" % (act, kind, ext, eng))
        if not r.cases:
            raise tlc.TLCError("no case emitted (%s, data%s, %s)" % (kind, ext, eng))
        (rts if kind == "rt" else rms if kind == "rm" else hists).extend(r.cases)
    # histories of run B that only use overwrite=None duplicate prefixes of run A: keep them, they are cheap
    rep.extra["histories"] = len(hists)
    rep.extra["roundtrip_configs_emitted"] = len(rts)
    if not thorough:
        rts = rnd.sample(rts, min(len(rts), 1400))
    rep.extra["roundtrip_configs_replayed"] = len(rts)
    # binding self-test: corrupted expectations must be rejected by the replay
    import copy
    probe = next(c for c in hists if c["ext"] == ".h5" and c["engine"] == "h5netcdf"
                 and [s["op"] for s in c["hist"]][:2] == ["Save", "SaveMerge"])
    bad1 = copy.deepcopy(probe)
    bad1["hist"][1]["disk"] = {probe["file"]: [2]}
    bad2 = copy.deepcopy(probe)
    bad2["hist"][0]["dir"] = ["data"]
    rtp = next(c for c in rts if c["engine"] == "joblib" and c["cfg"]["attrs"] == "flags")
    bad3 = copy.deepcopy(rtp)
    bad3["expect"] = dict(rtp["expect"], n="str:None")
    if check_hist(probe) or check_rt(rtp)[0]:
        rep.note("binding self-test skipped: a probe case itself fails on this tree")
    elif not (check_hist(bad1) and check_hist(bad2) and check_rt(bad3)[0]):
        raise RuntimeError("binding self-test failed: replay accepts a corrupted expectation")
    else:
        rep.note("binding self-test: corrupted content / directory / attribute expectations are rejected by the replay")
    res = common.pmap(_chk, hists + rts + rms)
    notes = {}
    for c, bad, nts, err in res:
        if err:
            raise RuntimeError("harness failure on case %r: %s" % (c, err))
        if "rm" in c:
            rep.add_case(["rm", c["engine"], c["rm"]], sample=None)
        elif "hist" in c:
            ops = [s["op"] for s in c["hist"]]
            nontrivial = any(o in ("SaveMerge", "HarvFresh", "HarvSame", "Delete") for o in ops[1:])
            rep.add_case(["hist", c["ext"], c["engine"], c.get("ctor"), c.get("decoy"), [(s["op"], s["pol"]) for s in c["hist"]]], nontrivial=nontrivial,
                         sample=c if (len(rep.samples) < 2 and nontrivial) else None)
        else:
            rep.add_case(["rt", c["ext"], c["engine"], c["cfg"]], sample=c if len(rep.samples) < 4 else None)
        for n in nts:
            notes[n] = notes.get(n, 0) + 1
        for key, msg in bad:
            rep.add_violation(c, msg, key=key)
    for n, k in sorted(notes.items()):
        rep.note("model_drift (not a violation): %s [%d configurations]" % (n, k))
    rep.exhaustive = thorough


def replay(rep, case):
    if "rm" in case:
        bad = check_rm(case)
    elif "hist" in case:
        bad = check_hist(case)
    else:
        bad, _ = check_rt(case)
    for key, msg in bad:
        rep.add_violation(case, msg, key=key)
