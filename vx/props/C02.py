"""C02 - sparse cases run only what was asked and leave every other slot missing.
Sweep.tla (ExactlyOnce, Placement with Missing, UnionAxes, RejectBeforeRun) + replay into
combo_runner(cases=...) / case_runner with every placeholder kind."""
import itertools

from .. import sweep

ASSUME = [
    "case values are value indices mapped to concrete ints/floats/strings whose sort order equals the index order",
    "placeholder kinds exercised: NaN (number), None (str / bool), tuple of NaN arrays shaped like the result (tuple / array / nested list)",
    "cases over more than 2 arguments and sub-grids over more than 1 argument are explored by TLC -simulate only",
]


def runs(tier):
    mk, case_sets = sweep.mk, sweep.case_sets
    out = []
    # one case argument: all ordered sets of <= 3 distinct cases over 3 values, optional 1-arg sub-grid
    cfgs = []
    i = 0
    for cs in case_sets(1, 3, 3):
        for g in ([], [2]):
            n = len(cs) * (2 if g else 1)
            for kind in ("nested", "flat"):
                sh = (i % 2 == 0)
                cfgs.append(mk(g, nca=1, cases=cs, shuffle=sh and n <= 4, pool=(i % 5 == 0) and n <= 3, kind=kind))
                i += 1
    out.append(dict(name="C02_one_arg", configs=cfgs, max_perm=4))
    # two case arguments: all unordered sets of <= 3 cases over 2x2 values in every order for <= 2, plus 3x3 pairs
    cfgs = []
    for cs in case_sets(2, 2, 3, ordered=True):
        n = len(cs)
        cfgs.append(mk([], nca=2, cases=cs, shuffle=(i % 2 == 0), pool=(i % 4 == 0), kind="nested"))
        i += 1
    for cs in case_sets(2, 3, 2, ordered=False):
        cfgs.append(mk([2] if i % 3 == 0 else [], nca=2, cases=cs[::-1] if i % 2 else cs, shuffle=(i % 2 == 0) and i % 3 != 0,
                       pool=False, kind=("nested", "flat")[i % 7 == 0]))
        i += 1
    out.append(dict(name="C02_two_args", configs=cfgs, max_perm=4))
    # overlap: an argument both in the cases and in the grid -> rejected before anything runs
    cfgs = [mk(g, nca=nca, cases=cs, overlap=True, shuffle=sh, pool=pool, kind=kind)
            for g in ([], [2]) for nca, cs in ((1, [[1], [3]]), (2, [[1, 2], [2, 1]]))
            for sh in (False, True) for pool in (False, True) for kind in ("nested", "flat")]
    cfgs += [mk(g, nca=nca, cases=cs, overlap=True, shuffle=sh, kind=kind)
             for g in ([], [2]) for nca, cs in ((1, [[1], [3]]), (2, [[1, 2], [2, 1]]))
             for sh in (False, True) for kind in ("ds", "df")]
    out.append(dict(name="C02_overlap", configs=cfgs, max_perm=3))
    # bigger case sets / 3-4 case arguments / 2-arg sub-grids by simulation
    cfgs = []
    import random
    rnd = random.Random(7)
    for k in range(40 if tier == "quick" else 300):
        nca = rnd.choice([1, 2, 3, 4])
        allc = list(itertools.product(range(1, 4), repeat=nca))
        cs = rnd.sample(allc, rnd.randint(2, min(6, len(allc))))
        g = rnd.choice([[], [2], [3], [2, 2], [1, 3]])
        cfgs.append(mk(g, nca=nca, cases=[list(c) for c in cs], shuffle=rnd.random() < 0.6, pool=rnd.random() < 0.4,
                       kind=rnd.choice(["nested", "nested", "flat"])))
    # more than nine cases / coordinate values per argument
    allc = list(itertools.product(range(1, 13), repeat=1))
    cfgs.append(mk([], nca=1, cases=[list(c) for c in rnd.sample(allc, 11)], shuffle=True, kind="nested"))
    allc2 = list(itertools.product(range(1, 12), range(1, 3)))
    cfgs.append(mk([2], nca=2, cases=[list(c) for c in rnd.sample(allc2, 12)], shuffle=False, kind="nested"))
    cfgs.append(mk([], nca=2, cases=[list(c) for c in rnd.sample(allc2, 10)], shuffle=True, pool=True, kind="flat"))
    out.append(dict(name="C02_big", configs=cfgs, max_perm=4, check=False,
                    simulate=120 if tier == "quick" else 6000, depth=200))
    return out


def run(rep):
    rep.rule = ("TLC enumerates ordered sets of distinct cases (1 arg: all <=3 of 3 values; 2 args: all <=3 over 2x2, all <=2 over 3x3) x "
                "optional sub-grid x strategy x output form, overlap configurations, and simulates 3-4 case arguments; every terminal "
                "behaviour is replayed with a placeholder kind; distinct = (config, permutation, history, variant); non-trivial = n >= 2 or rejected")
    rep.assumptions = ASSUME
    sweep.drive(rep, runs(rep.tier), "C02", n_variants=2 if rep.tier == "quick" else 8)


def replay(rep, saved):
    sweep.replay_saved(rep, saved)
