"""C19 - running statistics equal the statistics of the whole sample.

RunStats.tla holds two exact integer machines:
  * SpecStats: the Welford updates of RunningStatistics / RunningCovariance /
    RunningCovarianceMatrix (Update, UpdateChunk = update_from_it, Permute) with the
    invariants WholeSample / OrderFree,
  * SpecStop: the loop of estimate_from_repeats (Draw, Absorb, SkipCheck, Check,
    StopConverged, StopLimit, Loop) with StopSound / NeverExceeds / ExactlyDrawn.
TLC checks them exhaustively for small integer samples and emits every explored
history (samples, how they were cut into calls, a permutation) together with the exact
statistics as rationals <<num, den>>, and every stop-machine run (parameters, scripted
samples, count, reason, per-prefix predicate).  Each emitted case is replayed into the
real classes after exactly known affine maps (ill-conditioned ones included) and the
floating-point results are compared with the model's rationals (fractions.Fraction)
under the tolerances stated below.  A seeded sweep of longer random float sequences,
whose expectations are computed exactly with integers/Fractions in this file, is the
"beyond-the-model" part and is labelled so in the evidence."""
import concurrent.futures
import itertools
import math
import random
from fractions import Fraction

from .. import common, tlc

# ---------------------------------------------------------------------------
# tolerances (DESIGN 8.3).  eps = 2^-52; n = count; A = max|x|; D = max|x - mean|.
#   mean            CM * n*eps*A
#   covar / var     CV * (n*eps*(A_i*D_j + A_j*D_i)/2 + eps*|cov|) + (n*eps)^2*A_i*A_j
#   sample_covar    the same * n/(n-1)
#   std             min(tol_var/std, sqrt(tol_var)) + 4*eps*std
#   err             tol_std/sqrt(n) + 4*eps*err
# plus, for an affine map that is not exactly representable (1e9 + k/1000), the measured
# rounding delta_i of the inputs: mean + delta_i; cov + delta_i*D_j + delta_j*D_i + delta_i*delta_j.
# Calibration on the unmodified code (quick + thorough tiers, seeds 0..2; 4500 extra sweep sequences):
# with CM = 2, CV = 4 (DESIGN 8.3) the worst |error|/tolerance was 0.125 (mean) and 0.112 (covar),
# always at n = 2, where a single half-ulp rounding of the mean (eps*A/2) meets CM*2*eps*A - the
# theoretical maximum of that ratio.  CM = 4, CV = 8 give >= 16x head-room (worst 0.0625 / 0.056);
# the worst ratio of every run is written to the evidence (worst_fraction_of_tolerance).
# A sum-of-squares accumulator (var = Q/n - mean^2) misses the var tolerance by a factor >= 170 on
# every non-constant ill-conditioned model case and by 1e6..1e10 on typical ones (checked on every
# run, see naive_selftest).
EPS = 2.0 ** -52
CM = 4.0
CV = 8.0
MAX_FRACTION = 0.1          # head-room the calibration demands on the unmodified code

MAPS = [
    dict(name="2^30+k/2^10", off=Fraction(2 ** 30), sc=Fraction(1, 2 ** 10)),
    dict(name="k", off=Fraction(0), sc=Fraction(1)),
    dict(name="1e9+k/1000", off=Fraction(10 ** 9), sc=Fraction(1, 1000)),
]
MAPSETS = ["2^30+k/2^10", "k", "1e9+k/1000", "mixed", "k:int"]

STATS_TAIL = ("SPECIFICATION SpecStats\nINVARIANT TypeOK\nINVARIANT WholeSample\nINVARIANT OrderFree\n"
              "CHECK_DEADLOCK FALSE\n")
STOP_TAIL = ("SPECIFICATION SpecStop\nINVARIANT TypeOK\nINVARIANT StopSound\nINVARIANT ReasonTrue\n"
             "INVARIANT NeverExceeds\nINVARIANT ExactlyDrawn\nINVARIANT AsCoded\nCHECK_DEADLOCK FALSE\n")
COV_TAIL = ("SPECIFICATION SpecCov\nINVARIANT TypeOK\nINVARIANT CovImage\nINVARIANT CovWhole\nINVARIANT CovPSD\n"
            "INVARIANT CovTrace\nCHECK_DEADLOCK FALSE\n")
JAVA = ("-Xss512m",)        # the whole-sample sums are recursive over the history (depth up to 500)


# ---------------------------------------------------------------------------
# running the model

def tuples(vals, k=1):
    return {tuple(t) for t in itertools.product(list(vals), repeat=k)}


def param_set(ps, ts, mns, mxs):
    recs = sorted("[p |-> %d, q |-> %d, a |-> %d, b |-> %d, mn |-> %d, mx |-> %d]" % (p, q, a, b, mn, mx)
                  for (p, q) in ps for (a, b) in ts for mn in mns for mx in mxs)
    return tlc.Raw("{" + ", ".join(recs) + "}")


def consts(**kw):
    d = dict(K=1, Samples=tuples(range(-3, 4)), MinLen=1, MaxLen=4, MaxChunk=0, PermKinds={"rev"},
             TrackCalls=False, Variant="code", Params=tlc.Raw("{NoPar}"))
    d.update(kw)
    return d


def run_model(name, machine, emit=False, tlc_kw=None, **kw):
    tail = dict(stats=STATS_TAIL, stop=STOP_TAIL, cov=COV_TAIL)[machine]
    if emit:
        tail += "INVARIANT %s\n" % dict(stats="EmitStats", stop="EmitStop", cov="EmitCov")[machine]
    k = dict(java_opts=JAVA)
    k.update(tlc_kw or {})
    if emit:
        k["workers"] = 1
    return tlc.run_mc("RunStats", consts(**kw), tail, name=name, **k)


# ---------------------------------------------------------------------------
# the real classes, fed as the model says

def real_classes():
    common.use_repo()
    from xyzpy import utils
    return utils.RunningStatistics, utils.RunningCovariance, utils.RunningCovarianceMatrix


class NaiveStats(object):
    """Sum-of-squares accumulator (NOT xyzpy): used only to show that the tolerances would
    catch a regression to var = Q/n - mean^2 on ill-conditioned inputs."""

    def __init__(self):
        self.count, self.s, self.q = 0, 0.0, 0.0

    def update(self, x):
        self.count += 1
        self.s += x
        self.q += x * x

    def update_from_it(self, xs):
        for x in xs:
            self.update(x)

    mean = property(lambda self: self.s / self.count)
    var = property(lambda self: self.q / self.count - self.mean ** 2)
    std = property(lambda self: self.var ** 0.5)
    err = property(lambda self: self.std / self.count ** 0.5)


class NaiveCov(object):
    def __init__(self):
        self.count, self.sx, self.sy, self.sxy = 0, 0.0, 0.0, 0.0

    def update(self, x, y):
        self.count += 1
        self.sx += x
        self.sy += y
        self.sxy += x * y

    def update_from_it(self, xs, ys):
        for x, y in zip(xs, ys):
            self.update(x, y)

    covar = property(lambda self: self.sxy / self.count - self.sx / self.count * self.sy / self.count)
    sample_covar = property(lambda self: self.covar * self.count / (self.count - 1))


class NaiveMatrix(object):
    def __init__(self, n=2):
        import numpy as np
        self.np = np
        self.n = n
        self.rcs = {(i, j): NaiveCov() for i in range(n) for j in range(i, n)}

    def update(self, *x):
        for (i, j), rc in self.rcs.items():
            rc.update(x[i], x[j])

    def update_from_it(self, *xs):
        for (i, j), rc in self.rcs.items():
            rc.update_from_it(xs[i], xs[j])

    count = property(lambda self: self.rcs[0, 0].count)

    def _m(self, attr):
        return self.np.array([[getattr(self.rcs[min(i, j), max(i, j)], attr) for j in range(self.n)]
                              for i in range(self.n)])

    covar_matrix = property(lambda self: self._m("covar"))
    sample_covar_matrix = property(lambda self: self._m("sample_covar"))


def _wrap(col, kind, allow_gen=True):
    import numpy as np
    if kind == 1:
        return tuple(col)
    if kind == 2:
        return np.array(col)
    if kind == 3 and allow_gen:
        return (v for v in col)
    return list(col)


SPELLINGS = ["list", "tuple", "ndarray", "generator"]      # what _wrap(col, kind) builds for kind 0..3


def feed(classes, X, calls, K, spell=0):
    """Feed the rows of X (K-tuples) to one RunningStatistics per series, one RunningCovariance per
    pair i <= j and one RunningCovarianceMatrix(K): call 0 = update(sample), call L >= 1 =
    update_from_it(next L samples).  Within one call ALL series are spelt the same way; call number ci uses
    SPELLINGS[(ci + spell) % 4], so spell = 0/1/2/3 makes the FIRST call all-list / all-tuple / all-ndarray
    (float64, or int64 for integer data) / all-generator (the matrix, which needs re-iterables, gets lists then)."""
    RS, RC, RCM = classes
    rs = [RS() for _ in range(K)]
    rc = {(i, j): RC() for i in range(K) for j in range(i, K)}
    rcm = RCM(K)
    pos = 0
    for ci, L in enumerate(calls):
        if L == 0:
            x = X[pos]
            pos += 1
            for i in range(K):
                rs[i].update(x[i])
            for (i, j), acc in rc.items():
                acc.update(x[i], x[j])
            rcm.update(*x)
        else:
            chunk = X[pos:pos + L]
            pos += L
            cols = [[row[i] for row in chunk] for i in range(K)]
            kind = (ci + spell) % 4
            for i in range(K):
                rs[i].update_from_it(_wrap(cols[i], kind))
            for (i, j), acc in rc.items():
                acc.update_from_it(_wrap(cols[i], kind), _wrap(cols[j], kind))
            rcm.update_from_it(*[_wrap(c, kind, allow_gen=False) for c in cols])
    if pos != len(X):
        raise RuntimeError("calls do not cover the history")
    return rs, rc, rcm


def _num(v):
    """A real finite float, or None."""
    try:
        if isinstance(v, complex):
            return None
        f = float(v)
    except Exception:  # noqa
        return None
    return f if math.isfinite(f) else None


class Expect(object):
    """Exact statistics (Fractions) of the K series actually fed, with the data scales the
    tolerances need."""

    def __init__(self, X, mean, cov, delta=None):
        self.n = n = len(X)
        self.K = K = len(mean)
        self.mean, self.cov = mean, cov
        self.A = [max(abs(float(row[i])) for row in X) for i in range(K)]
        self.D = [float(max(abs(Fraction(row[i]) - mean[i]) for row in X)) for i in range(K)]
        self.delta = delta or [0.0] * K

    def tol_mean(self, i):
        return CM * self.n * EPS * self.A[i] + self.delta[i]

    def tol_cov(self, i, j):
        A, D, d, n = self.A, self.D, self.delta, self.n
        return (CV * (n * EPS * (A[i] * D[j] + A[j] * D[i]) / 2 + EPS * abs(float(self.cov[i][j])))
                + (n * EPS) ** 2 * A[i] * A[j] + d[i] * D[j] + d[j] * D[i] + d[i] * d[j])

    def tol_std(self, i):
        tv = self.tol_cov(i, i)
        sd = math.sqrt(float(self.cov[i][i]))
        return min(tv / sd if sd > 0 else math.inf, math.sqrt(tv)) + 4 * EPS * sd


def compare(acc, ex, worst, where):
    """Project the real accumulators and compare with the exact expectation.  Returns a list of
    mismatch dicts; updates worst[quantity] = max |error| / tolerance seen."""
    rs, rc, rcm = acc
    n, K = ex.n, ex.K
    bad = []

    def chk(cls, q, got, want, tol, idx):
        g = _num(got)
        if g is None:
            bad.append(dict(where=where, cls=cls, quantity=q, index=idx, got=repr(got), want=float(want)))
            return
        err = abs(float(Fraction(g) - want))
        if tol > 0:
            worst[q] = max(worst.get(q, 0.0), err / tol)
        if err > tol:
            bad.append(dict(where=where, cls=cls, quantity=q, index=idx, got=g, want=float(want),
                            abs_error=err, tolerance=tol))

    def chk_count(cls, got, idx):
        if got != n:
            bad.append(dict(where=where, cls=cls, quantity="count", index=idx, got=repr(got), want=n))

    for i in range(K):
        r = rs[i]
        var = ex.cov[i][i]
        sd = math.sqrt(float(var))
        chk_count("RunningStatistics", r.count, i)
        chk("RunningStatistics", "mean", r.mean, ex.mean[i], ex.tol_mean(i), i)
        chk("RunningStatistics", "var", r.var, var, ex.tol_cov(i, i), i)
        chk("RunningStatistics", "std", r.std, Fraction(sd), ex.tol_std(i), i)
        e = sd / math.sqrt(n)
        chk("RunningStatistics", "err", r.err, Fraction(e), ex.tol_std(i) / math.sqrt(n) + 4 * EPS * e, i)
    for (i, j), a in rc.items():
        chk_count("RunningCovariance", a.count, [i, j])
        chk("RunningCovariance", "covar", a.covar, ex.cov[i][j], ex.tol_cov(i, j), [i, j])
        if n >= 2:
            f = Fraction(n, n - 1)
            chk("RunningCovariance", "sample_covar", a.sample_covar, ex.cov[i][j] * f,
                ex.tol_cov(i, j) * float(f), [i, j])
    chk_count("RunningCovarianceMatrix", rcm.count, None)
    m = rcm.covar_matrix
    sm = rcm.sample_covar_matrix if n >= 2 else None
    if getattr(m, "shape", None) != (K, K):
        bad.append(dict(where=where, cls="RunningCovarianceMatrix", quantity="covar_matrix", index=None,
                        got="shape %r" % (getattr(m, "shape", None),), want=[K, K]))
    else:
        for i in range(K):
            for j in range(K):
                chk("RunningCovarianceMatrix", "covar_matrix", m[i, j], ex.cov[i][j], ex.tol_cov(i, j), [i, j])
                if sm is not None:
                    f = Fraction(n, n - 1)
                    chk("RunningCovarianceMatrix", "sample_covar_matrix", sm[i, j], ex.cov[i][j] * f,
                        ex.tol_cov(i, j) * float(f), [i, j])
    return bad


def four_ways(classes, X, calls, perm, ex, worst, tag, spells=(0, 2)):
    """one at a time / as the model cut it into calls / permuted / permuted and cut the same way; the two cut
    feeds use the spelling rotations `spells` (see feed): by default list-first and ndarray-first"""
    K = ex.K
    n = len(X)
    Xp = [X[p - 1] for p in perm]
    bad = []
    for name, rows, cl, sp in (("single", X, [0] * n, 0), ("calls", X, calls, spells[0]),
                               ("permuted", Xp, [0] * n, 0), ("permuted+calls", Xp, calls, spells[1])):
        where = "%s/%s" % (tag, name)
        if cl is calls:
            where += "(%s first)" % SPELLINGS[sp]
        try:
            acc = feed(classes, rows, cl, K, sp)
            bad += compare(acc, ex, worst, where)
        except Exception as e:  # noqa  the real code raised where a result is demanded
            bad.append(dict(where=where, cls="*", quantity="raised", index=None,
                            got="%s: %s" % (type(e).__name__, e), want="a result"))
    return bad


# ---------------------------------------------------------------------------
# model cases -> concrete inputs

def _rat(p):
    return Fraction(p[0], p[1])


def map_case(c, mapset):
    """The emitted integer history under an affine map per series: returns X (floats or ints in feed
    order) and the Expect built from the model's rationals (never from the data)."""
    K = c["k"]
    as_int = mapset == "k:int"
    if mapset == "mixed":
        maps = [MAPS[i % 3] for i in range(K)]
    else:
        mp = [m for m in MAPS if m["name"] == mapset.split(":")[0]][0]
        maps = [mp] * K
    X, delta = [], [0.0] * K
    for row in c["xs"]:
        out = []
        for i, k in enumerate(row):
            img = maps[i]["off"] + maps[i]["sc"] * k
            v = int(img) if as_int else float(img)
            d = abs(Fraction(v) - img)
            if d:
                delta[i] = max(delta[i], float(d) * (1 + 2 * EPS))
            out.append(v)
        X.append(tuple(out))
    mean = [maps[i]["off"] + maps[i]["sc"] * _rat(c["mean"][i]) for i in range(K)]
    cov = [[maps[i]["sc"] * maps[j]["sc"] * _rat(c["cov"][i][j]) for j in range(K)] for i in range(K)]
    return X, Expect(X, mean, cov, delta)


def mapsets_for(c):
    return [m for m in MAPSETS if not (m == "mixed" and c["k"] < 2)]


def check_stats_case(c, classes=None, mapsets=None):
    classes = classes or real_classes()
    worst, bad = {}, []
    for ms in (mapsets or mapsets_for(c)):
        X, ex = map_case(c, ms)
        # first call spelt all-list / all-tuple / all-generator in turn for the cut feed, all-ndarray for the permuted cut feed
        rot = (0, 1, 3)[(c["n"] + len(c["calls"]) + sum(c["calls"]) + len(ms)) % 3]
        bad += four_ways(classes, X, c["calls"], c["perm"], ex, worst, ms, spells=(rot, 2))
    return bad, worst


def _chk_stats(c):
    return check_stats_case(c)


# ---------------------------------------------------------------------------
# beyond the model: seeded float sequences with exact expectations computed here

def exact_from_floats(X, K):
    n = len(X)
    ints, dens = [], []
    for i in range(K):
        rat = [Fraction(row[i]).as_integer_ratio() for row in X]
        D = 1
        for _, d in rat:
            D = D * d // math.gcd(D, d)
        ints.append([m * (D // d) for m, d in rat])
        dens.append(D)
    S = [sum(v) for v in ints]
    mean = [Fraction(S[i], n * dens[i]) for i in range(K)]
    cov = [[None] * K for _ in range(K)]
    for i in range(K):
        for j in range(i, K):
            P = sum(a * b for a, b in zip(ints[i], ints[j]))
            cov[i][j] = cov[j][i] = Fraction(n * P - S[i] * S[j], n * n * dens[i] * dens[j])
    return mean, cov


OFFSETS = [0.0, 1e9, -1e9, float(2 ** 30), 1e6, -12345.678, 3.0e8, 1.0]
SPREADS = [1e-3, 1e-3, 1.0, 1e3, 0.05, 7.0]


def gen_sweep_case(seed, idx):
    rnd = random.Random("c19-sweep-%d-%d" % (seed, idx))
    K = rnd.choice([1, 2, 2, 3, 3, 4])
    n = rnd.choice([rnd.randint(1, 12), rnd.randint(13, 120), rnd.randint(121, 500)])
    if idx % 4 == 1:
        n = max(n, rnd.randint(40, 500))
    dist = rnd.choice(["normal", "uniform", "heavy", "lattice", "constant", "drift"])
    offs = [rnd.choice(OFFSETS) for _ in range(K)]
    sprs = [rnd.choice(SPREADS) for _ in range(K)]
    load = [rnd.uniform(-1, 1) for _ in range(K)]          # correlation with the common factor
    X = []
    for t in range(n):
        z = rnd.gauss(0, 1)
        row = []
        for i in range(K):
            if dist == "normal":
                e = rnd.gauss(0, 1)
            elif dist == "uniform":
                e = rnd.uniform(-1.7, 1.7)
            elif dist == "heavy":
                e = max(-50.0, min(50.0, math.tan(math.pi * (rnd.random() - 0.5))))
            elif dist == "lattice":
                e = float(rnd.randint(-3, 3))
            elif dist == "constant":
                e = 0.0
            else:
                e = rnd.gauss(0, 0.2) + 3.0 * t / n
            v = load[i] * z + (1 - abs(load[i])) * e if dist not in ("constant", "lattice") else e
            row.append(offs[i] + sprs[i] * v)
        X.append(tuple(row))
    calls, left = [], n
    big = 0
    if idx % 4 == 1:
        # every 4th case: update_from_it(ndarray of >= 32 values) into accumulators that already hold samples
        # (feed() passes an ndarray for call positions 2, 6, 10, ..)
        style = "ndarray_big"
        while left:
            if len(calls) % 4 == 2 and left >= 32:
                L = rnd.randint(32, min(left, 200))
                big += 1
            else:
                L = rnd.choice([0, 1, 2])
            L = min(L, left)
            calls.append(L)
            left -= max(L, 1)
    else:
        style = rnd.choice(["mixed", "one_chunk", "small"])
    while left:
        if style == "one_chunk":
            L = left
        elif style == "small":
            L = rnd.choice([0, 1, 2, 3])
        else:
            L = rnd.choice([0, 0, 1, rnd.randint(2, 60)])
        L = min(L, left)
        if L >= 32 and len(calls) % 4 == 2:
            big += 1
        calls.append(L)
        left -= max(L, 1)
    perm = list(range(1, n + 1))
    rnd.shuffle(perm)
    return dict(kind="sweep", seed=seed, idx=idx, k=K, n=n, dist=dist, offsets=offs, spreads=sprs,
                ndarray_chunks_ge32=big), X, calls, perm


def check_sweep_case(arg, classes=None):
    seed, idx = arg
    classes = classes or real_classes()
    meta, X, calls, perm = gen_sweep_case(seed, idx)
    mean, cov = exact_from_floats(X, meta["k"])
    ex = Expect(X, mean, cov)
    worst = {}
    bad = four_ways(classes, X, calls, perm, ex, worst, "sweep")
    return meta, bad, worst


# ---------------------------------------------------------------------------
# estimate_from_repeats

class Runaway(Exception):
    pass


def drive(script, rtol, tol_scale, mn, mx, flavour):
    """Run the real estimate_from_repeats on a scripted generator.  Returns (rs, ncalls, samples, beyond)
    where beyond = number of values served after the script ran out (cycling it)."""
    common.use_repo()
    from xyzpy.utils import estimate_from_repeats
    state = dict(calls=0)

    def fn(*args, **kw):
        if flavour == "args" and (args != (7,) or kw != dict(key="v")):
            raise RuntimeError("fn did not receive its arguments: %r %r" % (args, kw))
        i = state["calls"]
        state["calls"] += 1
        if i > mx + 8:
            raise Runaway()
        return script[i % len(script)]

    kw = dict(rtol=rtol, tol_scale=tol_scale, min_samples=mn, max_samples=mx)
    samples = None
    try:
        if flavour == "samples":
            rs, samples = estimate_from_repeats(fn, get="samples", **kw)
        elif flavour == "args":
            rs = estimate_from_repeats(fn, 7, key="v", **kw)
        else:
            rs = estimate_from_repeats(fn, **kw)
    except Runaway:
        return None, state["calls"], None, 0
    return rs, state["calls"], samples, max(0, state["calls"] - len(script))


def conv_exact(S, U, n, rtol, ts):
    """err < rtol*|mean| + ts*rtol on squares, S = sum, U = n*sum(x^2) - S^2 (Fractions):
    'y' / 'n', or 't' when the two sides agree to 1e-6 (the float code may go either way)."""
    lhs = Fraction(U) / n ** 3
    rhs = (rtol * abs(Fraction(S)) / n + ts * rtol) ** 2
    if lhs == rhs or abs(lhs - rhs) <= Fraction(1, 10 ** 6) * max(lhs, rhs):
        return "t"
    return "y" if lhs < rhs else "n"


def judge_stop(rs, ncalls, samples, script, rtol_f, ts_f, mn, mx, pre, model_n, worst, tag):
    """The property on one run.  pre[k-1] = dict(s, u, conv) for the prefix of k samples (exact), for
    k <= len(pre); beyond that the prefix statistics are computed here.  Returns (bad, drift)."""
    bad, drift = [], None
    if rs is None or ncalls > mx:
        bad.append(dict(where=tag, cls="estimate_from_repeats", quantity="limit",
                        got="%d calls to fn%s" % (ncalls, "" if rs is not None else " and still running"),
                        want="<= max_samples = %d" % mx))
        return bad, drift
    cnt = rs.count
    if cnt != ncalls:
        bad.append(dict(where=tag, cls="estimate_from_repeats", quantity="count", got=cnt,
                        want="number of calls to fn = %d" % ncalls))
        return bad, drift
    if cnt > mx or cnt < 1:
        bad.append(dict(where=tag, cls="estimate_from_repeats", quantity="limit", got=cnt, want="1..%d" % mx))
        return bad, drift
    drawn = [script[i % len(script)] for i in range(cnt)]
    if samples is not None and list(samples) != drawn:
        bad.append(dict(where=tag, cls="estimate_from_repeats", quantity="samples", got=repr(list(samples))[:200],
                        want=repr(drawn)[:200]))
    if cnt <= len(pre):
        S, U, conv = pre[cnt - 1]["s"], pre[cnt - 1]["u"], pre[cnt - 1]["conv"]
    else:                                   # the code went on after the model's stop: exact values computed here
        fr = [Fraction(v) for v in drawn]
        S = sum(fr)
        U = cnt * sum(v * v for v in fr) - S * S
        conv = conv_exact(S, U, cnt, Fraction(rtol_f), Fraction(ts_f))
    mean = Fraction(S) / cnt
    var = Fraction(U) / cnt ** 2
    ex = Expect([(v,) for v in drawn], [mean], [[var]])
    for q, got, want, tol in (("mean", rs.mean, mean, ex.tol_mean(0)), ("var", rs.var, var, ex.tol_cov(0, 0))):
        g = _num(got)
        err = None if g is None else abs(float(Fraction(g) - want))
        if err is not None and tol > 0:
            worst[q] = max(worst.get(q, 0.0), err / tol)
        if err is None or err > tol:
            bad.append(dict(where=tag, cls="estimate_from_repeats", quantity=q, got=repr(got), want=float(want),
                            tolerance=tol, note="statistics are not those of the %d samples drawn" % cnt))
    if cnt < mx and conv == "n":
        bad.append(dict(where=tag, cls="estimate_from_repeats", quantity="stop",
                        got="stopped after %d < max_samples = %d samples" % (cnt, mx),
                        want="err < rtol*|mean| + rtol*tol_scale, which is false for these %d samples" % cnt))
    if not bad and model_n is not None and cnt != model_n:
        drift = "count %d, the model of the code as pinned says %d (mn=%d mx=%d)" % (cnt, model_n, mn, mx)
    return bad, drift


SCALES = [1.0, 2.0 ** -10, 1000.0]
FLAVOURS = ["stats", "samples", "args"]


def check_stop_case(c):
    """Replay one emitted run of the stop machine at three scales (the predicate is homogeneous in
    (samples, tol_scale))."""
    if c["tie"]:
        return [], None, {}
    bad, drift, worst = [], None, {}
    for si, sc in enumerate(SCALES):
        fsc = Fraction(sc)
        script = [float(x * fsc) for x in c["xs"]]
        rtol = c["p"] / c["q"]
        ts = float(Fraction(c["a"], c["b"]) * fsc)
        pre = [dict(s=p["s"] * fsc, u=p["u"] * fsc * fsc, conv=p["conv"]) for p in c["pre"]]
        flavour = FLAVOURS[(si + c["n"] + c["mx"]) % 3]
        tag = "scale=%r/%s" % (sc, flavour)
        try:
            rs, ncalls, samples, _ = drive(script, rtol, ts, c["mn"], c["mx"], flavour)
            b, d = judge_stop(rs, ncalls, samples, script, rtol, ts, c["mn"], c["mx"], pre, c["n"], worst, tag)
        except Exception as e:  # noqa
            b, d = [dict(where=tag, cls="estimate_from_repeats", quantity="raised",
                         got="%s: %s" % (type(e).__name__, e), want="a result")], None
        bad += b
        drift = drift or d
    return bad, drift, worst


def gen_noisy_case(seed, idx):
    rnd = random.Random("c19-noisy-%d-%d" % (seed, idx))
    mx = rnd.choice([1, 2, 3, rnd.randint(4, 40), rnd.randint(41, 300)])
    mn = rnd.choice([0, 1, 2, 5, rnd.randint(0, 30)])
    rtol = rnd.choice([0.5, 0.2, 0.1, 0.05, 0.02, 0.01])
    ts = rnd.choice([0.0, 1.0, 1.0, 0.5, 10.0, 1e-3])
    mu = rnd.choice([0.0, 1.0, -3.0, 10.0, 100.0, 0.01])
    sd = rnd.choice([0.0, 0.1, 1.0, 1.0, 5.0])
    kind = rnd.choice(["noisy", "noisy", "deterministic"])
    if kind == "noisy":
        script = [mu + sd * rnd.gauss(0, 1) for _ in range(mx)]
    else:
        script = [mu + sd * math.sin(1.0 + 0.7 * t) / (1 + t % 5) for t in range(mx)]
    return dict(kind="noisy", seed=seed, idx=idx, rtol=rtol, tol_scale=ts, mn=mn, mx=mx, gen=kind, mu=mu, sd=sd), script


def run_generated(meta, script, flavour, tag):
    """One run of estimate_from_repeats on a generated script; the oracle (prefix statistics, exact
    predicate per prefix) is computed here with Fractions - the rule itself is RunStats.tla's
    (NeverExceeds, ExactlyDrawn, StopSound)."""
    rtol, ts, mn, mx = meta["rtol"], meta["tol_scale"], meta["mn"], meta["mx"]
    fr = [Fraction(script[i % len(script)]) for i in range(mx)]
    pre, S, Q = [], Fraction(0), Fraction(0)
    for k, v in enumerate(fr, 1):
        S += v
        Q += v * v
        U = k * Q - S * S
        pre.append(dict(s=S, u=U, conv=conv_exact(S, U, k, Fraction(rtol), Fraction(ts))))
    # the count the code as pinned produces (only for the drift note), None if a near-tie decides it
    model_n = None
    for i in range(mx):
        if i > mn and pre[i]["conv"] != "n":
            model_n = i + 1 if pre[i]["conv"] == "y" else None
            break
        if i >= mx - 1:
            model_n = i + 1
    worst = {}
    try:
        rs, ncalls, samples, _ = drive(script, rtol, ts, mn, mx, flavour)
        bad, drift = judge_stop(rs, ncalls, samples, script, rtol, ts, mn, mx, pre, model_n, worst, tag + "/" + flavour)
    except Exception as e:  # noqa
        bad, drift = [dict(where=tag, cls="estimate_from_repeats", quantity="raised",
                           got="%s: %s" % (type(e).__name__, e), want="a result")], None
    return dict(meta, model_n=model_n), bad, drift, worst


def check_noisy_case(arg):
    seed, idx = arg
    meta, script = gen_noisy_case(seed, idx)
    return run_generated(meta, script, FLAVOURS[idx % 3], "noisy")


# long runs: sizes TLC's 32-bit integers cannot reach (see RunStats.tla); the stopping tests of a run
# must stay sound however long it gets
LONG_MX = [1025, 1026, 1500, 2050, 2051, 3001, 4099, 4100]
LONG_LATE = [   # (mx, mn, rtol, tol_scale, mu, sd, generator): first convergence well beyond 1024 samples
    (5000, 30, 0.01, 0.0, 1.0, 0.45, "noisy"),
    (6000, 40, 0.02, 1.0, 3.0, 3.2, "noisy"),
    (3000, 30, 0.001, 1.0, 10.0, 1.0, "deterministic"),
    (8200, 50, 0.005, 0.0, 2.0, 0.6, "noisy"),
]


def long_count(thorough):
    return (2 * len(LONG_MX) + len(LONG_LATE)) * (5 if thorough else 1)


def gen_long_case(seed, idx):
    rnd = random.Random("c19-long-%d-%d" % (seed, idx))
    per = 2 * len(LONG_MX) + len(LONG_LATE)
    j = idx % per
    if j < 2 * len(LONG_MX):
        mx = LONG_MX[j // 2]
        if j % 2 == 0:      # scripted: a short integer script served cyclically, rtol = 0 never converges
            # (starts with two different values: with rtol = 0 a constant prefix would be an exact tie 0 < 0)
            script = [1.0, -2.0] + [float(rnd.choice([-3, -2, -1, 0, 1, 2, 3])) for _ in range(rnd.randint(5, 9))]
            meta = dict(rtol=0.0, tol_scale=1.0, mn=rnd.choice([0, 5]), mx=mx, gen="scripted-cyclic", expect="limit")
        else:               # noisy: err ~ 1/sqrt(n) stays far above rtol*(|mean| + tol_scale)
            script = [1.0 + rnd.gauss(0, 1) for _ in range(mx)]
            meta = dict(rtol=1e-4, tol_scale=rnd.choice([0.0, 1.0]), mn=rnd.choice([0, 5, 30]), mx=mx, gen="noisy", expect="limit")
    else:
        mx, mn, rtol, ts, mu, sd, gen = LONG_LATE[j - 2 * len(LONG_MX)]
        if gen == "noisy":
            script = [mu + sd * rnd.gauss(0, 1) for _ in range(mx)]
        else:
            ph = rnd.uniform(0, 1)
            script = [mu + sd * math.sin(ph + 0.7 * t) / (1 + t % 5) for t in range(mx)]
        meta = dict(rtol=rtol, tol_scale=ts, mn=mn, mx=mx, gen=gen, expect="late")
    return dict(meta, kind="long", seed=seed, idx=idx), script


def check_long_case(arg):
    seed, idx = arg
    meta, script = gen_long_case(seed, idx)
    return run_generated(meta, script, FLAVOURS[idx % 3], "long")


# ---------------------------------------------------------------------------

def naive_selftest(cases):
    """The comparator with these tolerances must reject a sum-of-squares accumulator on the
    ill-conditioned maps (else the tolerance part of the check is vacuous).  Uses emitted model cases
    with K = 2, n >= 3 and no constant series."""
    naive = (NaiveStats, NaiveCov, NaiveMatrix)
    sel = [c for c in cases if c["k"] == 2 and 3 <= c["n"] <= 8 and all(c["cov"][i][i][0] > 0 for i in range(2))][:40]
    if len(sel) < 10:
        raise RuntimeError("naive self-test: too few suitable emitted cases")
    out = {}
    for ms in ("2^30+k/2^10", "1e9+k/1000", "k"):
        least_var, least_cov, caught = math.inf, math.inf, 0
        for c in sel:
            bad, worst = check_stats_case(c, classes=naive, mapsets=[ms])
            caught += bool(bad)
            least_var = min(least_var, worst.get("var", 0.0))
            least_cov = min(least_cov, worst.get("covar", 0.0))
        out[ms] = dict(cases=len(sel), rejected=caught, least_var_error_over_tolerance=float("%.3g" % least_var),
                       least_covar_error_over_tolerance=float("%.3g" % least_cov))
    for ms in ("2^30+k/2^10", "1e9+k/1000"):
        o = out[ms]
        if o["rejected"] != len(sel) or o["least_var_error_over_tolerance"] < 30:
            raise RuntimeError("tolerances too loose: naive sum-of-squares accumulator not rejected on %s: %r" % (ms, out))
    return out


def binding_selftest(stats_cases, stop_cases):
    """Corrupt one field of an emitted case and show the replay rejects it (DESIGN 12)."""
    import copy
    c = [c for c in stats_cases if c["n"] >= 3 and c["k"] >= 2][0]
    for field, path in (("mean", lambda d: d["mean"][0]), ("cov", lambda d: d["cov"][0][0]), ("cov", lambda d: d["cov"][0][1])):
        d = copy.deepcopy(c)
        path(d)[0] += 1
        d["cov"][1][0] = list(d["cov"][0][1])          # keep the matrix symmetric
        bad, _ = check_stats_case(d)
        if not bad:
            raise RuntimeError("binding self-test: corrupted %s of an emitted stats case was not rejected" % field)
    c = [c for c in stop_cases if c["reason"] == "converged" and c["n"] < c["mx"]][0]
    d = copy.deepcopy(c)
    d["pre"][d["n"] - 1]["conv"] = "n"
    bad, _, _ = check_stop_case(d)
    if not any(b["quantity"] == "stop" for b in bad):
        raise RuntimeError("binding self-test: corrupted convergence flag of an emitted stop case was not rejected")
    d = copy.deepcopy(c)
    d["pre"][d["n"] - 1]["s"] += 1
    bad, _, _ = check_stop_case(d)
    if not any(b["quantity"] == "mean" for b in bad):
        raise RuntimeError("binding self-test: corrupted prefix sum of an emitted stop case was not rejected")
    return "corrupted mean / var / covar / convergence flag / prefix sum of emitted cases are rejected by the replay"


# ---------------------------------------------------------------------------
# RunningCovariance / RunningCovarianceMatrix step by step against the rational machine SpecCov of
# RunStats.tla (part of C19: "covariance and covariance matrix")

COV_MAPS = [("k", Fraction(0), Fraction(1), float), ("k:int", Fraction(0), Fraction(1), int),
            ("5+k/128", Fraction(5), Fraction(1, 128), float)]
COV_CM, COV_CC = 8.0, 16.0      # tolerances: mean COV_CM*n*eps*A; C, covar COV_CC*n*eps*(A_i*D_j + A_j*D_i)/2 (D = range of the series)


def cov_jobs(thorough):
    """(label, emit, tlc_kw, expect, constants) of the SpecCov runs."""
    P2 = {(-2, 3), (1, 1), (3, -1)}
    P3 = {(-1, 2, 2), (2, -2, 0), (1, 1, 1)}
    sq = tuples((-1, 0, 2), 2) if thorough else {(-1, 2), (0, 0), (2, -1), (2, 2), (-1, -1), (0, 2)}
    return [
        ("cov K=2 exhaustive", False, dict(workers=4), None,
         dict(K=2, Samples=sq, MaxLen=5, MaxChunk=2)),
        ("cov self-test oldmean", False, dict(workers=1), "CovImage|CovWhole|CovPSD",
         dict(K=2, Samples=P2, MaxLen=3, MaxChunk=2, Variant="oldmean")),
        ("emit cov K=2", True, {}, None, dict(K=2, Samples=P2, MaxLen=4 if not thorough else 5, MaxChunk=3, TrackCalls=True)),
        ("emit cov K=3", True, {}, None, dict(K=3, Samples=P3, MaxLen=4 if not thorough else 5, MaxChunk=2, TrackCalls=True)),
    ]


def check_cov_case(c):
    """Step the real RunningCovariance (every pair i <= j) and RunningCovarianceMatrix through the emitted calls;
    after EVERY call (so also between chunked feeds) read count, xmean, ymean, C, covar, sample_covar, covar_matrix,
    sample_covar_matrix and compare with the spec's rationals.
    Returns (steps, comparisons, mismatches (list of dicts, as for the stats cases), worst error/tolerance)."""
    _, RC, RCM = real_classes()
    K = c["k"]
    bad, ncmp, steps, worst = [], 0, 0, 0.0
    for mi, (mname, off, sc, typ) in enumerate(COV_MAPS):
      # every map twice: first call all-ndarray (float64; int64 under k:int), and all-list / all-tuple / all-generator in turn
      for spell in (2, (0, 1, 3)[(mi + c["n"] + len(c["calls"]) + sum(c["calls"])) % 3]):
        name = "%s/%s first" % (mname, SPELLINGS[spell])
        X = [tuple(typ(off + sc * k) for k in row) for row in c["xs"]]
        A = [max(abs(float(r[i])) for r in X) for i in range(K)]
        D = [max(float(r[i]) for r in X) - min(float(r[i]) for r in X) for i in range(K)]
        rc = {(i, j): RC() for i in range(K) for j in range(i, K)}
        rcm = RCM(K)
        pos = 0
        t = -1

        def where():
            return "%s/after call %d of %r" % (name, t + 1, c["calls"])

        def cmp(cls, q, idx, got, want, tol):
            nonlocal ncmp, worst
            ncmp += 1
            g = _num(got)
            # values are O(1..100): the rational is rounded to a double once (<= half an ulp, far inside tol)
            err = None if g is None else abs(g - float(want))
            if err is not None and err / tol > worst:
                worst = err / tol
            if err is None or err > tol:
                bad.append(dict(where=where(), cls=cls, quantity=q, index=idx, got=g if g is not None else repr(got),
                                want=float(want), tolerance=tol))

        def cmp_count(cls, idx, got, n):
            nonlocal ncmp
            ncmp += 1
            if got != n:
                bad.append(dict(where=where(), cls=cls, quantity="count", index=idx, got=repr(got), want=n))

        try:
            for t, L in enumerate(c["calls"]):
                if L == 0:
                    x = X[pos]
                    pos += 1
                    for (i, j), a in rc.items():
                        a.update(x[i], x[j])
                    rcm.update(*x)
                else:
                    chunk = X[pos:pos + L]
                    pos += L
                    cols = [[r[i] for r in chunk] for i in range(K)]
                    for (i, j), a in rc.items():
                        a.update_from_it(_wrap(cols[i], (t + spell) % 4), _wrap(cols[j], (t + spell) % 4))
                    rcm.update_from_it(*[_wrap(col, (t + spell) % 4, allow_gen=False) for col in cols])
                steps += 1
                snap = c["trace"][t]
                n = snap[0][0]["n"]
                m = rcm.covar_matrix
                sm = rcm.sample_covar_matrix if n >= 2 else None
                cmp_count("RunningCovarianceMatrix", None, rcm.count, n)
                for i in range(K):
                    for j in range(K):
                        e = snap[i][j]
                        tolc = COV_CC * n * EPS * (A[i] * D[j] + A[j] * D[i]) / 2 + (n * EPS) ** 2 * A[i] * A[j] + 1e-300
                        want = sc * sc * _rat(e["covar"])
                        cmp("RunningCovarianceMatrix", "covar_matrix", [i, j], m[i, j], want, tolc)
                        if sm is not None:
                            cmp("RunningCovarianceMatrix", "sample_covar_matrix", [i, j], sm[i, j], sc * sc * _rat(e["scov"]),
                                tolc * n / (n - 1))
                        if i > j:
                            continue
                        a = rc[i, j]
                        cmp_count("RunningCovariance", [i, j], a.count, n)
                        cmp("RunningCovariance", "xmean", [i, j], a.xmean, off + sc * _rat(e["xm"]), COV_CM * n * EPS * A[i] + 1e-300)
                        cmp("RunningCovariance", "ymean", [i, j], a.ymean, off + sc * _rat(e["ym"]), COV_CM * n * EPS * A[j] + 1e-300)
                        cmp("RunningCovariance", "C", [i, j], a.C, sc * sc * _rat(e["c"]), tolc * n)
                        cmp("RunningCovariance", "covar", [i, j], a.covar, want, tolc)
                        cmp("RunningCovarianceMatrix", "rcs.C", [i, j], rcm.rcs[i, j].C, sc * sc * _rat(e["c"]), tolc * n)
                        if n >= 2:
                            cmp("RunningCovariance", "sample_covar", [i, j], a.sample_covar, sc * sc * _rat(e["scov"]),
                                tolc * n / (n - 1))
        except Exception as ex:  # noqa  the real code raised where a result is demanded
            bad.append(dict(where=where(), cls="*", quantity="raised", index=None,
                            got="%s: %s" % (type(ex).__name__, ex), want="a result"))
    return steps, ncmp, bad, worst


def _chk_cov(c):
    st_, nc, bad, w = check_cov_case(c)
    return st_, nc, bad[:3], len(bad), w


def covariance_machine(rep, ext_jobs, ext_results):
    """RunningCovariance / RunningCovarianceMatrix against SpecCov (C19 names covariance and covariance matrix): every
    emitted behaviour is stepped call by call on the real classes; a mismatch is a C19 violation.  Machinery trouble in
    here raises (the caller turns it into a note).  Returns the number of violations."""
    import copy
    out = dict(what="RunningCovariance / RunningCovarianceMatrix (update, update_from_it, count, xmean, ymean, C, covar, "
                    "sample_covar, covar_matrix, sample_covar_matrix) stepped call by call, read after every call, against "
                    "the exact-rational machine SpecCov of RunStats.tla", tlc_runs=[])
    cases = []
    for (label, emit, tkw, expect, kw), r in zip(ext_jobs, ext_results):
        if isinstance(r, BaseException):
            raise r
        out["tlc_runs"].append(dict(name=label, **r.summary()))
        if expect is not None:
            out["selftest_buggy_variant_rejected_by"] = r.violated
            if r.violated is None or r.violated not in expect.split("|"):
                raise tlc.TLCError("self-test failed: Variant=oldmean is not rejected by the SpecCov invariants (got %r)" % (r.violated,))
            continue
        rep.add_tlc(label, r)
        if r.violated:
            raise tlc.TLCError("TLC: invariant %s of SpecCov violated in %s - the model is wrong or the algebra fails: %r"
                               % (r.violated, label, r.trace[-1:] if r.trace else None))
        if emit:
            cases.extend(r.cases)
            # non-vacuity: both kinds of call occur in what was emitted, and a read separates two chunked feeds
            if not any(0 in c["calls"] for c in r.cases) or not any(
                    any(x >= 2 and y >= 1 for x, y in zip(c["calls"], c["calls"][1:])) for c in r.cases):
                raise tlc.TLCError("vacuous: %s emitted no update / no consecutive update_from_it calls" % label)
    out["states"] = sum(t["distinct"] for t in out["tlc_runs"])
    out["transitions"] = sum(t["generated"] for t in out["tlc_runs"])
    out["emitted_behaviours"] = len(cases)
    if not cases:
        raise tlc.TLCError("SpecCov emitted no behaviour")
    # every behaviour is replayed, under every map, with its first call spelt all-ndarray (float64, and int64 under k:int)
    # and with one of all-list / all-tuple / all-generator; what matters most: a chunked FIRST call followed by further calls
    first_chunk = [c for c in cases if c["calls"][0] >= 1 and len(c["calls"]) >= 2]
    out["first_call_spellings"] = dict(
        behaviours_with_chunked_first_call_then_more_calls=len(first_chunk),
        of_which_first_chunk_has_2_or_more_samples=sum(1 for c in first_chunk if c["calls"][0] >= 2),
        replayed_as=["all ndarray float64 (maps k, 5+k/128)", "all ndarray int64 (map k:int)",
                     "all list / all tuple / all generator in turn"])
    if out["first_call_spellings"]["of_which_first_chunk_has_2_or_more_samples"] < 100:
        raise tlc.TLCError("vacuous: too few behaviours start with a chunked call followed by further calls")
    # binding self-test: a corrupted snapshot must be noticed (judged below, only if the code conforms)
    d = copy.deepcopy([c for c in cases if c["k"] == 2 and c["n"] >= 3][0])
    d["trace"][-1][0][1]["c"][0] += 1
    d["trace"][-1][0][1]["covar"][0] += 1
    out["corrupted_snapshot_rejected"] = len(check_cov_case(d)[2]) > 0
    steps = ncmp = nbad = 0
    worst = 0.0
    shown = 0
    for c, (st_, nc, bad, nb, w) in zip(cases, common.pmap(_chk_cov, cases)):
        steps += st_
        ncmp += nc
        nbad += nb
        worst = max(worst, w)
        sample = None
        if shown < 1 and c["k"] == 2 and len(c["calls"]) == 2 and min(c["calls"]) >= 1:
            shown += 1
            sample = c
        rep.add_case(["cov", c["xs"], c["calls"]], traces=len(COV_MAPS), sample=sample)
        for b in bad:
            rep.add_violation(dict(c, failing=b), _what(b), key=_key(b, "cov"))
    out.update(replayed_behaviours=len(cases), maps=[m[0] for m in COV_MAPS], steps_compared=steps, comparisons=ncmp,
               mismatches=nbad, worst_fraction_of_tolerance=float("%.3g" % worst),
               tolerance="mean %g*n*eps*max|x|; C %g*n^2*eps*(A_i*D_j + A_j*D_i)/2, covar that / n" % (COV_CM, COV_CC))
    rep.extra["covariance_machine"] = out
    rep.note("covariance machine (SpecCov): %d TLC states, %d emitted behaviours replayed call by call on RunningCovariance / "
             "RunningCovarianceMatrix under %d maps, %d steps (every one followed by a read of all accessors), %d comparisons, "
             "%d mismatch(es), worst error/tolerance %.3g" % (out["states"], len(cases), len(COV_MAPS), steps, ncmp, nbad, worst))
    if not out["corrupted_snapshot_rejected"]:
        if nbad == 0:
            raise RuntimeError("binding self-test: a corrupted co-moment in an emitted snapshot was not noticed by the replay")
        rep.note("covariance-machine binding self-test inconclusive (the code under test deviates, see the violations)")
    return nbad


def _merge_worst(into, w):
    for k, v in w.items():
        into[k] = max(into.get(k, 0.0), v)


def _key(b, kind):
    return dict(kind=kind, cls=b.get("cls"), quantity=b.get("quantity"))


def _what(b):
    idx = b.get("index")
    idx = "" if idx is None else "[%s]" % (",".join(map(str, idx)) if isinstance(idx, list) else idx)
    s = "%s.%s%s [%s]: got %s, expected %s" % (b.get("cls"), b.get("quantity"), idx,
                                               b.get("where"), b.get("got"), b.get("want"))
    if "tolerance" in b:
        s += " (tolerance %.3g)" % b["tolerance"]
    if "note" in b:
        s += " - " + b["note"]
    return s


def run(rep):
    thorough = rep.tier == "thorough"
    common.scratch_root()
    real_classes()
    rep.rule = ("SpecStats: every history over the sample alphabet up to MaxLen, every way of cutting it into update / "
                "update_from_it calls (chunks <= MaxChunk), one of the named permutations (all permutations in the "
                "'allperm' model); SpecStop: every (rtol, tol_scale, min_samples, max_samples) of the grid x every scripted "
                "sample sequence; a case is non-trivial when n >= 2 (stats) / not an exact tie (stop); distinct = distinct "
                "(history, calls, permutation) resp. (parameters, drawn sequence); each is replayed under 4-5 affine maps x "
                "4 ways of feeding (stats) resp. 3 scales (stop); SpecCov: every history of pairs / triples up to MaxLen x every "
                "cut into calls, replayed call by call with all accessors read after every call, under 3 maps")
    rep.assumptions = [
        "TLC proves the algebra (running update = whole-sample formula, order/chunk independence, stop-machine invariants) "
        "only over bounded small integers; floating-point accuracy is decided by the harness against the model's exact "
        "rationals under the tolerances stated at the top of vx/props/C19.py (mean 4*n*eps*max|x|; var/cov "
        "8*(n*eps*max|x|*max|x-mean| + eps*|cov|)), calibrated with >= 10x head-room on the unmodified code",
        "the map 1e9 + k/1000 is not exactly representable: the measured input rounding (<= 6e-8) is added to the tolerance",
        "the beyond-the-model sweep (random float sequences up to n = 500, noisy generators for estimate_from_repeats) "
        "takes its expectations from exact integer/Fraction arithmetic in the harness, not from TLC",
        "exact ties of the convergence predicate (flagged by the spec; within 1e-6 relative on squares in the noisy sweep) "
        "are skipped",
        "the exact stopping count of the pinned code (first check at 0-based index > min_samples) is modelled but only "
        "noted as model drift when the real code differs while still satisfying the property",
        "within one update_from_it call all series are spelt the same way (all list / all tuple / all ndarray float64 or int64 "
        "/ all generator), rotating over the calls; every cut feed is run with the first call all-ndarray and with one of "
        "the other spellings first",
        "RunningCovarianceMatrix.update_from_it is fed re-iterable arguments (list/tuple/ndarray); one-shot iterators are "
        "only used for RunningStatistics and RunningCovariance",
    ]
    seed = rep.seed

    # ---- the TLC jobs (run concurrently; emission and simulation are single-worker) -------------
    S1 = tuples(range(-3, 4))
    S2q = tuples(range(-2, 3), 2)
    S2s = {(-3, 3), (0, 0), (1, 2), (3, -3), (2, 2), (-1, 0), (3, 1), (-2, -3)}
    S3 = {(-3, 3, 1), (0, 0, 0), (1, 2, 3), (3, -3, 2), (2, 2, -1), (-1, 0, 3)}
    S4 = {(-3, 3, 1, 0), (1, 2, 3, -1), (3, -3, 2, 2), (0, 1, -2, 3)}
    ps_q, ts_q = [(1, 10), (1, 2), (1, 1), (2, 1)], [(0, 1), (1, 1), (4, 1)]
    ps_t, ts_t = [(1, 10), (1, 4), (1, 2), (1, 1), (2, 1)], [(0, 1), (1, 2), (1, 1), (4, 1)]
    jobs = []

    def job(label, machine, emit=False, tlc_kw=None, expect=None, **kw):
        tkw = dict(tlc_kw or {})
        if "workers" in tkw:                 # stated for 16 cores; scaled to VX_NCPU
            tkw["workers"] = max(1, tkw["workers"] * common.NCPU // 16)
        jobs.append((label, machine, emit, tkw, expect, kw))

    if thorough:
        job("stats K=1 exhaustive", "stats", tlc_kw=dict(coverage=True, workers=8), MaxLen=7, MaxChunk=3, PermKinds={"rev", "oddeven"})
        job("stats K=2 exhaustive", "stats", tlc_kw=dict(workers=6), K=2, Samples=S2q, MaxLen=4, MaxChunk=2, PermKinds={"rev", "rot"})
        job("stats K=3 exhaustive", "stats", tlc_kw=dict(workers=4), K=3, Samples=S3, MaxLen=5, MaxChunk=3, PermKinds={"rev", "swap"})
        job("stats K=4 exhaustive", "stats", tlc_kw=dict(workers=2), K=4, Samples=S4, MaxLen=5, MaxChunk=3, PermKinds={"rev", "oddeven"})
        job("stats all permutations", "stats", tlc_kw=dict(workers=6), MaxLen=5, PermKinds={"all"})
        job("stop exhaustive", "stop", tlc_kw=dict(coverage=True, workers=8), Samples=tuples((-2, 0, 1, 3)), MaxLen=8,
            Params=param_set(ps_t, ts_t, [0, 1, 2, 3], [1, 2, 3, 4, 5, 6, 7]))
    else:
        job("stats K=1 len<=6 over -2..2", "stats", tlc_kw=dict(workers=4), Samples=tuples(range(-2, 3)), MaxLen=6, MaxChunk=2,
            PermKinds={"rev"})
        job("stats K=1 len<=5 over -3..3, chunks<=3", "stats", tlc_kw=dict(coverage=True, workers=8), MaxLen=5,
            MaxChunk=3, PermKinds={"rot", "oddeven"})
        job("stats K=2 exhaustive", "stats", tlc_kw=dict(workers=4), K=2, Samples=tuples((-2, 0, 1, 3), 2), MaxLen=3, MaxChunk=2,
            PermKinds={"rev", "rot"})
        job("stats K=3 exhaustive", "stats", tlc_kw=dict(workers=2), K=3, Samples=S3, MaxLen=4, MaxChunk=2, PermKinds={"rev", "swap"})
        job("stats all permutations", "stats", tlc_kw=dict(workers=4), Samples=tuples(range(-2, 3)), MaxLen=4, PermKinds={"all"})
        job("stop exhaustive", "stop", tlc_kw=dict(coverage=True, workers=8), Samples=tuples((-2, 1, 3)), MaxLen=7,
            Params=param_set(ps_q, ts_q, [0, 1, 2], [1, 2, 3, 5, 6]))
    # non-vacuity: buggy variants that TLC must reject
    job("self-test oldmean", "stats", tlc_kw=dict(workers=1), expect="WholeSample", MaxLen=3, MaxChunk=2, Variant="oldmean")
    job("self-test limit1", "stop", tlc_kw=dict(workers=1), expect="NeverExceeds", Samples=tuples((-2, 1, 3)), MaxLen=8,
        Variant="limit1", Params=param_set([(1, 2)], [(1, 1)], [1], [1, 3]))
    job("self-test nocheck", "stop", tlc_kw=dict(workers=1), expect="StopSound|ReasonTrue", Samples=tuples((-2, 1, 3)), MaxLen=8,
        Variant="nocheck", Params=param_set([(1, 10)], [(0, 1)], [1], [6]))
    # emission (exhaustive, small) ...
    E1 = tuples((-3, -1, 0, 2))
    E2 = {(-3, 3), (0, 0), (1, 2), (3, -3), (2, 2), (-1, 0)}
    job("emit stats K=1", "stats", emit=True, Samples=E1 if not thorough else S1, MaxLen=4, MaxChunk=3, TrackCalls=True,
        PermKinds={"rev"} if not thorough else {"rev", "oddeven"})
    job("emit stats K=2", "stats", emit=True, K=2, Samples=E2, MaxLen=3 if not thorough else 4, MaxChunk=3, TrackCalls=True,
        PermKinds={"rot"})
    job("emit stats K=3", "stats", emit=True, K=3, Samples=set(sorted(S3)[:4]) if not thorough else S3, MaxLen=3, MaxChunk=3,
        TrackCalls=True, PermKinds={"swap"})
    job("emit stats K=4", "stats", emit=True, K=4, Samples=set(sorted(S4)[:3]) if not thorough else S4, MaxLen=3, MaxChunk=2,
        TrackCalls=True, PermKinds={"oddeven"})
    if thorough:
        job("emit stop", "stop", emit=True, Samples=tuples((-2, 1, 3)), MaxLen=8,
            Params=param_set(ps_t, ts_t, [0, 1, 2, 3], [1, 2, 3, 5, 6, 7]))
    else:
        job("emit stop", "stop", emit=True, Samples=tuples((-2, 1, 3)), MaxLen=7,
            Params=param_set(ps_q, ts_q, [0, 1, 2], [1, 2, 3, 5, 6]))
    # ... and simulation of the larger models (long histories, long runs)
    sims = ([(1, S1, 40, 150), (2, S2s, 60, 60), (3, S3, 30, 60)] if not thorough else
            [(1, S1, 40, 600), (1, S1, 500, 150), (2, S2s, 200, 150), (3, S3, 500, 60),
             (4, S4, 300, 60), (2, S2s, 30, 600)])
    for k, smp, mxl, num in sims:
        job("simulate stats K=%d len<=%d" % (k, mxl), "stats", emit=True,
            tlc_kw=dict(simulate=dict(num=num), depth=mxl + 4, seed=seed), K=k, Samples=smp, MinLen=max(1, mxl // 3), MaxLen=mxl,
            MaxChunk=3, TrackCalls=True, PermKinds={"rev", "oddeven", "rot"})
    job("simulate stop", "stop", emit=True, tlc_kw=dict(simulate=dict(num=400 if not thorough else 4000), depth=6 * 60 + 8, seed=seed),
        Samples=tuples(range(-3, 4)), MaxLen=60,
        Params=param_set([(1, 10), (1, 5), (1, 2), (1, 1)], [(0, 1), (1, 1), (5, 1)], [0, 3, 5, 10], [8, 20, 40, 60]))

    # the stop machine beyond 1024 draws: samples +-1 keep (n+1)*u < 2^31 up to n = 1289; rtol = 0 never converges
    job("simulate stop long", "stop", emit=True,
        tlc_kw=dict(simulate=dict(num=2 if not thorough else 8), depth=4 * 1280 + 8, seed=seed),
        Samples=tuples((-1, 1)), MaxLen=1280,
        Params=param_set([(0, 1)], [(0, 1), (1, 1)], [5, 20], [1050, 1101] if not thorough else [1100, 1201, 1280]))

    def _run(j):
        label, machine, emit, tkw, expect, kw = j
        name = "MC_RS_" + "".join(ch if ch.isalnum() else "_" for ch in label)
        return run_model(name, machine, emit=emit, tlc_kw=tkw, **kw)

    # the covariance machine (SpecCov): its TLC runs share the pool; a machinery failure in them is kept as a value
    try:
        ext_jobs = cov_jobs(thorough)
    except Exception as e:  # noqa
        ext_jobs = []
        rep.note("covariance-machine extension failed (machinery): %s: %s" % (type(e).__name__, e))

    def _run_ext(j):
        try:
            label, emit, tkw, expect, kw = j
            tkw = dict(tkw)
            if "workers" in tkw:
                tkw["workers"] = max(1, tkw["workers"] * common.NCPU // 16)
            name = "MC_RS_" + "".join(ch if ch.isalnum() else "_" for ch in label)
            return run_model(name, "cov", emit=emit, tlc_kw=tkw, **kw)
        except Exception as e:  # noqa
            return e

    import time
    t0 = time.time()
    with concurrent.futures.ThreadPoolExecutor(max_workers=max(2, min(6, common.NCPU // 2))) as pool:
        ext_futures = [pool.submit(_run_ext, j) for j in ext_jobs]
        results = list(pool.map(_run, jobs))
        ext_results = [f.result() for f in ext_futures]
    t1 = time.time()

    stats_cases, stop_cases = [], []
    for (label, machine, emit, tkw, expect, kw), r in zip(jobs, results):
        if expect is not None:
            if r.violated is None or r.violated not in expect.split("|"):
                raise tlc.TLCError("self-test failed: buggy variant %r not rejected (%s; got %r)" % (kw.get("Variant"), expect, r.violated))
            rep.note("self-test: Variant=%s violates %s in TLC, as expected" % (kw["Variant"], r.violated))
            continue
        rep.add_tlc(label, r)
        if r.violated:
            raise tlc.TLCError("TLC: %s violated in the model of the code as pinned (%s) - the model is wrong or the "
                               "algebra fails; trace: %r" % (r.violated, label, r.trace[-1:] if r.trace else None))
        if tkw.get("coverage"):
            need = (("Update", "UpdateChunk", "PermuteSome") if machine == "stats" else
                    ("Draw", "Absorb", "SkipCheck", "Check", "StopConverged", "StopLimit", "Loop"))
            for act in need:
                if r.coverage.get(act, (0, 0))[1] == 0:
                    raise tlc.TLCError("vacuous: action %s never taken in %s" % (act, label))
        if emit:
            (stats_cases if machine == "stats" else stop_cases).extend(r.cases)

    # de-duplicate (simulation prints a state once per visit)
    def uniq(cases, keyf):
        seen, out = set(), []
        for c in cases:
            k = common.stable_hash(keyf(c))
            if k not in seen:
                seen.add(k)
                out.append(c)
        return out

    stats_cases = uniq(stats_cases, lambda c: [c["xs"], c["calls"], c["perm"]])
    stop_cases = uniq(stop_cases, lambda c: [c["p"], c["q"], c["a"], c["b"], c["mn"], c["mx"], c["xs"]])
    if len(stats_cases) < 5000 or len(stop_cases) < 5000:
        raise tlc.TLCError("too few emitted cases: %d stats, %d stop" % (len(stats_cases), len(stop_cases)))
    reasons = {c["reason"] for c in stop_cases}
    if not {"converged", "limit"} <= reasons or not any(c["reason"] == "converged" and c["n"] < c["mx"] for c in stop_cases):
        raise tlc.TLCError("vacuous: stop cases lack a reason %r" % (reasons,))

    # ---- binding self-test: the tolerances reject a sum-of-squares accumulator ---------------------
    rep.extra["naive_sum_of_squares_selftest"] = naive_selftest(stats_cases)
    # (it replays corrupted cases on the code under test: if that code itself deviates, the self-test says nothing -
    #  it is only a machinery failure when the code conforms on everything replayed below)
    selftest_error = None
    try:
        rep.note("binding self-test: " + binding_selftest(stats_cases, stop_cases))
    except RuntimeError as e:
        selftest_error = e

    # ---- replay into the real code ------------------------------------------------------------
    worst_model, worst_sweep, worst_stop = {}, {}, {}
    nviol = 0
    shown = {}

    def sample(kind, ok, value):
        if ok and shown.get(kind, 0) < 2 - (kind in ("sweep", "noisy", "long", "stop")):
            shown[kind] = shown.get(kind, 0) + 1
            return value
        return None
    for c, (bad, worst) in zip(stats_cases, common.pmap(_chk_stats, stats_cases)):
        _merge_worst(worst_model, worst)
        nm = len(mapsets_for(c))
        rep.add_case(["stats", c["xs"], c["calls"], c["perm"]], nontrivial=c["n"] >= 2, traces=4 * nm,
                     sample=sample("stats", c["n"] == 3 and c["k"] == 2 and c["cov"][0][1][0] != 0 and len(c["calls"]) == 2,
                                   dict((k, c[k]) for k in ("kind", "k", "n", "xs", "calls", "perm", "mean", "cov", "scov", "err2"))))
        for b in bad[:3]:
            nviol += 1
            rep.add_violation(dict(c, failing=b), _what(b), key=_key(b, "stats"))
    drifts = []
    for c, (bad, drift, worst) in zip(stop_cases, common.pmap(check_stop_case, stop_cases)):
        _merge_worst(worst_stop, worst)
        rep.add_case(["stop", c["p"], c["q"], c["a"], c["b"], c["mn"], c["mx"], c["xs"]], nontrivial=not c["tie"],
                     traces=0 if c["tie"] else len(SCALES),
                     sample=sample("stop", c["reason"] == "converged" and c["n"] == 4 and c["mx"] > 4, c))
        if drift:
            drifts.append(drift)
        for b in bad[:3]:
            nviol += 1
            rep.add_violation(dict(c, failing=b), _what(b), key=_key(b, "stop"))
    # beyond the model
    nsweep = 4000 if thorough else 400
    nbig = 0
    for meta, bad, worst in common.pmap(check_sweep_case, [(seed, i) for i in range(nsweep)]):
        _merge_worst(worst_sweep, worst)
        nbig += meta["ndarray_chunks_ge32"]
        rep.add_case(["sweep", meta["seed"], meta["idx"]], nontrivial=meta["n"] >= 2, traces=4,
                     sample=sample("sweep", True, meta))
        for b in bad[:3]:
            nviol += 1
            rep.add_violation(dict(meta, failing=b), _what(b), key=_key(b, "sweep"))
    if nbig < 100:
        raise RuntimeError("vacuous: only %d update_from_it(ndarray of >= 32 values) calls into non-empty accumulators" % nbig)
    rep.extra["ndarray_chunks_ge32_into_nonempty_accumulators"] = nbig * 2   # x (RunningStatistics, ..Matrix) at least; cut feed in the given order
    nnoisy = 20000 if thorough else 1500
    for meta, bad, drift, worst in common.pmap(check_noisy_case, [(seed, i) for i in range(nnoisy)]):
        _merge_worst(worst_stop, worst)
        rep.add_case(["noisy", meta["seed"], meta["idx"]], sample=sample("noisy", True, meta))
        if drift:
            drifts.append(drift)
        for b in bad[:3]:
            nviol += 1
            rep.add_violation(dict(meta, failing=b), _what(b), key=_key(b, "noisy"))
    nlong, late_seen, limit_seen = long_count(thorough), 0, 0
    for meta, bad, drift, worst in common.pmap(check_long_case, [(seed, i) for i in range(nlong)]):
        _merge_worst(worst_stop, worst)
        if meta["expect"] == "limit":
            if meta["model_n"] != meta["mx"]:
                raise RuntimeError("long run %r was generated not to converge, the exact oracle says %r" % (meta, meta["model_n"]))
            limit_seen += 1
        elif meta["model_n"] is not None and 1024 < meta["model_n"] < meta["mx"]:
            late_seen += 1
        rep.add_case(["long", meta["seed"], meta["idx"]], sample=sample("long", meta["expect"] == "late", meta))
        if drift:
            drifts.append(drift)
        for b in bad[:3]:
            nviol += 1
            rep.add_violation(dict(meta, failing=b), _what(b), key=_key(b, "long"))
    if limit_seen < 2 * len(LONG_MX) or late_seen < 2:
        raise RuntimeError("vacuous: long runs: %d to the limit, %d converging late" % (limit_seen, late_seen))
    rep.extra["long_runs"] = dict(
        note="estimate_from_repeats runs of 1025..8200 samples (max_samples in %r to the limit with scripted-cyclic and noisy "
             "generators; %d converging after > 1024 samples). TLC's 32-bit integers bound the stop machine to n <= 1289 "
             "(samples +-1; see 'simulate stop long'), so beyond that these sizes are harness-only: the rule checked is "
             "RunStats.tla's NeverExceeds / ExactlyDrawn / StopSound, the prefix statistics and the exact predicate come "
             "from Fractions in the harness" % (LONG_MX, late_seen),
        runs=nlong, to_the_limit=limit_seen, converging_late=late_seen)
    if drifts:
        rep.note("model_drift: %d run(s) of estimate_from_repeats stopped at a count other than the pinned code's while "
                 "satisfying the property, e.g. %s" % (len(drifts), drifts[0]))
    rep.extra["phase_wall_s"] = dict(tlc=round(t1 - t0, 1), replay=round(time.time() - t1, 1))
    rep.exhaustive = True
    rnd = lambda d: {k: float("%.3g" % v) for k, v in sorted(d.items())}  # noqa
    rep.extra["model_cases"] = dict(stats=len(stats_cases), stop=len(stop_cases))
    rep.extra["beyond_the_model_sweep"] = dict(
        label="beyond-the-model: expectations from exact integer/Fraction arithmetic in the harness, not from TLC",
        stats_sequences=nsweep, estimate_from_repeats_runs=nnoisy, max_n=500,
        worst_fraction_of_tolerance=rnd(worst_sweep))
    rep.extra["worst_fraction_of_tolerance"] = dict(model_cases=rnd(worst_model), stop_cases=rnd(worst_stop),
                                                    sweep=rnd(worst_sweep))
    if selftest_error is not None:
        if nviol == 0:
            raise selftest_error
        rep.note("binding self-test inconclusive (the code under test deviates from the model, see the violations): %s" % selftest_error)
    if nviol == 0:
        w = max(list(worst_model.values()) + list(worst_sweep.values()) + list(worst_stop.values()) + [0.0])
        if w > MAX_FRACTION:
            rep.note("calibration: worst |error|/tolerance = %.3g exceeds the intended head-room %.2g (no violation)" % (w, MAX_FRACTION))
    one_shot_iterator_probe(rep)
    t2 = time.time()
    try:                      # only machinery exceptions end up here; mismatches are violations
        if ext_jobs:
            covariance_machine(rep, ext_jobs, ext_results)
    except Exception as e:  # noqa
        rep.note("covariance-machine extension failed (machinery): %s: %s" % (type(e).__name__, str(e)[:300]))
    rep.extra["phase_wall_s"]["covariance_machine_replay"] = round(time.time() - t2, 1)


def one_shot_iterator_probe(rep):
    """Observation only (outside the property as stated): RunningCovarianceMatrix.update_from_it with
    one-shot iterators."""
    _, _, RCM = real_classes()
    try:
        a, b = [1.0, 2.0, 4.0, 7.0], [2.0, 1.0, 0.0, 5.0]
        m1, m2 = RCM(2), RCM(2)
        m1.update_from_it(a, b)
        m2.update_from_it(iter(a), iter(b))
        same = m1.count == m2.count and (m1.covar_matrix == m2.covar_matrix).all()
    except Exception as e:  # noqa
        same = "raised %s" % type(e).__name__
    if same is not True:
        rep.note("observation (not part of C19): RunningCovarianceMatrix.update_from_it needs re-iterable arguments; with "
                 "one-shot iterators the result differs from the list-fed one (%s)" % (same,))


def replay(rep, case):
    kind = case.get("kind")
    if kind == "stats":
        bad, _ = check_stats_case(case)
    elif kind == "stop":
        bad, drift, _ = check_stop_case(case)
    elif kind == "sweep":
        _, bad, _ = check_sweep_case((case["seed"], case["idx"]))
    elif kind == "noisy":
        _, bad, drift, _ = check_noisy_case((case["seed"], case["idx"]))
    elif kind == "long":
        _, bad, drift, _ = check_long_case((case["seed"], case["idx"]))
    elif kind == "cov":
        bad = check_cov_case(case)[2]
    else:
        raise RuntimeError("unknown case kind %r" % (kind,))
    for b in bad:
        rep.add_violation(case, _what(b), key=_key(b, kind))
