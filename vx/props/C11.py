"""C11 - concurrent growers and a waiting reaper always agree, under every interleaving.
CropFS.tla with the growers' file-system programs recorded from the real grow() on every run; TLC explores every
interleaving of growers, reap(wait=True) and a progress poller; counterexamples and simulated schedules are forced
onto real threads running the real code by the deterministic scheduler of vx/fsproxy.py."""
import os
import random

from .. import common, cropfs, tlc

# (label, n settings, num_batches, [(writer, batch)], npolls)
CONFIGS_Q = [
    ("1g1b", 1, 1, [("g1", 1)], 2),
    ("2g2b", 2, 2, [("g1", 1), ("g2", 2)], 1),
    ("2g1b_same", 2, 1, [("g1", 1), ("g2", 1)], 1),
    ("3g2b", 3, 2, [("g1", 1), ("g2", 2), ("g3", 1)], 1),
    # growers that are threads of one process (same pid) growing the same batch
    ("2g1b_same_pid", 2, 1, [("g1", 1), ("g2", 1)], 1),
    # ... and different batches (threads of one process, e.g. Crop.grow(ids, executor=ThreadPoolExecutor()))
    ("2g2b_same_pid", 2, 2, [("g1", 1), ("g2", 2)], 1),
]
CONFIGS_T = CONFIGS_Q + [
    ("3g3b", 3, 3, [("g1", 1), ("g2", 2), ("g3", 3)], 1),
    ("2g2b_p2", 4, 2, [("g1", 2), ("g2", 1)], 2),
    ("3g1b_same", 2, 1, [("g1", 1), ("g2", 1), ("g3", 1)], 1),
    ("3g3b_p2", 6, 3, [("g1", 3), ("g2", 1), ("g3", 2)], 2),
    ("4g2b", 4, 2, [("g1", 1), ("g2", 2), ("g3", 1), ("g4", 2)], 1),
    ("3g2b_same_pid", 3, 2, [("g1", 1), ("g2", 2), ("g3", 1)], 1),
]


def _one_config(job):
    label, n, nb, wr, npolls, tier, seed = job
    out = dict(label=label, tlc=[], cases=[], notes=[], violations=[])
    try:
        os.dup2(os.open(os.devnull, os.O_WRONLY), 2)      # tqdm bars of reap()
    except Exception:
        pass
    setup = cropfs.Setup(n, nb, seeding=label.endswith("_pid"))     # (same process: the function seeds the global RNGs)
    try:
        writers = [(w, b, 9000 if label.endswith("_pid") else 9000 + k) for k, (w, b) in enumerate(wr)]
        progs, names = cropfs.record_programs(setup, writers)
        out["programs"] = {w: [list(op) for op in ops] for w, ops in progs.items()}
        consts = cropfs.model_constants(progs, writers, setup.nb, npolls, max_sleeps=2)
        nsim = (150 if tier == "quick" else 4000)
        found = False
        for inv in ("ReaperNeverSeesPartial", "PollerNeverCountsPartial", "ReaperExact"):
            r = cropfs.run_model("MC_C11_%s_%s" % (label, inv[:8]), consts, invariants=["TypeOK", inv], coverage=(inv == "ReaperExact"),
                                 workers=max(2, common.NCPU // 4))
            out["tlc"].append(("%s %s" % (label, inv), r.summary(), dict(r.coverage)))
            if r.violated and r.violated != "TypeOK":
                found = True
                steps = cropfs.schedule_from_trace(r.trace)
                obs = cropfs.execute(setup, writers, steps, npolls)
                prob, tag = cropfs.judge(setup, obs, True)
                case = dict(kind="counterexample", config=label, invariant=inv, steps=[list(s) for s in steps],
                            programs=out["programs"])
                out["cases"].append((case, True))
                if prob:
                    out["violations"].append((case, prob, dict(tag=tag, config=label)))
                else:
                    out["notes"].append("model_imprecision: TLC counterexample of %s in %s did not reproduce on the real code (drift: %s)" % (
                        inv, label, obs["drift"][:1]))
            elif r.violated == "TypeOK":
                raise tlc.TLCError("TypeOK violated in " + label)
        if not found:
            # liveness on the smallest shapes: under fairness the reaper gets through
            if len(wr) <= 2:
                lconsts = dict(consts)
                lconsts["NPolls"] = 0
                r = tlc.run_mc("CropFS", lconsts, "SPECIFICATION FairSpec\nPROPERTY ReaperTerminates\nCHECK_DEADLOCK FALSE\n",
                               name="MC_C11_%s_live" % label, workers=2)
                out["tlc"].append(("%s liveness" % label, r.summary(), {}))
                if r.violated:
                    out["notes"].append("lead: ReaperTerminates violated in the model for %s" % label)
            econsts = dict(consts)
            econsts["Record"] = True
            e = cropfs.run_model("MC_C11_%s_sim" % label, econsts, emit=True, simulate=dict(num=nsim), depth=200, seed=seed,
                                 workers=1, invariants=[])
            out["tlc"].append(("%s simulate" % label, e.summary(), {}))
            seen = {}
            for c in e.cases:
                seen.setdefault(common.stable_hash(c["hist"]), c)
            for c in seen.values():
                steps = [(a, None if k in ("crash",) else k) for a, k in c["hist"]]
                obs = cropfs.execute(setup, writers, steps, npolls)
                prob, tag = cropfs.judge(setup, obs, True)
                case = dict(kind="schedule", config=label, steps=[list(s) for s in steps], programs=out["programs"])
                out["cases"].append((case, len(steps) > 6))
                if obs["drift"]:
                    out["notes"].append("model_drift in %s: %s" % (label, obs["drift"][0]))
                if prob:
                    out["violations"].append((case, prob, dict(tag=tag, config=label)))
                elif not obs["drift"]:
                    # conformance: the model's prediction of the end state
                    done = obs["reaper"]["state"] == "done" and obs["reaper"]["exc"] is None
                    if c["rpc"] == "done" and not done:
                        out["notes"].append("model_drift in %s: model says the reaper finishes, real reaper state %s" % (label, obs["reaper"]["state"]))
    finally:
        setup.close()
    return out


def run(rep):
    rep.rule = ("for each configuration (1-3 growers on 1-3 batches incl. two growers of the same batch, one reap(wait=True), one poller) the "
                "growers' programs are recorded from the real code, TLC explores every interleaving (3 invariants, liveness under fairness on the "
                "small shapes), counterexamples are replayed on the real code and a seeded set of simulated schedules is forced onto real threads; "
                "distinct = distinct schedules; non-trivial = more than 6 operations")
    rep.assumptions = ["operations on results/ are the scheduling points (creat, each half of a write, close, rename, unlink, stat, read, list, sleep)",
                       "a reader's open+read is one step (it sees one prefix of the file)",
                       "path-based file model: two writers of one name truncate each other's content",
                       "reap is called with clean_up=False so that late growers still find the directory"]
    cfgs = CONFIGS_Q if rep.tier == "quick" else CONFIGS_T
    jobs = [c + (rep.tier, rep.seed) for c in cfgs]
    results = common.pmap(_one_config, jobs, procs=min(4, len(jobs)), chunksize=1)
    # every progress query (num_results, missing_results, is_ready_to_reap) polled while two growers write
    try:
        os.dup2(os.open(os.devnull, os.O_WRONLY), 2)
    except Exception:
        pass
    cropfs.full_poller_config(rep, "C11_fullpoll", 2, 2, [("g1", 1), ("g2", 2)], 120 if rep.tier == "quick" else 2500)
    for out in results:
        for name, summ, cov in out["tlc"]:
            class R(object):
                pass
            r = R()
            r.distinct, r.generated, r.coverage = summ["distinct"], summ["generated"], cov
            r.summary = lambda summ=summ: summ
            rep.add_tlc(name, r)
        for n in out["notes"][:6]:
            rep.note(n)
        rep.extra.setdefault("recorded_programs", {})[out["label"]] = out.get("programs")
        for case, nontrivial in out["cases"]:
            rep.add_case([case["config"], case["steps"]], nontrivial=nontrivial,
                         sample=case if len(rep.samples) < 3 and len(case["steps"]) > 8 else None)
        for case, prob, key in out["violations"]:
            rep.add_violation(case, prob, key=key)


def replay_fullpoll(rep, case):
    setup = cropfs.Setup(2, 2)
    try:
        writers = [("g1", 1, 9200), ("g2", 2, 9201)]
        obs = cropfs.execute(setup, writers, [tuple(s) for s in case["steps"]], npolls=1, with_reaper=False, fullpoll=True)
        prob, tag = cropfs.judge(setup, obs, False)
        if prob:
            rep.add_violation(case, prob, key=dict(tag=tag, config=case.get("config")))
    finally:
        setup.close()


def replay(rep, case):
    if str(case.get("kind", "")).startswith("fullpoll_"):
        return replay_fullpoll(rep, case)
    cfg = [c for c in CONFIGS_T if c[0] == case["config"]][0]
    label, n, nb, wr, npolls = cfg
    setup = cropfs.Setup(n, nb, seeding=label.endswith("_pid"))     # (same process: the function seeds the global RNGs)
    try:
        writers = [(w, b, 9000 if label.endswith("_pid") else 9000 + k) for k, (w, b) in enumerate(wr)]
        obs = cropfs.execute(setup, writers, [tuple(s) for s in case["steps"]], npolls)
        print("drift:", obs["drift"])
        prob, tag = cropfs.judge(setup, obs, True)
        if prob:
            rep.add_violation(case, prob, key=dict(tag=tag, config=label))
    finally:
        setup.close()
