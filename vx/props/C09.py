"""C09 - a partial reap shows finished batches exactly and everything else as missing.
Crop.tla (PartialReapWorks, ReapEqualsDirect on partial reaps, RefusedUntouched) over all non-empty proper
subsets of finished batches + replay into reap(allow_incomplete=True) for raw / Dataset / DataFrame crops."""
from .. import crop, tlc

CLAIMS = ("reap_value_partial", "reap_raise_partial", "reap_refuse", "reap_value_complete", "reap_raise_complete",
          "dir_reap", "obs_reap", "store")


def configs(tier):
    mk = crop.mk
    out = []
    q = tier == "quick"
    i = 0
    # (N, batching) with and without remainder, B <= 5 (quick) / 7 (thorough)
    for n in ([2, 3, 4, 5, 7, 9] if q else [2, 3, 4, 5, 6, 7, 8, 9, 10, 11, 12, 13]):
        opts = [("count", k) for k in range(2, min(n, 5 if q else 7) + 1)] + \
               [("size", s) for s in range(1, n) if 2 <= -(-n // s) <= (5 if q else 7)]
        for bmode, bval in opts:
            i += 1
            farmer = ["none", "none", "runner", "sampler", "none"][i % 5]
            if farmer == "sampler":
                out.append(mk([], nca=1, cases=[[v] for v in range(1, n + 1)], kind="samples", bmode=bmode, bval=bval,
                              farmer="sampler", bwhere="ctor"))
            else:
                # shuffle given to the constructor, to the sow call, to both (the call wins), or not at all
                sc, ss = [(0, -1), (0, 1), (1, -1), (0, 2), (2, 1), (0, 0)][i % 6]
                out.append(mk([n], kind="combos", bmode=bmode, bval=bval, farmer=farmer, shufCtor=sc, shufSow=ss,
                              bwhere=("ctor", "sow")[i % 2]))
    out.append(mk([2], nca=1, cases=[[1], [3]], kind="combos", bmode="count", bval=3))
    out.append(mk([], nca=2, cases=[[1, 1], [2, 2], [1, 2]], kind="cases", bmode="size", bval=2, shufCtor=1))
    return out


def run(rep):
    q = rep.tier == "quick"
    rep.rule = ("TLC enumerates (N, batchsize | num_batches) with and without remainder x every non-empty proper subset of finished batches "
                "(B <= %d) x clean_up in {None, True, False}, plus refused reaps and grow-missing-then-full-reap continuations; each is replayed "
                "for raw (number / array / tuple / str / bool results), Dataset and DataFrame reaping; distinct = (configuration, subset, call sequence, variant)"
                % (5 if q else 7))
    rep.assumptions = ["bool results cannot carry a token: for them only present/missing is compared",
                       "shuffles forced through random.seed/random.shuffle"]
    bad = crop.run_model("MC_C09_f4", [crop.mk([7], bmode="count", bval=3)], acts=["grow_set", "reap_partial"], max_steps=2,
                         record=False, placeholder="lt", workers=1)
    if bad.violated not in ("PartialReapWorks", "ReapEqualsDirect"):
        raise tlc.TLCError("self-test failed: PlaceholderLen='lt' (F4) not rejected, got %r" % bad.violated)
    rep.note("self-test: PlaceholderLen='lt' (pinned placeholder sizing, F4) violates %s in TLC, as expected" % bad.violated)
    cfgs = configs(rep.tier)
    runs = [
        dict(name="C09_subsets", configs=cfgs, acts=["grow_set", "reap_partial", "reap_default"], max_steps=2, mode="bfs",
             need=["DoSow", "GrowSetAny", "ReapPartialAny", "ReapDefault"], sample=2500 if q else 30000),
        dict(name="C09_many_batches", configs=[crop.mk([13], bmode="count", bval=11), crop.mk([27], bmode="count", bval=12, shufSow=1),
                                               crop.mk([23], bmode="size", bval=2, farmer="runner")],
             acts=["grow", "reap_partial", "grow_missing", "reap_default"], max_steps=6, mode="sim", num=60 if q else 600, check=False,
             sample=250 if q else 3000),
        dict(name="C09_continue", configs=cfgs, acts=["grow_set", "grow", "reap_partial", "grow_missing", "reap_default", "reload"],
             max_steps=5, mode="sim", num=500 if q else 6000, check=False),
    ]
    # other constants are sown in the middle of a campaign, by the session's handle, while results (and an earlier partial reap through
    # another handle) exist: every later reap must hand out, batch by batch, what the result files hold now
    runs.append(dict(name="C09_reconst", configs=[crop.mk([4], bmode="size", bval=2), crop.mk([5], bmode="count", bval=3, shufSow=1),
                                                  crop.mk([3], bmode="none")],
                     acts=["grow", "grow_set", "const_mid", "resow", "reap_partial", "reap_default"], max_steps=7, mode="sim",
                     num=400 if q else 4000, need=["DoChangeConstMid", "DoReSow"]))
    crop.drive(rep, runs, claims=lambda tag: tag in CLAIMS)
    crop.parallel_grow_cases(rep, 2 if q else 6, partial=True)
    relayout_scenario(rep)
    rep.exhaustive = not q


def relayout_scenario(rep):
    """One process, one crop location, two campaigns with different batch layouts, a partial reap in each: PartialReapWorks
    for the second layout must not depend on anything remembered from the first (Crop.tla's state is per sow: B, bsz, rem,
    batch are all re-assigned by Sow).  Expectations follow from the batch layout the property prescribes."""
    import math
    import shutil
    import tempfile
    import contextlib
    import io
    from .. import common
    xyz = common.use_repo()

    def fn(a):
        return float(100 * a + 3)
    for first, second in (((12, 3), (13, 4)), ((10, 4), (10, 3)), ((9, 2), (7, 5))):
        tmp = tempfile.mkdtemp(prefix="c09r-", dir=common.scratch("crops"))
        try:
            case = dict(kind="relayout", first=first, second=second)
            rep.add_case(["relayout", first, second], sample=None)
            prob = None
            for n, bs in (first, second):
                with contextlib.redirect_stdout(io.StringIO()), contextlib.redirect_stderr(io.StringIO()):
                    c = xyz.Crop(fn=fn, name="relay", parent_dir=tmp, batchsize=bs)
                    c.sow_combos({"a": list(range(1, n + 1))}, verbosity=0)
                    nb = math.ceil(n / bs)
                    grown = 2 if nb > 2 else 1
                    c.grow(grown, verbosity=0)
                    res = xyz.Crop(name="relay", parent_dir=tmp).reap(allow_incomplete=True)
                want = [float(100 * a + 3) if (grown - 1) * bs < a <= grown * bs else None for a in range(1, n + 1)]
                got = [None if (isinstance(v, float) and math.isnan(v)) else float(v) for v in res]
                if got != want:
                    prob = ("campaign with %d settings in batches of %d (after one with %r at the same location): partial reap with batch %d "
                            "grown gives %r, expected %r (None = missing)" % (n, bs, first, grown, got, want))
                    break
                with contextlib.redirect_stdout(io.StringIO()), contextlib.redirect_stderr(io.StringIO()):
                    c = xyz.Crop(name="relay", parent_dir=tmp)
                    c.grow_missing(verbosity=0)
                    full = c.reap()
                if [float(v) for v in full] != [float(100 * a + 3) for a in range(1, n + 1)]:
                    prob = "full reap after the partial one (n=%d, batchsize=%d) gives %r" % (n, bs, list(full))
                    break
            if prob:
                rep.add_violation(case, prob, key=dict(tag="reap_value_partial", kind="relayout"))
        finally:
            shutil.rmtree(tmp, ignore_errors=True)


def replay(rep, saved):
    if saved.get("kind") == "relayout":
        relayout_scenario(rep)
        return
    if saved.get("kind") == "parallel_grow":
        crop.parallel_grow_cases(rep, 2, partial=True)
        return
    crop.replay_saved(rep, saved, claims=lambda tag: tag in CLAIMS)
