"""C15 - sampling only ever appends correct rows.
Harvest.tla / SpecS (AppendOnly, ExactlyN, TableMemEqDisk) checked by TLC; emitted histories of sample_combos and
sow_samples/grow/reap runs with fresh Sampler objects in between are replayed on real Samplers (pickle and csv), the
table on disk compared row by row after every run; plus seeded np.random.choice sampling validated for membership."""
import random

from .. import common, harvest, tlc


def key(case, variant, tag, step):
    return dict(tag=tag, engine=variant.get("engine"), shuffle=bool(variant.get("shuffle")))


def variants(idx):
    return dict(engine=["pickle", "csv"][idx % 2], shuffle=[False, 3, False, True][idx % 4], batchsize=[1, 2, 5][idx % 3],
                nan_point=(idx % 3 == 1), flip_keys=(idx % 5 in (1, 2)), mixed_types=(idx % 3 == 2), compressed=(idx % 7 == 3), nd_result=(idx % 4 == 1), seq_const=(idx % 3 == 0))


def random_choice_runs(rep, n):
    """Trace validation of the np.random.choice path: rows must come from the allowed choices,
    outputs must belong to the arguments, earlier rows must not change."""
    import numpy as np
    rnd = random.Random(rep.seed)
    for i in range(n):
        w = harvest.SWorld(dict(variants(i), flip_keys=False))
        try:
            np.random.seed(rep.seed + i)
            prev = []
            # every fifth world: a long campaign on ONE Sampler object in which every run brings its own, freshly built
            # override list (the lists of earlier runs are garbage by then)
            long_ = (i % 5 == 4)
            for step in range(14 if long_ else rnd.randint(1, 4)):
                if rnd.random() < 0.3 and not long_:
                    w.new_session(1)
                k = rnd.randint(1, 4)
                harvest.VER[0] = rnd.choice([1, 2])
                # an override outside the defaults (also a float, unless this variant checks that a arrives as an int)
                if long_:
                    # (every third run brings a non-integral choice into a column that held integers so far)
                    over = {"a": [4 + step + (0.5 if (step % 3 == 2 and not w.mixed) else 0), 40 + step]}
                else:
                    over = {"a": [rnd.choice([7, 8] if w.mixed else [7.5, 8, 7.5])]} if rnd.random() < 0.4 else None
                import contextlib, io
                with contextlib.redirect_stdout(io.StringIO()), contextlib.redirect_stderr(io.StringIO()):
                    w.samplers[1].sample_combos(k, over, verbosity=0)
                o = w.observe()
                case = dict(kind="random_choice", seed=rep.seed + i, step=step)
                rep.add_case(["rc", rep.seed, i, step], sample=None)
                if o["disk"] is None or len(o["disk"]) != len(prev) + k or o["disk"][:len(prev)] != prev:
                    rep.add_violation(case, "np.random.choice sampling: table %r after appending %d rows to %r" % (o["disk"], k, prev),
                                      key=dict(tag="rc_append"))
                    break
                for r in o["disk"][len(prev):]:
                    if r[2] == -2 and w.nan_point and (r[0], r[1]) == (2, 2):
                        continue
                    if r[2] != harvest.VER[0] or r[0] not in ((over or {}).get("a") or [1, 2, 3]) or r[1] not in [1, 2, 3]:
                        # (an override of one run must not leak into the next: then a would be 7 or 8 here)
                        rep.add_violation(case, "np.random.choice sampling: row %r not from the allowed choices / wrong outputs" % (r,),
                                          key=dict(tag="rc_row"))
                        break
                if o["mem"] != o["disk"]:
                    rep.add_violation(case, "np.random.choice sampling: full_df differs from disk", key=dict(tag="rc_mem"))
                    break
                prev = o["disk"]
        finally:
            w.close()


def run(rep):
    q = rep.tier == "quick"
    rep.rule = ("TLC explores every history of <= 3 sampling runs (n in 1..3 rows over 2x2 choices, 2 function versions, via sample_combos or a "
                "Sampler crop) with fresh Sampler objects in between and simulates longer ones; each emitted history is replayed with forced "
                "draws (callables) on pickle and csv tables, with and without shuffle; distinct = (history, variant)")
    rep.assumptions = ["rows are compared as [a, b, version] with the outputs checked against the arguments (x = 1000 v + 10 a + b, d = a - b, constant k)",
                       "the order of the new rows within one run is not demanded (shuffle may permute them)",
                       "csv round-trips values through text: compared after int conversion"]
    common_kw = dict(spec="SpecS", avals=[1, 2], bvals=[1], vers=[1, 2], acts=[])
    r = harvest.run_model("MC_C15_chk", max_steps=3, record=False, max_rows=7,
                          invariants=["TableMemEqDisk"], props=["AppendOnly", "ExactlyN"], coverage=True, **common_kw)
    rep.add_tlc("Sampler exhaustive", r)
    if r.violated:
        raise tlc.TLCError("Harvest.tla sampler: %s violated" % r.violated)
    for a in ("Sample", "SNewSession"):
        if r.coverage.get(a, (0, 0))[1] == 0:
            raise tlc.TLCError("vacuous: %s never taken" % a)
    jobs = []
    idx = 0
    for name, steps, num in (("short", 3, 900 if q else 6000), ("long", 6, 200 if q else 3000)):
        e = harvest.run_model("MC_C15_" + name, max_steps=steps, record=True, max_rows=12, emit="EmitS", workers=1,
                              simulate=dict(num=num), depth=steps + 2, seed=rep.seed,
                              spec="SpecS", avals=[1, 2, 3], bvals=[1, 2, 3], vers=[1, 2], acts=[])
        rep.add_tlc("Sampler emit " + name, e)
        cases = list({common.stable_hash(c): c for c in e.cases}.values())
        rep.note("%s: %d histories emitted, %d distinct replayed" % (name, len(e.cases), len(cases)))
        for c in cases:
            jobs.append((c, variants(idx)))
            idx += 1
    results = common.pmap(harvest._sjob, jobs)
    harvest.collect(rep, results, key)
    random_choice_runs(rep, 40 if q else 400)


def replay(rep, saved):
    if saved.get("kind") == "random_choice":
        print("random-choice case: rerun the check with VERIF_SEED=%s" % saved.get("seed"))
        return
    prob, tag, step, notes = harvest.replay_s(saved["case"], saved["variant"])
    if prob:
        rep.add_violation(saved, prob, key=key(saved["case"], saved["variant"], tag, step))
