"""C17 - classic line / scatter / histogram / heat-map plots draw exactly the data.

PlotClassic.tla enumerates datasets (finite / NaN / inf masks of y and, where x is a variable,
of x) for many small configurations (kind x series mode x grid x colour mode x options), checks
the drawing machine against the property's invariants and emits, for every dataset, the sequence
of series the property demands (panel, label, kept points, normalised colour value).  Every
emitted case is built as a real xarray.Dataset whose values encode their cell number, plotted with
the real function on the Agg backend, and the artists are read back (vx/plotread.py) and projected
to the same abstract form."""
import math
from concurrent.futures import ThreadPoolExecutor
from fractions import Fraction

from .. import common, tlc, plotread

INVARIANTS = ["TypeOK", "OneSeriesEach", "PointsExact", "MeshExact", "ColourExact", "PanelsTitled",
              "DatasetUnchanged", "FinishRule"]
ACTIONS = ["SetCell", "SetSeries", "Start", "Prepare", "BeginPanel", "DrawSeries", "DrawMesh", "EndPanel", "Finish"]

# wrong machines the invariants must reject (variant -> invariants one of which must fail)
VARIANTS = {
    "xonly": {"PointsExact"},
    "notnan": {"PointsExact", "MeshExact"},
    "zdata": {"PointsExact"},
    "revz": {"OneSeriesEach"},
    "transpose": {"PointsExact", "MeshExact", "ColourExact"},
    "colz": {"ColourExact"},
    "panellim": {"ColourExact"},
    "inplace": {"DatasetUnchanged"},
    "dropempty": {"OneSeriesEach"},
    "auxmask": {"PointsExact"},
    "rotgrid": {"PointsExact", "MeshExact"},
}

TLA_FIELDS = ["id", "kind", "NX", "NZ", "NR", "NC", "xvar", "even", "ZPos", "colour", "CTab", "lims",
              "legend", "colorbar", "vals", "maxbad", "whole", "aux", "avals"]

VAR_NAMES = ["yb", "ya", "yd", "yc", "yf", "ye", "yh", "yg", "yj", "yi", "yl", "yk"]
LETTERS = "abcdefghijklmnopqrstuvwxyz"


# ---------------------------------------------------------------------------
# configurations

def make_cfg(kind, NX, NZ, NR=0, NC=0, series=None, xvar=False, ztype="int", ZPos=None, colour="none",
             lims=(), legend="auto", colorbar="auto", vals="fni", maxbad=99, whole=False, aux=False, avals="fn",
             **h):
    if series is None:
        series = "mesh" if kind == "heat" else ("z" if NZ > 1 else "single")
    R, C = max(NR, 1), max(NC, 1)
    if h.get("api") == "auto" and kind in ("line", "scatter"):
        ZPos = list(range(NZ))
    ZPos = list(ZPos) if ZPos is not None else list(range(1, NZ + 1))
    assert len(ZPos) == NZ and len(set(ZPos)) == NZ
    n_c = 0
    if colour == "c":
        n_c = R * C * NZ * NX if kind == "scatter" else R * C * NZ
    ctab = [(5 * i + 3) % 13 + 1 for i in range(1, n_c + 1)]
    return dict(kind=kind, NX=NX, NZ=NZ, NR=NR, NC=NC, xvar=bool(xvar),
                even=bool(ztype == "str" or series == "vars"), ZPos=ZPos, colour=colour, CTab=ctab,
                lims=list(lims), legend=legend, colorbar=colorbar, vals=vals, maxbad=maxbad, whole=bool(whole),
                aux=bool(aux), avals=avals, series=series, ztype=ztype, h=dict(h))


def to_tla(cfg):
    d = {k: cfg[k] for k in TLA_FIELDS}
    d["vals"] = set(cfg["vals"])
    d["avals"] = set(cfg["avals"])
    return tlc.tla(d)


def n_masks(cfg):
    """rough number of datasets TLC will emit for a configuration (for load balancing only)"""
    n = max(cfg["NR"], 1) * max(cfg["NC"], 1) * cfg["NZ"] * cfg["NX"] * (1 + int(cfg["xvar"]) + int(cfg["aux"]))
    v = len(cfg["vals"]) - 1
    return sum(math.comb(n, j) * v ** j for j in range(0, min(n, cfg["maxbad"]) + 1))


def gen_configs(tier):
    T = tier == "thorough"
    out = []

    cnt = [0, 0, 0, 0, 0]
    ZDT = [None, "uint8", "uint16", "uint32", "uint64", "int32"]
    CDT = ["uint8", None, "uint16", "float32", "uint32", "int32", "uint64"]

    def add(*a, **k):
        c = make_cfg(*a, **k)
        h = c["h"]
        # data refinement (same abstract cases): how the variables are laid out in the Dataset
        if h.get("api") != "auto" and "mix" not in h:
            secondary = c["kind"] != "heat" and (c["xvar"] or h.get("yerr") or h.get("xerr") or c["colour"] == "c"
                                                 or c["series"] == "vars")
            if secondary:
                cnt[0] += 1
                h["mix"] = (1, 2, 0)[cnt[0] % 3]
            elif not h.get("dimorder"):
                cnt[1] += 1
                h["mix"] = (0, 2)[cnt[1] % 2]
        # data refinement: dtype of the z coordinate and of the colour variable
        if h.get("api") != "auto" and c["series"] == "z" and "zdtype" not in h:
            if c["ztype"] == "int":
                cnt[2] += 1
                h["zdtype"] = ZDT[cnt[2] % len(ZDT)]
            elif c["ztype"] == "float":
                cnt[3] += 1
                h["zdtype"] = (None, "float32")[cnt[3] % 2]
        if c["colour"] == "c" and not c["aux"] and "cdtype" not in h:
            cnt[4] += 1
            dt = CDT[cnt[4] % len(CDT)]
            if dt == "uint8" and h.get("normlog"):
                dt = "uint16"
            h["cdtype"] = dt
        out.append(c)

    full = 99
    b1, b2 = (2, 3) if T else (1, 2)
    for kind in ("line", "scatter"):
        sc = kind == "scatter"
        # --- z coordinate, small shapes, every mask
        add(kind, 2, 2, maxbad=full)
        add(kind, 2, 2, maxbad=full if T else 2, colour="z", ZPos=[3, 1], colormap="viridis", dimorder=1, whole=True)
        add(kind, 3, 2, maxbad=b2 if not T else 4, whole=True, ZPos=[1, 4], ztype="float", markers=False, xlog=True)
        add(kind, 2, 3, maxbad=b2, whole=True, ztype="str", ZPos=[2, 1, 3], colour="z", ylog=True)
        add(kind, 3, 3, maxbad=b1, whole=True, colour="z", ZPos=[1, 2, 4], accessor=True, markers="sx")
        add(kind, 3, 1, maxbad=full, ylog=True, xlog=True)                      # 1-d dataset
        add(kind, 1, 2, maxbad=full)
        if T:
            add(kind, 3, 3, maxbad=4, whole=True)
            add(kind, 3, 2, maxbad=full, colour="z", ZPos=[2, 5], colormap="plasma", reverse=True)
            add(kind, 2, 3, maxbad=full, ztype="float", ZPos=[4, 1, 2], colour="z", normlog=True, colormap="viridis")
        # --- x a variable with its own mask
        add(kind, 2, 2, xvar=True, maxbad=b2 if not T else full, whole=True)
        add(kind, 3, 1, xvar=True, maxbad=full if T else 2)
        add(kind, 3, 2, xvar=True, maxbad=b1 if not T else 3, whole=True, colour="z", ZPos=[5, 2], dimorder=1)
        # --- several variables instead of z
        add(kind, 3, 2, series="vars", maxbad=b2 if not T else full, whole=True)
        add(kind, 2, 3, series="vars", maxbad=b1 if not T else 3, whole=True, colour="z", colormap="viridis")
        add(kind, 2, 2, series="vars", maxbad=b1, colors_list=True, markers=True)
        # --- colour from a separate variable
        add(kind, 2, 3, maxbad=b1 if not T else 3, whole=True, colour="c", ZPos=[1, 2, 3])
        add(kind, 3, 2, maxbad=b1 if not T else 3, colour="c", colormap="viridis", ZPos=[7, 3], dimorder=1)
        add(kind, 2, 1, maxbad=full, colour="c", colormap="plasma")
        if T:
            add(kind, 2, 2, maxbad=full, colour="c", lims=(0, 20), colormap="viridis")
            add(kind, 2, 3, maxbad=2, colour="c", normlog=True, colormap="viridis")
            add(kind, 2, 2, xvar=True, maxbad=3, colour="c")
        # --- colour variable under a logarithmic colour scale
        add(kind, 2, 2, maxbad=b1, colour="c", normlog=True, colormap="viridis")
        add(kind, 3, 1, maxbad=b1, colour="c", normlog=True)
        add(kind, 2, 2, NR=2, maxbad=1, vals="fn", colour="c", normlog=True, colormap="plasma")
        # --- options: limits, reversed / logarithmic colour maps, forced legend / colour bar
        add(kind, 2, 3, maxbad=b1, colour="z", ZPos=[2, 3, 5], lims=(1, 9), colormap="viridis")
        add(kind, 2, 3, maxbad=b1, colour="z", ZPos=[1, 3, 4], normlog=True, colormap="plasma")
        add(kind, 2, 3, maxbad=b1, colour="z", ZPos=[4, 2, 1], reverse=True, colormap="viridis")
        add(kind, 2, 2, maxbad=b1, colour="z", ZPos=[1, 2], colorbar="on")
        add(kind, 2, 2, maxbad=b1, colour="z", ZPos=[1, 2], legend="off", colorbar="on", ztype="float")
        add(kind, 2, 2, maxbad=b1, legend="off")
        add(kind, 2, 2, maxbad=b1, colour="c", legend="on")
        # --- the legend -> colour bar switch
        for nz in (10, 11, 12):
            zp = list(range(1, nz + 1))
            zp[0], zp[-1] = zp[-1], zp[0]
            add(kind, 2, nz, maxbad=1 if T else 0, vals="fn", whole=True, colour="z", ZPos=zp)
            add(kind, 2, nz, maxbad=0, vals="fn")
            if nz != 10 or T:
                add(kind, 2, nz, maxbad=1 if T else 0, vals="fn", whole=True, colour="z", ztype="str",
                    colormap="viridis")
                add(kind, 2, nz, maxbad=0, vals="fn", colour="c")
        # --- row / column grids
        gv = "fni" if T else "fn"
        add(kind, 2, 2, NR=2, maxbad=b1, vals=gv, whole=True)
        add(kind, 2, 2, NC=2, maxbad=b1, vals=gv, whole=True, colour="z", ZPos=[2, 7], gridtype=1)
        add(kind, 2, 2, NR=2, NC=2, maxbad=b1, vals=gv, whole=True, dimorder=1)
        add(kind, 2, 1, NR=2, NC=2, maxbad=b1 if not T else 3, vals=gv)
        add(kind, 2, 2, NR=2, NC=2, maxbad=1, vals="fn", colour="c", gridtype=1)
        add(kind, 2, 2, NR=2, NC=1, maxbad=1, vals="fn", series="vars")
        add(kind, 2, 2, NC=2, maxbad=1, vals="fn", xvar=True)
        add(kind, 2, 11, NR=2, maxbad=0, vals="fn", colour="z")
        if T:
            add(kind, 2, 2, NR=2, NC=2, maxbad=2, vals="fn", colour="z", ztype="str", gridtype=1)
            add(kind, 3, 2, NR=1, NC=2, maxbad=2, vals="fni", whole=True)
            add(kind, 2, 2, NR=2, maxbad=2, vals="fn", series="vars", colour="z")
            add(kind, 2, 3, NR=2, NC=2, maxbad=1, vals="fn", colour="c", legend="off")
        # --- jitter: drawn points = data up to the noise, and the caller's data stay bit for bit what they were
        add(kind, 3, 1, maxbad=b1, yjit=0.01, mix=0)
        add(kind, 2, 2, xvar=True, maxbad=b1, xjit=0.02, yjit=0.01, mix=0)
        add(kind, 3, 2, maxbad=1, yjit=0.0005, xjit=0.01, ylog=True, xlog=True, colour="z", ZPos=[1, 3])
        add(kind, 2, 2, NR=2, maxbad=1, vals="fn", yjit=0.01)
        # --- explicit colour limits, also exactly 0 and negative, as zlims / vmin, vmax / half-open zlims
        add(kind, 2, 3, maxbad=b1, colour="z", ZPos=[2, 3, 5], lims=(0, 9), colormap="viridis")
        add(kind, 2, 3, maxbad=1, colour="z", ZPos=[1, 4, 2], lims=(0, 4), limkind="open")
        add(kind, 2, 2, maxbad=1, colour="z", ZPos=[-1, -2], lims=(-3, 0), limkind="vmin", zdtype=None)
        add(kind, 2, 3, maxbad=1, colour="c", lims=(0, 14), cshift=0, limkind="vmin", colormap="viridis")
        add(kind, 2, 2, maxbad=1, colour="c", lims=(-2, 20), cshift=0)
        add(kind, 2, 2, NR=2, NC=2, maxbad=0, vals="fn", colour="c", cshift=1)      # global minimum of c is exactly 0
        # --- series of exactly three / four points (a four-point series looks like an RGBA colour), as a whole
        #     series and as what NaN / inf leave of a longer one
        add(kind, 4, 1, maxbad=b2 if not T else full)
        add(kind, 4, 2, maxbad=b1 if not T else 3, whole=True, colour="z", ZPos=[1, 4], colormap="viridis")
        add(kind, 5, 1, maxbad=b2 if not T else 3)
        if sc or T:
            add(kind, 5, 2, maxbad=b1 if not T else 2, colour="z", ZPos=[3, 2])
            add(kind, 4, 3, maxbad=1, vals="fn", colors_list=True)
        # --- grids over coordinates that are neither increasing nor decreasing (three values)
        add(kind, 2, 2, NR=3, maxbad=1, vals="fn", whole=True)
        add(kind, 2, 1, NC=3, maxbad=1 if not T else 2, vals="fn", gridtype=2)
        add(kind, 2, 1, NR=3, NC=2, maxbad=1, vals="fn", gridtype=1, colour="c")
        add(kind, 2, 2, NR=2, NC=3, maxbad=0 if not T else 1, vals="fn", gridtype=2, colour="z", ZPos=[2, 5])
        # --- auto_* variants (arrays instead of a Dataset)
        add(kind, 3, 2, maxbad=b2 if not T else full, whole=True, api="auto")
        add(kind, 3, 1, maxbad=full, api="auto")
        add(kind, 3, 2, xvar=True, maxbad=b1 if not T else 3, api="auto", colour="z")
        add(kind, 2, 3, maxbad=b1, api="auto", colour="z", colormap="viridis")
        #     x given per series (2-d), square and non-square; y_z handed over as (points, series) for a 1-d x
        add(kind, 2, 2, xvar=True, maxbad=b1 if not T else full, whole=True, api="auto")
        add(kind, 3, 3, xvar=True, maxbad=1 if not T else 2, api="auto", colour="z", colormap="viridis")
        add(kind, 2, 3, xvar=True, maxbad=b1, api="auto")
        add(kind, 3, 2, maxbad=b1 if not T else 3, api="auto", ytrans=True)
        add(kind, 2, 3, maxbad=1, api="auto", ytrans=True, colour="z")
        # --- positions spread over two equally long dimensions, x / err / c stored transposed w.r.t. y
        add(kind, 4, 1, xvar=True, split=(2, 2), maxbad=b2 if not T else full, mix=1)
        add(kind, 4, 2, xvar=True, split=(2, 2), maxbad=b1 if not T else 2, whole=True, mix=2,
            colour="c" if sc else "z", ZPos=[3, 1])
        add(kind, 4, 1, NR=2, xvar=True, split=(2, 2), maxbad=1, vals="fn", mix=1)
        if sc:
            add(kind, 4, 1, xvar=True, split=(2, 2), maxbad=b1 if not T else 3, colour="c", mix=1, colormap="viridis")
        else:
            add(kind, 4, 1, xvar=True, split=(2, 2), maxbad=b1 if not T else 3, yerr=True, xerr=True, mix=1)
        # --- auxiliary variables (error bars, per-point colour) with NaN / inf of their own: the points stay
        if sc:
            add(kind, 3, 1, maxbad=b2, colour="c", aux=True, avals="fn", colormap="viridis")
            add(kind, 2, 2, maxbad=b1 if not T else 3, colour="c", aux=True, avals="fn", ZPos=[2, 1])
            add(kind, 2, 2, maxbad=b1, yerr=True, aux=True, avals="fni")
            add(kind, 2, 2, NC=2, maxbad=1, vals="fn", colour="c", aux=True, avals="fn")
            add(kind, 4, 1, xvar=True, split=(2, 2), maxbad=1 if not T else 2, colour="c", aux=True, avals="fn", mix=1)
        else:
            add(kind, 3, 1, maxbad=b2 if not T else 4, yerr=True, aux=True, avals="fni")
            add(kind, 2, 2, maxbad=b1 if not T else 3, yerr=True, xerr=True, aux=True, avals="fni", whole=True)
            add(kind, 2, 2, NR=2, maxbad=1, vals="fn", yerr=True, aux=True, avals="fn")
            add(kind, 2, 2, xvar=True, maxbad=b1 if not T else 2, xerr=True, aux=True, avals="fni", colour="z", ZPos=[1, 3])
        if not sc:
            # --- error bars
            add(kind, 3, 2, maxbad=b2, whole=True, yerr=True)
            add(kind, 2, 2, maxbad=b1, xerr=True, yerr=True, colour="z", ZPos=[1, 3])
            add(kind, 3, 1, maxbad=b2, xerr=True, xvar=True)
            add(kind, 2, 2, NR=2, maxbad=1, vals="fn", yerr=True)
    # --- histograms
    add("hist", 3, 2, maxbad=b2 if not T else full, whole=True, bins=7)
    add("hist", 4, 1, maxbad=full if T else 3, whole=True, bins=5)
    add("hist", 3, 3, maxbad=b1 if not T else 3, whole=True, colour="z", ZPos=[2, 1, 5], colormap="viridis", bins=30)
    add("hist", 3, 2, maxbad=b1 if not T else 3, whole=True, ztype="str", ZPos=[2, 1], colour="z", bins=6)
    add("hist", 3, 2, series="vars", maxbad=b2 if not T else full, whole=True, bins=9)
    add("hist", 2, 3, series="vars", maxbad=b1, whole=True, colour="z", bins=4)
    add("hist", 4, 1, maxbad=b2 if not T else full, api="auto", bins=6)
    add("hist", 3, 2, NR=2, maxbad=b1, vals="fn", whole=True, bins=5)
    add("hist", 2, 2, NR=2, NC=2, maxbad=1, vals="fn", whole=True, colour="z", ZPos=[3, 1], bins=4, gridtype=1)
    add("hist", 3, 2, NC=2, maxbad=1, vals="fn", series="vars", bins=4)
    add("hist", 3, 1, NC=2, maxbad=b1, vals="fn", bins=4)
    add("hist", 3, 2, NR=3, maxbad=1, vals="fn", whole=True, bins=5)
    add("hist", 3, 1, NC=3, maxbad=1, vals="fn", bins=4, gridtype=2)
    add("hist", 2, 2, NR=3, NC=2, maxbad=0 if not T else 1, vals="fn", bins=4, gridtype=1)
    add("hist", 2, 11, maxbad=0, vals="fn", colour="z", bins=5)
    add("hist", 2, 11, maxbad=0, vals="fn", bins=5)
    # --- heat maps
    add("heat", 2, 2, maxbad=full)
    add("heat", 3, 2, maxbad=b2 if not T else full, dimorder=1)
    add("heat", 2, 3, maxbad=b2 if not T else 4, colormap="viridis")
    add("heat", 3, 3, maxbad=b1 if not T else 3, accessor=True)
    add("heat", 3, 2, maxbad=b2 if not T else full, api="auto")
    add("heat", 2, 2, NR=2, maxbad=b1 if not T else 3, vals="fni" if T else "fn")
    add("heat", 2, 2, NC=2, maxbad=b1 if not T else 3, vals="fn", gridtype=1, dimorder=1)
    add("heat", 2, 2, NR=2, NC=2, maxbad=1, vals="fn")
    add("heat", 2, 2, NR=3, maxbad=1, vals="fn")
    add("heat", 2, 2, maxbad=b1, lims=(3, 12), voff=-3.0, limkind="vmin")               # vmin = 0 exactly
    add("heat", 3, 2, maxbad=1, lims=(0, 7), voff=-7.0)                                 # zlims = (-7, 0)
    add("heat", 2, 2, NR=2, maxbad=1, vals="fn", lims=(-5, 30), voff=5.0, limkind="vmin", colormap="viridis")
    add("heat", 2, 2, NC=3, maxbad=1 if not T else 2, vals="fn", gridtype=2, dimorder=1)
    add("heat", 2, 2, NR=3, NC=2, maxbad=0 if not T else 1, vals="fn", gridtype=1)
    for i, c in enumerate(out):
        c["id"] = i + 1
    return out


# ---------------------------------------------------------------------------
# TLC

def cfg_tail(emit=True):
    return "".join("INVARIANT %s\n" % i for i in INVARIANTS) + ("INVARIANT EmitCase\n" if emit else "") \
        + "CHECK_DEADLOCK FALSE\n"


def run_chunk(name, cfgs, variant="ok", emit=True, coverage=True):
    raw = tlc.Raw("{" + ", ".join(to_tla(c) for c in cfgs) + "}")
    return tlc.run_mc("PlotClassic", dict(Configs=raw, Variant=variant), cfg_tail(emit), name=name,
                      workers=1, coverage=coverage)


def split_chunks(cfgs, n):
    chunks = [[] for _ in range(n)]
    load = [0] * n
    for c in sorted(cfgs, key=lambda c: -n_masks(c) * (c["NZ"] + 4)):
        i = load.index(min(load))
        chunks[i].append(c)
        load[i] += n_masks(c) * (c["NZ"] + 4) + 50
    return [c for c in chunks if c]


def variant_configs():
    return {
        "xonly": [make_cfg("line", 2, 2, maxbad=1)],
        "notnan": [make_cfg("line", 2, 2, maxbad=1), make_cfg("heat", 2, 2, maxbad=1)],
        "zdata": [make_cfg("line", 2, 2, maxbad=1)],
        "revz": [make_cfg("line", 2, 2, maxbad=0)],
        "transpose": [make_cfg("line", 2, 1, NR=2, NC=2, maxbad=1, vals="fn"), make_cfg("heat", 2, 2, maxbad=1)],
        "colz": [make_cfg("line", 2, 3, maxbad=0, colour="c")],
        "panellim": [make_cfg("line", 2, 2, NR=2, maxbad=0, colour="c"), make_cfg("heat", 2, 2, NR=2, maxbad=1)],
        "inplace": [make_cfg("line", 2, 2, maxbad=1)],
        "dropempty": [make_cfg("line", 2, 2, maxbad=1, whole=True)],
        "auxmask": [make_cfg("line", 2, 1, maxbad=1, aux=True, yerr=True)],
        "rotgrid": [make_cfg("line", 2, 1, NR=3, maxbad=1, vals="fn"), make_cfg("heat", 2, 2, NR=3, maxbad=1, vals="fn")],
    }


# ---------------------------------------------------------------------------
# abstract ids <-> concrete inputs

def shape(cfg):
    return max(cfg["NR"], 1), max(cfg["NC"], 1), cfg["NZ"], cfg["NX"]


def idx(cfg, r, c, z, k):
    R, C, NZ, NX = shape(cfg)
    return (((r - 1) * C + (c - 1)) * NZ + (z - 1)) * NX + k


def yval(cfg, i):
    """value of cell i (voff: offset, so that a colour limit of a heat map can be exactly 0)"""
    return cfg["h"].get("voff", 100.5) + i


def xvval(i):
    return 1000.25 + 2 * i


def errval(i):
    return (i % 5 + 1) / 64.0


def zq(cfg, pos):
    """numeric value of a z position"""
    h = cfg["h"]
    if h.get("api") == "auto":
        return pos
    if h.get("normlog"):
        return float(2 ** pos) if cfg["ztype"] == "float" else 2 ** pos
    if cfg["ztype"] == "float":
        return 0.25 * pos + 0.5
    return 10 * pos


def cq(cfg, pos):
    """value of the colour variable at a position (cshift = s: position s is the value 0.0 exactly)"""
    h = cfg["h"]
    if h.get("normlog"):
        return float(2 ** pos)
    if "cshift" in h:
        return 3.0 * (pos - h["cshift"])
    return 3.0 * pos - 1.0


def z_values(cfg):
    if cfg["ztype"] == "str":
        return ["z" + LETTERS[p] for p in cfg["ZPos"]]
    vals = [zq(cfg, p) for p in cfg["ZPos"]]
    dt = cfg["h"].get("zdtype")
    if dt:
        import numpy as np
        arr = np.asarray(vals, dtype=dt)
        assert [float(v) for v in arr] == [float(v) for v in vals], (dt, vals)     # same values, other dtype
        return arr
    return vals


def grid_values(cfg):
    """coordinate values of the row / column dimensions, in stored order: two values are descending, three are
    neither increasing nor decreasing (numbers and strings) - panels are keyed by stored order, not sorted order"""
    g = cfg["h"].get("gridtype", 0)
    if g == 0:
        rows, cols = ["rb", "ra", "rc"], [0.5, 0.25, 0.75]
    elif g == 1:
        rows, cols = [7, 3, 5], ["cb", "ca", "cc"]
    else:
        rows, cols = ["lo", "mid", "hi"], [3.0, 1.0, 2.0]
    assert cfg["NR"] <= 3 and cfg["NC"] <= 3
    return rows[:max(cfg["NR"], 0)], cols[:max(cfg["NC"], 0)]


def x_coords(cfg):
    if cfg["kind"] == "heat":
        return [1.0, 2.0, 3.0, 4.0][:cfg["NX"]]
    return [1.0, 2.0, 4.0, 8.0, 16.0, 32.0][:cfg["NX"]]


def y_coords(cfg):
    return [10.0, 20.0, 30.0, 40.0][:cfg["NZ"]]


def masked(v, m, i):
    import numpy as np
    if m == "f":
        return v
    if m == "n":
        return np.nan
    return np.inf if i % 2 == 0 else -np.inf


def labels_for(cfg):
    """label text the property demands for series s (1-based) -> str; None when there is nothing to label"""
    import numpy as np
    if cfg["series"] == "z":
        if cfg["h"].get("api") == "auto":
            return [str(v) for v in np.arange(cfg["NZ"])]
        return [str(v) for v in np.asarray(z_values(cfg))]
    if cfg["series"] == "vars":
        return VAR_NAMES[:cfg["NZ"]]
    return None


class Built(object):
    pass


def build(case):
    """The concrete call for an emitted case: function name, positional arguments, keyword
    arguments, and the objects that must not be modified."""
    import numpy as np
    import xarray as xr
    cfg = case["cfg"]
    h = cfg["h"]
    kind = cfg["kind"]
    R, C, NZ, NX = shape(cfg)
    ym, xm, am = case["ym"], case["xm"], case.get("am") or []
    Y = np.empty((R, C, NZ, NX))
    XV = np.empty((R, C, NZ, NX))
    EY = np.empty((R, C, NZ, NX))
    CV = np.empty((R, C, NZ, NX))
    for r in range(1, R + 1):
        for c in range(1, C + 1):
            for z in range(1, NZ + 1):
                for k in range(1, NX + 1):
                    i = idx(cfg, r, c, z, k)
                    Y[r - 1, c - 1, z - 1, k - 1] = masked(yval(cfg, i), ym[i - 1], i)
                    XV[r - 1, c - 1, z - 1, k - 1] = masked(xvval(i), xm[i - 1], i) if cfg["xvar"] else 0.0
                    a = am[i - 1] if am else "f"
                    EY[r - 1, c - 1, z - 1, k - 1] = errval(i) if a == "f" else (np.nan if a == "n" else np.inf)
                    if cfg["colour"] == "c" and kind == "scatter":
                        CV[r - 1, c - 1, z - 1, k - 1] = cq(cfg, cfg["CTab"][i - 1]) if a == "f" else np.nan
    b = Built()
    b.kwargs = {}
    rows, cols = grid_values(cfg)
    gdims = []
    coords = {}
    if cfg["NR"]:
        gdims.append("rr")
        coords["rr"] = rows
        b.kwargs["row"] = "rr"
    if cfg["NC"]:
        gdims.append("cc")
        coords["cc"] = cols
        b.kwargs["col"] = "cc"

    def sel(A, z=None):
        """A[(r), (c), z?, :] with the grid axes kept only when present"""
        ix = [slice(None) if cfg["NR"] else 0, slice(None) if cfg["NC"] else 0,
              slice(None) if z is None else z, slice(None)]
        return A[tuple(ix)]

    mix = h.get("mix", 0)        # 1: x / err / c (and every other variable of several) stored with the
    split = h.get("split")       #    reverse dim order of y; 2: y reversed instead.  split: k axis -> (ka, kb)
    roles = {}

    def var(dims, A, role="y"):
        """(dims, array) as stored in the Dataset.  Data refinement only: the same abstract cells, but the
        stored dimension order of a variable may differ from that of y and from the Dataset's own order,
        and the position axis may be two (equally long) dimensions."""
        dims = list(dims)
        A = np.asarray(A)
        if split and dims and dims[-1] == "kk":
            dims = dims[:-1] + ["ka", "kb"]
            A = A.reshape(A.shape[:-1] + tuple(split))
        if role == "c" and h.get("cdtype"):
            B = A.astype(h["cdtype"])
            assert np.array_equal(B.astype(float), A), (h["cdtype"], A)
            A, role = B, "s"
        elif role == "c":
            role = "s"
        rev = bool(h.get("dimorder")) != ((mix == 1 and role == "s") or (mix == 2 and role == "y"))
        if rev and len(dims) > 1:
            perm = list(range(len(dims)))[::-1]
            dims, A = [dims[p] for p in perm], np.transpose(A, perm)
        return (tuple(dims), np.array(A, order="C"), role)

    def assemble(coords, dv):
        """coordinates first, then the variables one by one (as after transpose / merge)"""
        ds = xr.Dataset(coords=coords)
        for name, (dims, A, role) in dv.items():
            ds[name] = (dims, A)
            roles[name] = role
        if mix:
            ys = [n_ for n_ in dv if roles[n_] == "y" and len(dv[n_][0]) > 1]
            for n_ in dv:
                if roles[n_] == "s" and ys and set(dv[n_][0]) == set(dv[ys[0]][0]):
                    assert ds[n_].dims != ds[ys[0]].dims, (n_, ds[n_].dims, ds[ys[0]].dims)
        return ds

    # ---- options common to all kinds
    if cfg["colour"] == "z":
        b.kwargs["colors"] = True
    if h.get("colors_list"):
        b.kwargs["colors"] = ["r", "g", "b"]
    for k_opt, k_kw in (("colormap", "colormap"), ("xlog", "xlog"), ("ylog", "ylog"), ("markers", "markers")):
        if h.get(k_opt) is not None:
            b.kwargs[k_kw] = h[k_opt]
    if h.get("reverse"):
        b.kwargs["colormap_reverse"] = True
    if h.get("normlog"):
        b.kwargs["colormap_log"] = True
    if cfg["lims"]:
        qm = yval if kind == "heat" else (cq if cfg["colour"] == "c" else zq)
        lo_, hi_ = qm(cfg, cfg["lims"][0]), qm(cfg, cfg["lims"][1])
        lk = h.get("limkind", "zlims")
        if lk == "vmin":
            b.kwargs["vmin"], b.kwargs["vmax"] = lo_, hi_
        elif lk == "open":            # upper limit left to the data: must be the data's maximum
            top = max(cfg["CTab"]) if cfg["colour"] == "c" else max(cfg["ZPos"])
            assert kind != "heat" and cfg["lims"][1] == top
            b.kwargs["zlims"] = (lo_, None)
        else:
            b.kwargs["zlims"] = (lo_, hi_)
    if h.get("xjit"):
        b.kwargs["xjitter"] = h["xjit"]
    if h.get("yjit"):
        b.kwargs["yjitter"] = h["yjit"]
    for opt in ("legend", "colorbar"):
        if cfg[opt] != "auto":
            b.kwargs[opt] = cfg[opt] == "on"

    auto = h.get("api") == "auto"
    if kind == "heat":
        if auto:
            b.fn = "auto_heatmap"
            b.args = [np.array(Y[0, 0].T)]            # A[k, j]: first axis -> x of the mesh
            b.frozen = [b.args[0]]
            b.ds = None
            return b
        coords["hx"] = x_coords(cfg)
        coords["hy"] = y_coords(cfg)
        ds = assemble(coords, {"vv": var(gdims + ["hy", "hx"], sel(Y))})
        b.fn, b.args, b.ds = "heatmap", ["hx", "hy", "vv"], ds
        return b

    if kind == "hist":
        if "bins" in h:
            b.kwargs["bins"] = h["bins"]
        if auto:
            b.fn = "auto_histogram"
            b.args = [np.array(Y[0, 0, 0])]
            b.frozen = [b.args[0]]
            b.ds = None
            return b
        dv = {}
        if cfg["series"] == "z":
            coords["zz"] = z_values(cfg)
            dv["vv"] = var(gdims + ["zz", "kk"], sel(Y))
            b.args = ["vv", "zz"]
        elif cfg["series"] == "vars":
            for z in range(NZ):
                dv[VAR_NAMES[z]] = var(gdims + ["kk"], sel(Y, z), "s" if z % 2 else "y")
            b.args = [tuple(VAR_NAMES[:NZ])]
        else:
            dv["vv"] = var(gdims + ["kk"], sel(Y, 0))
            b.args = ["vv"]
        b.fn, b.ds = "histogram", assemble(coords, dv)
        return b

    # ---- line / scatter
    fn = "lineplot" if kind == "line" else "scatter"
    if auto:
        b.fn = "auto_" + fn
        if cfg["xvar"]:
            xa = np.array(XV[0, 0]) if NZ > 1 else np.array(XV[0, 0, 0])
        else:
            xa = np.array(x_coords(cfg))
        ya = np.array(Y[0, 0]) if NZ > 1 else np.array(Y[0, 0, 0])
        if h.get("ytrans"):
            # documented: y_z is transposed when its first axis matches x; only unambiguous for NX != NZ
            assert NZ > 1 and NX != NZ and not cfg["xvar"]
            ya = np.array(ya.T, order="C")
        if cfg["xvar"]:
            assert xa.shape == ya.shape           # per-series x: paired element by element, square or not
        else:
            assert NX != NZ                       # 1-d x with a square y_z: orientation of y_z is ambiguous
        b.args = [xa, ya]
        b.frozen = [xa, ya]
        b.ds = None
        return b
    xdim = "kk" if cfg["xvar"] else "xx"
    if not cfg["xvar"]:
        coords["xx"] = x_coords(cfg)
    dv = {}
    if cfg["series"] == "z":
        coords["zz"] = z_values(cfg)
        dv["yy"] = var(gdims + ["zz", xdim], sel(Y))
        if cfg["xvar"]:
            dv["xv"] = var(gdims + ["zz", xdim], sel(XV), "s")
        if h.get("yerr"):
            dv["ey"] = var(gdims + ["zz", xdim], sel(EY), "s")
        if h.get("xerr"):
            dv["ex"] = var(gdims + ["zz", xdim], sel(EY) / 2, "s")
        if cfg["colour"] == "c":
            if kind == "scatter":
                dv["cv"] = var(gdims + ["zz", xdim], sel(CV), "c")
            else:
                CL = np.empty((R, C, NZ))
                for r in range(R):
                    for c in range(C):
                        for z in range(NZ):
                            CL[r, c, z] = cq(cfg, cfg["CTab"][(r * C + c) * NZ + z])
                dv["cv"] = var(gdims + ["zz"], CL[tuple([slice(None) if cfg["NR"] else 0,
                                                         slice(None) if cfg["NC"] else 0, slice(None)])], "c")
        yarg, zarg = "yy", "zz"
    elif cfg["series"] == "vars":
        for z in range(NZ):
            dv[VAR_NAMES[z]] = var(gdims + [xdim], sel(Y, z), "s" if z % 2 else "y")
        yarg, zarg = tuple(VAR_NAMES[:NZ]), None
    else:
        dv["yy"] = var(gdims + [xdim], sel(Y, 0))
        if cfg["xvar"]:
            dv["xv"] = var(gdims + [xdim], sel(XV, 0), "s")
        if h.get("yerr"):
            dv["ey"] = var(gdims + [xdim], sel(EY, 0), "s")
        if h.get("xerr"):
            dv["ex"] = var(gdims + [xdim], sel(EY, 0) / 2, "s")
        if cfg["colour"] == "c":
            if kind == "scatter":
                dv["cv"] = var(gdims + [xdim], sel(CV, 0), "c")
            else:
                CL = np.empty((R, C))
                for r in range(R):
                    for c in range(C):
                        CL[r, c] = cq(cfg, cfg["CTab"][(r * C + c) * NZ])
                dv["cv"] = var(gdims, CL[tuple([slice(None) if cfg["NR"] else 0,
                                                slice(None) if cfg["NC"] else 0])], "c")
        yarg, zarg = "yy", None
    if cfg["colour"] == "c":
        b.kwargs["c"] = "cv"
    if h.get("yerr"):
        b.kwargs["y_err"] = "ey"
    if h.get("xerr"):
        b.kwargs["x_err"] = "ex"
    b.fn = fn
    b.args = ["xv" if cfg["xvar"] else "xx", yarg] + ([zarg] if zarg else [])
    b.ds = assemble(coords, dv)
    return b


def describe(case, b=None):
    cfg = case["cfg"]
    b = b or build(case)
    args = ", ".join(repr(a) if isinstance(a, (str, tuple)) else "<array%s>" % (getattr(a, "shape", ""),)
                     for a in b.args)
    kw = ", ".join("%s=%r" % kv for kv in sorted(b.kwargs.items()))
    return "%s(%s%s%s) [cfg %s: NX=%d NZ=%d NR=%d NC=%d series=%s ztype=%s; y mask %s%s]" % (
        b.fn, "ds, " if b.ds is not None else "", args, (", " + kw) if kw else "", cfg.get("id"),
        cfg["NX"], cfg["NZ"], cfg["NR"], cfg["NC"], cfg["series"], cfg["ztype"], "".join(case["ym"]),
        (("; x mask " + "".join(case["xm"])) if case["xm"] else "")
        + (("; err/c mask " + "".join(case["am"])) if case.get("am") else "")
        + "".join("; %s=%s" % (k, cfg["h"][k]) for k in ("zdtype", "cdtype", "mix", "split") if cfg["h"].get(k)))


# ---------------------------------------------------------------------------
# the dataset before / after

def snapshot(b):
    import numpy as np
    if b.ds is None:
        return [(a.copy(), a.dtype, a.shape) for a in b.frozen]
    ds = b.ds
    names = list(ds.variables)
    return dict(copy=ds.copy(deep=True),
                raw={n: (ds[n].dims, ds[n].values.dtype.str, np.array(ds[n].values, copy=True),
                         dict(ds[n].attrs)) for n in names},
                names=names, attrs=dict(ds.attrs), dims=dict(ds.sizes))


def same_array(a, b_):
    import numpy as np
    if a.shape != b_.shape or a.dtype != b_.dtype:
        return False
    if a.dtype.kind == "f":
        return bool(np.array_equal(a, b_, equal_nan=True)) and bool(np.array_equal(np.signbit(a), np.signbit(b_)))
    return bool(np.array_equal(a, b_))


def modified(b, snap):
    """None, or what differs between the inputs now and the snapshot taken before the call."""
    if b.ds is None:
        for a, (a0, dt, sh) in zip(b.frozen, snap):
            if a.dtype != dt or a.shape != sh or not same_array(a, a0):
                return "an input array was modified"
        return None
    ds = b.ds
    if list(ds.variables) != snap["names"]:
        return "variables changed: %s -> %s" % (snap["names"], list(ds.variables))
    if dict(ds.sizes) != snap["dims"] or dict(ds.attrs) != snap["attrs"]:
        return "dimensions or attributes changed"
    for n, (dims, dt, vals, attrs) in snap["raw"].items():
        if ds[n].dims != dims or ds[n].values.dtype.str != dt or dict(ds[n].attrs) != attrs:
            return "variable %r changed dims/dtype/attrs" % n
        if not same_array(ds[n].values, vals):
            return "values of %r changed" % n
    if not ds.identical(snap["copy"]):
        return "Dataset.identical(copy taken before the call) is False"
    return None


# ---------------------------------------------------------------------------
# comparing what was drawn with what the specification demands

def frac(col):
    return Fraction(col[0], col[1])


def expected_cmap(cfg):
    import matplotlib
    h = cfg["h"]
    name = h.get("colormap")
    if name is None:
        if cfg["kind"] == "heat":
            cm = matplotlib.colormaps["inferno"]
        else:
            from xyzpy.plot.color import xyz_colormaps
            cm = xyz_colormaps(None)        # the library's default map is "the chosen colour map"
    else:
        cm = matplotlib.colormaps[name]
    if h.get("reverse"):
        cm = cm.reversed()
    return cm


def parse_title(text, name, values):
    """'name = value' -> 1-based index of the coordinate value, or None"""
    if " = " not in text:
        return None
    left, right = text.split(" = ", 1)
    if left != name:
        return None
    for i, v in enumerate(values):
        if right == str(v):
            return i + 1
        if isinstance(v, float):
            try:
                if abs(float(right) - v) <= 5e-5:
                    return i + 1
            except ValueError:
                pass
    return None


def close(a, b_, rel=1e-9, ab=1e-12):
    return abs(a - b_) <= ab + rel * max(abs(a), abs(b_))


class Problems(object):
    def __init__(self):
        self.items = []
        self.notes = []

    def add(self, check, what, **key):
        self.items.append(dict(check=check, what=what, key=key))

    def note(self, what):
        self.notes.append(what)


def compare(case, b, fig, P):
    import numpy as np
    cfg = case["cfg"]
    h = cfg["h"]
    kind = cfg["kind"]
    R, C, NZ, NX = shape(cfg)
    labels = labels_for(cfg)
    rows, cols = grid_values(cfg)
    cmap = expected_cmap(cfg)
    axes = {}
    for gi, gj, ax in plotread.data_axes(fig):
        if (gi, gj) in axes:
            P.add("panel-count", "two data axes at grid position %s" % ((gi, gj),))
        axes[(gi, gj)] = ax
    if len(axes) != R * C or set(axes) != {(i, j) for i in range(R) for j in range(C)}:
        P.add("panel-count", "expected a %dx%d grid of panels, figure has data axes at %s" % (R, C, sorted(axes)))
        return
    # ---- which coordinate does each grid row / column claim to show
    colmap = {j: (j + 1) for j in range(C)}
    rowmap = {i: (i + 1) for i in range(R)}
    for p in case["panels"]:
        ax = axes[(p["gi"] - 1, p["gj"] - 1)]
        if p["ct"]:
            got = parse_title(ax.get_title(), "cc", cols)
            if got is None:
                P.add("panel-title", "top panel of grid column %d has title %r, expected 'cc = <coordinate>'"
                      % (p["gj"], ax.get_title()))
            else:
                colmap[p["gj"] - 1] = got
        if p["rt"]:
            got = parse_title(ax.get_ylabel(), "rr", rows)
            if got is None:
                P.add("panel-title", "last panel of grid row %d has y label %r, expected 'rr = <coordinate>'"
                      % (p["gi"], ax.get_ylabel()))
            else:
                rowmap[p["gi"] - 1] = got
    if sorted(colmap.values()) != list(range(1, C + 1)) or sorted(rowmap.values()) != list(range(1, R + 1)):
        P.add("panel-title", "grid titles do not name every coordinate once: columns %s rows %s" % (colmap, rowmap))
        return
    if any(colmap[j] != j + 1 for j in colmap) or any(rowmap[i] != i + 1 for i in rowmap):
        P.note("panels are not laid out in coordinate order")

    lo_hi = None
    if case["lim"] and case["lim"][0] != case["lim"][1]:     # a single value: normalisation undefined
        qm = (lambda c_, p: yval(c_, p)) if kind == "heat" else (cq if cfg["colour"] == "c" else zq)
        lo_hi = (float(qm(cfg, case["lim"][0])), float(qm(cfg, case["lim"][1])))

    def check_colour(real_rgba, col, who):
        if not col or col[1] == 0:
            return
        v = float(frac(col))
        if not (0.0 <= v <= 1.0):
            return
        if not plotread.colour_matches(real_rgba, plotread.cmap_colour(cmap, v, eps=1e-6)):
            msg = "%s has colour %s, the colour map at normalised value %s/%s is %s" % (
                who, tuple(round(x, 4) for x in real_rgba[:3]), col[0], col[1],
                tuple(round(float(x), 4) for x in cmap(v)[:3]))
            if cfg["series"] == "vars":
                P.note("evenly spaced colours of variables differ: " + msg)
            else:
                P.add("colour", msg, colour=cfg["colour"])

    for (gi, gj), ax in sorted(axes.items()):
        r, c = rowmap[gi], colmap[gj]
        exp = [d for d in case["drawn"] if d["r"] == r and d["c"] == c]
        where = "panel(row %d, col %d)" % (r, c) if R * C > 1 else "the plot"
        if kind == "heat":
            meshes = plotread.read_meshes(ax)
            if len(meshes) != 1:
                P.add("mesh", "%s has %d meshes, expected 1" % (where, len(meshes)))
                continue
            m, d = meshes[0], exp[0]
            if m["values"].shape != (NZ, NX):
                P.add("mesh", "%s: mesh shape %s, expected %s (rows = y, columns = x)" % (where, m["values"].shape, (NZ, NX)))
                continue
            for j in range(NZ):
                for k in range(NX):
                    want = d["cells"][j][k]
                    got_masked = bool(m["mask"][j, k]) or not np.isfinite(m["values"][j, k])
                    if want == 0:
                        if not got_masked:
                            P.add("mesh", "%s: cell (y %d, x %d) shows %r, the dataset has no finite value there"
                                  % (where, j + 1, k + 1, float(m["values"][j, k])))
                    elif got_masked or m["values"][j, k] != yval(cfg, want):
                        P.add("mesh", "%s: cell (y %d, x %d) shows %s, the dataset value is %r"
                              % (where, j + 1, k + 1, "nothing" if got_masked else repr(float(m["values"][j, k])), yval(cfg, want)))
            xs = np.arange(NX, dtype=float) if h.get("api") == "auto" else np.array(x_coords(cfg))
            ys = np.arange(NZ, dtype=float) if h.get("api") == "auto" else np.array(y_coords(cfg))
            xe, ye = m["xedges"], m["yedges"]
            okgeo = len(xe) == NX + 1 and len(ye) == NZ + 1 \
                and all(min(xe[k], xe[k + 1]) <= xs[k] <= max(xe[k], xe[k + 1]) for k in range(NX)) \
                and all(min(ye[j], ye[j + 1]) <= ys[j] <= max(ye[j], ye[j + 1]) for j in range(NZ))
            if not okgeo:
                P.add("mesh", "%s: mesh edges x %s y %s do not enclose the coordinates x %s y %s"
                      % (where, xe.tolist(), ye.tolist(), xs.tolist(), ys.tolist()))
            if d["lim"] and d["lim"][0] != d["lim"][1]:
                want = (yval(cfg, d["lim"][0]), yval(cfg, d["lim"][1]))
                if m["vmin"] is None or m["vmax"] is None or not (close(m["vmin"], want[0]) and close(m["vmax"], want[1])):
                    msg = "%s: colours are normalised over [%s, %s], the finite values span [%s, %s]" % (
                        where, m["vmin"], m["vmax"], want[0], want[1])
                    if "i" in case["ym"]:
                        # colour limits of a heat map that holds +-inf are outside the property's statement
                        P.note("heat map with an infinite cell: colour limits are not those of the finite values "
                               "(optional fix C17-colornorm-inf.diff)")
                    else:
                        P.add("mesh-norm", msg)
            if m["cmap"].name != cmap.name:
                P.add("colour", "%s: mesh uses colour map %r, chosen %r" % (where, m["cmap"].name, cmap.name))
            continue

        if kind == "hist":
            hs = plotread.read_step_histograms(ax)
            if len(hs) != len(exp):
                P.add("series-count", "%s has %d histograms, expected one per series = %d" % (where, len(hs), len(exp)))
                continue
            allv = [yval(cfg, idx(cfg, r, c, d["s"], k)) for d in exp for k in d["pts"]]
            for d in exp:
                if labels is not None:
                    cand = [x for x in hs if x["label"] == labels[d["s"] - 1]]
                    if len(cand) != 1:
                        P.add("label", "%s: %d histograms labelled %r (labels present: %s)"
                              % (where, len(cand), labels[d["s"] - 1], [x["label"] for x in hs]))
                        continue
                    g = cand[0]
                else:
                    g = hs[0]
                who = "%s histogram %r" % (where, g["label"])
                vals_ = [yval(cfg, idx(cfg, r, c, d["s"], k)) for k in d["pts"]]
                if g["edges"] is None:
                    P.add("hist", "%s: unreadable polygon" % who)
                    continue
                e, hh = g["edges"], g["heights"]
                if not vals_:
                    if not all((not np.isfinite(x)) or x == 0 for x in hh):
                        P.add("hist", "%s: series has no finite value but bins are %s" % (who, hh.tolist()))
                    continue
                if not all(np.isfinite(e)) or not all(np.isfinite(hh)):
                    P.add("hist", "%s: non-finite bin edges/heights %s / %s for finite values %s" % (who, e.tolist(), hh.tolist(), vals_))
                    continue
                nb = len(hh)
                widths = np.diff(e)
                counts = hh * widths * len(vals_)
                if not close(float(counts.sum()), float(len(vals_)), rel=1e-7):
                    P.add("hist", "%s: bins hold %.6g values in total, the series has %d finite values %s"
                          % (who, float(counts.sum()), len(vals_), vals_))
                    continue
                if min(allv) < e[0] - 1e-9 or max(allv) > e[-1] + 1e-9:
                    P.add("hist", "%s: bin range [%s, %s] does not cover the finite values %s" % (who, e[0], e[-1], vals_))
                    continue
                want = np.zeros(nb)
                ambiguous = False
                for v in vals_:
                    if any(abs(v - x) < 1e-7 for x in e[1:-1]):
                        ambiguous = True
                    jbin = min(nb - 1, max(0, int(np.searchsorted(e, v, side="right")) - 1))
                    want[jbin] += 1
                if not ambiguous and not np.allclose(counts, want, rtol=0, atol=1e-6):
                    P.add("hist", "%s: bin contents %s, finite values %s fall into bins as %s"
                          % (who, np.round(counts, 6).tolist(), vals_, want.tolist()))
                check_colour(g["edgecolor"], d["col"], who)
            continue

        # ---- line / scatter
        real = plotread.read_lines(ax) if kind == "line" else plotread.read_scatter(ax)
        if len(real) != len(exp):
            P.add("series-count", "%s has %d drawn series (labels %s), expected one per %s = %d"
                  % (where, len(real), [x["label"] for x in real],
                     "variable" if cfg["series"] == "vars" else "z value", len(exp)),
                  empty=any(not d["pts"] for d in exp))
            continue
        for g, d in zip(real, exp):
            s = d["s"]
            who = "%s series %d" % (where, s)
            if labels is not None and g["label"] != labels[s - 1]:
                P.add("label", "%s is labelled %r, expected %r (drawn labels in order: %s)"
                      % (who, g["label"], labels[s - 1], [x["label"] for x in real]))
            want_xy = []
            for k in d["pts"]:
                i = idx(cfg, r, c, s, k)
                want_xy.append((xvval(i) if cfg["xvar"] else x_coords(cfg)[k - 1], yval(cfg, i)))
            got_xy = [(float(p[0]), float(p[1])) for p in g["xy"]]
            # a line joins its points in x-position order; where the positions are spread over two
            # dimensions (split) or for a scatter the order carries no meaning
            ordered = kind == "line" and not h.get("split")
            a, w = (got_xy, want_xy) if ordered else (sorted(got_xy), sorted(want_xy))
            jit = (h.get("xjit", 0), h.get("yjit", 0))
            if any(jit) and len(got_xy) == len(want_xy):
                # jitter requested: the drawn points are the data up to the noise (8 sigma; multiplicative on a
                # log axis); the values are more than that apart, so each drawn point still names its cell
                def near(g_, w_):
                    tx = 8 * jit[0] * (abs(w_[0]) if h.get("xlog") else 1.0) + 1e-12
                    ty = 8 * jit[1] * (abs(w_[1]) if h.get("ylog") else 1.0) + 1e-12
                    return abs(g_[0] - w_[0]) <= tx and abs(g_[1] - w_[1]) <= ty
                left = list(want_xy)
                for g_ in got_xy:
                    hit = [w_ for w_ in (left[:1] if ordered else left) if near(g_, w_)]
                    if not hit:
                        break
                    left.remove(hit[0])
                if not left:
                    a = w
            if a != w:
                P.add("points", "%s (label %r) draws %s, the finite (x, y) pairs of the dataset are %s"
                      % (who, g["label"], got_xy, want_xy),
                      fewer=len(got_xy) < len(want_xy), more=len(got_xy) > len(want_xy))
                continue
            if kind == "line":
                check_colour(g["color"], d["col"], who)
                for nm, opt, scale in (("yerr", "yerr", 1.0), ("xerr", "xerr", 0.5)):
                    if not h.get(opt) or any(jit):
                        continue
                    segs = g[nm]
                    if segs is None or len(segs) != len(want_xy):
                        P.add("errorbar", "%s: %s error bars for %d points" % (who, "no" if segs is None else len(segs), len(want_xy)))
                        continue
                    kof = {wxy: k for wxy, k in zip(want_xy, d["pts"])}
                    for (x, y), sg in zip(got_xy, segs):
                        k = kof[(x, y)]
                        if case.get("am") and case["am"][idx(cfg, r, c, s, k) - 1] != "f":
                            continue              # no finite error value there: only the point is demanded
                        e = errval(idx(cfg, r, c, s, k)) * scale
                        wseg = [(x, y - e), (x, y + e)] if nm == "yerr" else [(x - e, y), (x + e, y)]
                        if not all(close(float(sg[q][t]), wseg[q][t], rel=1e-12) for q in range(2) for t in range(2)):
                            P.add("errorbar", "%s: %s bar at point %d is %s, expected %s" % (who, nm, k, sg.tolist(), wseg))
                            break
            else:
                if d["pcol"]:
                    bycolour = {k: col for k, col in zip(d["pts"], d["pcol"])}
                    if not g["mapped"] or len(g["colors"]) != len(got_xy):
                        P.add("colour", "%s: points are not colour-mapped from the colour variable" % who, colour="c")
                    else:
                        for p_, rgba_ in zip(got_xy, g["colors"]):
                            kk = [k for k, wxy in zip(d["pts"], want_xy) if wxy == p_][0]
                            col = bycolour[kk]
                            if col[1] == 0:
                                continue
                            v = float(frac(col))
                            if not plotread.colour_matches(tuple(rgba_), plotread.cmap_colour(cmap, v, eps=1e-6)):
                                P.add("colour", "%s point %d (colour variable = %s) has colour %s; normalised over the "
                                      "whole variable [%s, %s] it is %s/%s -> %s (collection normalises over [%s, %s])"
                                      % (who, kk, cq(cfg, cfg["CTab"][idx(cfg, r, c, s, kk) - 1]),
                                         tuple(round(float(x), 4) for x in rgba_[:3]),
                                         lo_hi[0] if lo_hi else None, lo_hi[1] if lo_hi else None, col[0], col[1],
                                         tuple(round(float(x), 4) for x in cmap(v)[:3]), g["vmin"], g["vmax"]),
                                      colour="c", scatter=True)
                                break
                else:
                    # no colour variable: the series is one drawn series in one colour - every point carries
                    # the series colour (for colors=True the colour map at the z value), none is colour-mapped
                    # from some other numbers
                    cols_ = [tuple(float(x) for x in row) for row in g["colors"]]
                    if got_xy and (g["mapped"] or len({tuple(round(x, 9) for x in cl) for cl in cols_}) > 1):
                        P.add("colour", "%s (%d points, no colour variable) is not drawn in one series colour: its points "
                              "have colours %s%s" % (who, len(got_xy), [tuple(round(x, 4) for x in cl[:3]) for cl in cols_],
                                                     " mapped from the values %s" % g["values"].tolist() if g["mapped"] else ""),
                              colour=cfg["colour"], uniform=False)
                    elif d["col"]:
                        for cl in cols_:
                            check_colour(cl, d["col"], who)

    # ---- legend and colour bar
    legs = plotread.legends(fig)
    cbs = plotread.colorbars(fig)
    if legs and labels is not None:
        want = [labels[s - 1] for s in range(1, NZ + 1)]
        if legs[0] != want:
            P.add("legend-labels", "legend lists %s, the series are %s" % (legs[0], want))
    if bool(legs) != bool(case["legend"]) and kind != "heat":
        P.note("legend %s, calc_use_legend_or_colorbar as modelled says %s" % ("present" if legs else "absent", case["legend"]))
    want_cbar = bool(case["cbar"])
    if bool(cbs) != want_cbar:
        P.note("colour bar %s, calc_use_legend_or_colorbar as modelled says %s" % ("present" if cbs else "absent", want_cbar))
    if cbs and lo_hi is not None:
        cb = cbs[0]
        if cb["vmin"] is None or cb["vmax"] is None or not (close(cb["vmin"], lo_hi[0]) and close(cb["vmax"], lo_hi[1])):
            if kind == "heat" and "i" in case["ym"]:
                pass                      # noted above
            else:
                P.add("cbar-limits", "colour bar spans [%s, %s], the colour quantity spans [%s, %s]"
                      % (cb["vmin"], cb["vmax"], lo_hi[0], lo_hi[1]))


def check_case(case):
    """Plot the case with the real code and compare; returns (problems, notes)."""
    xyz = common.use_repo()
    plotread.quiet_matplotlib()
    import warnings
    warnings.simplefilter("ignore")
    P = Problems()
    b = build(case)
    snap = snapshot(b)
    import numpy as np
    np.random.seed(int(common.stable_hash([case["cfg"].get("id"), case["ym"], case["xm"]])[:8], 16))
    plotread.close_all()
    fig = None
    try:
        if b.ds is not None and case["cfg"]["h"].get("accessor"):
            fig = getattr(b.ds.xyz, b.fn)(*b.args, **b.kwargs)
        elif b.ds is not None:
            fig = getattr(xyz, b.fn)(b.ds, *b.args, **b.kwargs)
        else:
            fig = getattr(xyz, b.fn)(*b.args, **b.kwargs)
    except Exception as e:  # noqa
        import traceback
        tb = traceback.extract_tb(e.__traceback__)
        inner = [f for f in tb if "/xyzpy/" in f.filename]
        at = ("%s:%s" % (inner[-1].filename.split("/xyzpy/")[-1], inner[-1].name)) if inner else ""
        P.add("raise", "raises %s: %s (in %s)" % (type(e).__name__, str(e)[:160], at),
              exc=type(e).__name__, at=at)
    if fig is not None:
        try:
            if not hasattr(fig, "axes"):
                P.add("raise", "returned %r instead of a Figure" % (fig,), exc="nofigure")
            else:
                compare(case, b, fig, P)
        finally:
            plotread.close_all()
    else:
        plotread.close_all()
    why = modified(b, snap)
    if why:
        P.add("dataset-modified", "the input was modified by plotting: " + why)
    return P.items, P.notes


def _chk(case):
    try:
        items, notes = check_case(case)
        return (case, items, notes, None)
    except Exception:  # harness failure: reported as machinery failure by run()
        import traceback
        return (case, [], [], traceback.format_exc())


def nontrivial(case):
    cfg = case["cfg"]
    return any(m != "f" for m in case["ym"] + case["xm"] + (case.get("am") or [])) or cfg["colour"] != "none" or cfg["NR"] + cfg["NC"] > 0


def case_key(case):
    cfg = case["cfg"]
    return [[cfg[k] for k in TLA_FIELDS if k not in ("id",)], cfg["series"], cfg["ztype"], sorted(cfg["h"].items()),
            case["ym"], case["xm"], case.get("am") or []]


def report_case(rep, case, items, what_prefix=None):
    cfg = case["cfg"]
    desc = what_prefix or describe(case)
    for it in items:
        key = dict(check=it["check"], kind=cfg["kind"], grid=bool(cfg["NR"] + cfg["NC"]), series=cfg["series"])
        key.update(it["key"])
        rep.add_violation(case, "%s: %s" % (desc, it["what"]), key=key)


# ---------------------------------------------------------------------------

def run(rep):
    rep.rule = ("PlotClassic.tla: for every configuration (kind x series mode x grid x colour mode x options) TLC walks "
                "the cells of y (and x) assigning finite/NaN/inf under the configuration's budget and emits each dataset "
                "with the demanded drawing; distinct = distinct (configuration, masks); non-trivial = a non-finite cell, "
                "a colour map or a grid is involved")
    rep.assumptions = [
        "numeric equality of colours (colour map look-up at the rational the spec emits, tolerance 1e-6 per channel, "
        "either neighbour accepted at a look-up boundary) and of histogram densities (count/(n*width), 1e-6) is decided "
        "by the harness, not by TLC",
        "TLC checks the machine against the invariants only for the enumerated shapes (NX <= 4, NZ <= 3 and 10..12, grid <= 3x3)",
        "the default colour map is taken from xyzpy.plot.color.xyz_colormaps(None); named maps from matplotlib",
        "which of legend / colour bar appears is compared with the modelled rule but only noted (the property does not state it)",
        "error-bar, marker and log-axis options are passed through; error bars are compared at the kept points only",
        "colour limits of a heat map that contains +-inf are only noted (outside the statement); a single finite "
        "value / single series leaves the normalisation undefined and its colour is not compared",
        "data refinement: the stored dimension order of x / error / colour variables (and of every other y variable) "
        "relative to y and to the Dataset, and positions spread over two equally long dimensions, are varied by the "
        "harness under unchanged abstract cases; where positions span two dimensions the order of a line's points is "
        "not compared",
        "an auxiliary variable (y_err / x_err, scatter's per-point c) gets NaN / +inf of its own; the point must still be "
        "handed to matplotlib (Axes.scatter itself masks, but keeps, a point whose colour value is NaN), its error bar / colour is then not compared; dtypes of the z coordinate and the colour variable "
        "(uint8..uint64, int32, float32, int64, float64) are varied by the harness under unchanged abstract cases",
        "auto_lineplot/auto_scatter: a 1-d x is not exercised with a square y_z (orientation of y_z ambiguous there); "
        "a 2-d x has the shape of y_z (square or not) and pairs with it element by element",
    ]
    cfgs = gen_configs(rep.tier)
    byid = {c["id"]: c for c in cfgs}
    chunks = split_chunks(cfgs, common.NCPU)
    with ThreadPoolExecutor(max_workers=common.NCPU) as ex:
        futs = [ex.submit(run_chunk, "MC_PlotClassic_%02d" % i, ch) for i, ch in enumerate(chunks)]
        vfuts = {v: ex.submit(run_chunk, "MC_PlotClassic_" + v, [dict(c, id=i + 1) for i, c in enumerate(vc)],
                              v, False, False)
                 for v, vc in variant_configs().items()}
        results = [f.result() for f in futs]
        vres = {v: f.result() for v, f in vfuts.items()}
    cov = {}
    raw_cases = []
    for i, r in enumerate(results):
        rep.add_tlc("PlotClassic chunk %d (%d configurations)" % (i, len(chunks[i])), r)
        if r.violated:
            raise tlc.TLCError("the specified machine (Variant = ok) violates its own invariant %s:\n%s"
                               % (r.violated, "\n".join(r.out.splitlines()[-60:])))
        for k, v in r.coverage.items():
            cov[k] = cov.get(k, 0) + v[1]
        raw_cases.extend(r.cases)
    for act in ACTIONS:
        if cov.get(act, 0) == 0:
            raise tlc.TLCError("vacuous: action %s never taken" % act)
    for v, r in vres.items():
        if r.violated not in VARIANTS[v]:
            raise tlc.TLCError("self-test failed: the wrong machine %r is not rejected (TLC: %s)" % (v, r.violated))
    rep.note("self-test: the wrong machines %s are each rejected by TLC (%s)" % (
        sorted(VARIANTS), ", ".join("%s: %s" % (v, vres[v].violated) for v in sorted(vres))))
    cases = []
    seen = set()
    for c in raw_cases:
        cfg = byid[c["id"]]
        case = dict(cfg=cfg, ym=c["ym"], xm=c["xm"], am=c["am"], drawn=c["drawn"], panels=c["panels"],
                    legend=c["legend"], cbar=c["cbar"], lim=c["lim"])
        k = common.stable_hash([c["id"], c["ym"], c["xm"], c["am"]])
        if k in seen:
            continue
        seen.add(k)
        cases.append(case)
    if len(cases) < 500:
        raise tlc.TLCError("too few emitted cases: %d" % len(cases))
    cases.sort(key=lambda c: (c["cfg"]["id"], c["ym"], c["xm"], c["am"]))
    common.use_repo()
    plotread.quiet_matplotlib()
    res = common.pmap(_chk, cases, chunksize=8)
    notes = {}
    per_kind = {}
    for case, items, nts, err in res:
        if err:
            raise RuntimeError("harness failure on %s:\n%s" % (describe(case), err))
        rep.add_case(case_key(case), nontrivial=nontrivial(case),
                     sample=dict(call=describe(case), drawn=case["drawn"]) if len(rep.samples) < 3 and nontrivial(case) else None)
        per_kind[case["cfg"]["kind"]] = per_kind.get(case["cfg"]["kind"], 0) + 1
        report_case(rep, case, items)
        for n in nts:
            notes[n] = notes.get(n, 0) + 1
    for n, k in sorted(notes.items(), key=lambda kv: -kv[1])[:12]:
        rep.note("%d case(s): %s" % (k, n))
    rep.exhaustive = True
    rep.extra["figures"] = len(cases)
    rep.extra["figures_per_kind"] = per_kind
    rep.extra["configurations"] = len(cfgs)


def replay(rep, case):
    items, notes = check_case(case)
    print("call:", describe(case))
    print("demanded drawing:", case["drawn"])
    for n in notes:
        print("note:", n)
    report_case(rep, case, items)
