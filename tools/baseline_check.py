#!/usr/bin/env python3
"""Run the repository's pinned test-suite (guard off) and compare with
/root/.vp/BASELINE.json: every stable_pass test must still pass."""
import json, os, subprocess, sys, tempfile, xml.etree.ElementTree as ET

def main():
    base = json.load(open('/root/.vp/BASELINE.json'))
    env = dict(os.environ)
    env.pop('XYZPY_VERIF', None)
    with tempfile.TemporaryDirectory() as td:
        jx = os.path.join(td, 'j.xml')
        subprocess.run(['/venv/bin/python', '-m', 'pytest', '-q', '-p', 'no:cacheprovider',
                        '--timeout=900', '--continue-on-collection-errors',
                        '--junitxml=' + jx], cwd='/repo', env=env,
                       stdout=subprocess.DEVNULL, stderr=subprocess.DEVNULL)
        passed = set()
        for tc in ET.parse(jx).getroot().iter('testcase'):
            if not any(ch.tag in ('failure', 'error', 'skipped') for ch in tc):
                passed.add(tc.get('classname') + '::' + tc.get('name'))
    want = set(base['stable_pass'])
    missing = sorted(want - passed)
    print(f'passed={len(passed)} baseline={len(want)} missing={len(missing)}')
    for m in missing[:20]:
        print('  MISSING', m)
    return 1 if missing else 0

if __name__ == '__main__':
    sys.exit(main())
