#!/usr/bin/env python3
"""Evaluate independently seeded changes: tools/seed_eval.py <worktree> [<id> ...]

For each <worktree>/out/<id>/ (patch.diff, demo.py, meta.json):
  1. demo on the clean worktree must exit 0;
  2. patch must apply; demo must then exit non-zero;
  3. the repository's pinned test-suite must still pass its baseline (stable_pass set) with the patch;
  4. the owning check (quick tier) is run with VX_REPO=<worktree>: caught iff exit 1 and a VIOLATION line;
  5. the worktree is restored.
Confirmed changes are copied to /verif/seeded/<id>/ with the verdict recorded in meta.json."""
import json
import os
import shutil
import subprocess
import sys
import tempfile
import xml.etree.ElementTree as ET

VERIF = "/verif"


def sh(cmd, cwd=None, env=None, timeout=3600):
    p = subprocess.run(cmd, cwd=cwd, env=env, capture_output=True, text=True, timeout=timeout)
    return p.returncode, p.stdout, p.stderr


def suite_ok(wt):
    base = json.load(open("/root/.vp/BASELINE.json"))
    with tempfile.TemporaryDirectory() as td:
        jx = os.path.join(td, "j.xml")
        env = dict(os.environ, TQDM_DISABLE="1")
        env.pop("XYZPY_VERIF", None)
        sh(["/venv/bin/python", "-m", "pytest", "-q", "-p", "no:cacheprovider", "--timeout=900",
            "--continue-on-collection-errors", "--junitxml=" + jx], cwd=wt, env=env)
        passed = set()
        for tc in ET.parse(jx).getroot().iter("testcase"):
            if not any(ch.tag in ("failure", "error", "skipped") for ch in tc):
                passed.add(tc.get("classname") + "::" + tc.get("name"))
    missing = sorted(set(base["stable_pass"]) - passed)
    return not missing, len(passed), missing[:5]


def evaluate(wt, mid, tier="quick", extra_props=()):
    d = os.path.join(wt, "out", mid)
    meta = json.load(open(os.path.join(d, "meta.json")))
    prop = meta.get("property", mid.split("-")[0])
    env = dict(os.environ, TQDM_DISABLE="1", MPLBACKEND="Agg", PYTHONPATH=wt)
    res = dict(id=mid, property=prop)
    sh(["git", "checkout", "--", "xyzpy"], cwd=wt)
    rc, out, err = sh(["/venv/bin/python", os.path.join("out", mid, "demo.py")], cwd=wt, env=env)
    res["demo_clean_rc"] = rc
    rc, out, err = sh(["git", "apply", os.path.join("out", mid, "patch.diff")], cwd=wt)
    res["applies"] = rc == 0
    if rc != 0:
        res["error"] = err[-300:]
        return res
    try:
        rc, out, err = sh(["/venv/bin/python", os.path.join("out", mid, "demo.py")], cwd=wt, env=env)
        res["demo_patched_rc"] = rc
        res["demo_output"] = (out + err)[-400:]
        ok, n, missing = suite_ok(wt)
        res["suite_baseline_ok"] = ok
        res["suite_passed"] = n
        res["suite_missing"] = missing
        caught = {}
        for p in (prop,) + tuple(extra_props):
            e2 = dict(os.environ, VX_REPO=wt)
            rc, out, err = sh([os.path.join(VERIF, "check"), p, "--tier", tier], cwd=VERIF, env=e2)
            lines = [l for l in out.splitlines() if l.startswith("VIOLATION") or l.strip().startswith("what:")]
            caught[p] = dict(rc=rc, caught=(rc == 1 and any(l.startswith("VIOLATION property=%s" % p) for l in lines)),
                             first=lines[:2], tail=out.splitlines()[-1:] if out else err[-300:])
        res["checks"] = caught
    finally:
        sh(["git", "checkout", "--", "xyzpy"], cwd=wt)
    return res


def main():
    wt = sys.argv[1]
    ids = sys.argv[2:] or sorted(os.listdir(os.path.join(wt, "out")))
    ids = [i for i in ids if os.path.isdir(os.path.join(wt, "out", i))]
    for mid in ids:
        r = evaluate(wt, mid)
        valid = r.get("demo_clean_rc") == 0 and r.get("applies") and r.get("demo_patched_rc", 0) != 0 and r.get("suite_baseline_ok")
        r["valid_seed"] = bool(valid)
        print(json.dumps(r, indent=1))
        if valid:
            dst = os.path.join(VERIF, "seeded", mid + os.environ.get("SEED_SUFFIX", ""))
            os.makedirs(dst, exist_ok=True)
            for f in ("patch.diff", "demo.py"):
                shutil.copy(os.path.join(wt, "out", mid, f), dst)
            meta = json.load(open(os.path.join(wt, "out", mid, "meta.json")))
            meta["confirmed"] = dict(demo_clean_rc=r["demo_clean_rc"], demo_patched_rc=r["demo_patched_rc"],
                                     suite_baseline_ok=r["suite_baseline_ok"], suite_passed=r["suite_passed"],
                                     ran=["demo.py on clean tree", "git apply patch.diff", "demo.py on patched tree",
                                          "pinned test-suite vs BASELINE.json", "VX_REPO=<tree> ./check %s --tier quick" % r["property"]])
            meta["detected_by"] = {p: c["caught"] for p, c in r["checks"].items()}
            meta["first_violation"] = {p: c["first"] for p, c in r["checks"].items()}
            json.dump(meta, open(os.path.join(dst, "meta.json"), "w"), indent=1)


if __name__ == "__main__":
    main()
