#!/usr/bin/env python3
"""Regenerates DESIGN.md §16 (table of seeded changes) from /verif/seeded/*/meta.json."""
import json, os, re
root = "/verif/seeded"
rows = []
for d in sorted(os.listdir(root), key=lambda s: (s.split("-")[0], s)):
    mf = os.path.join(root, d, "meta.json")
    if not os.path.exists(mf):
        continue
    m = json.load(open(mf))
    det = m.get("detected_by", {})
    by = [p for p, v in det.items() if v]
    rnd = {"": 1, "b": 2, "c": 3, "d": 4, "e": 5, "f": 6, "g": 7, "h": 8, "i": 9}.get(re.sub(r"^C\d+-\d+", "", d), 1)
    summ = (m.get("summary") or "").replace("|", "/").replace("\n", " ")
    if len(summ) > 230:
        summ = summ[:227] + "..."
    rows.append((d, m.get("property", ""), rnd, summ, ", ".join(by) if by else "**not detected**"))
n = len(rows)
caught = sum(1 for r in rows if not r[4].startswith("**"))
lines = ["| seed | property | round | what the change does | detected by (quick tier) |", "|---|---|---|---|---|"]
for r in rows:
    lines.append("| %s | %s | %d | %s | %s |" % r)
text = "\n".join(lines)
p = "/verif/DESIGN.md"
s = open(p).read()
begin, end = "<!-- SEEDED-TABLE-BEGIN -->", "<!-- SEEDED-TABLE-END -->"
block = "%s\n%d seeded changes kept, %d detected by the owning (or a named sibling) check at the quick tier.\n\n%s\n%s" % (begin, n, caught, text, end)
if begin in s:
    s = s[:s.index(begin)] + block + s[s.index(end) + len(end):]
else:
    s += "\n" + block + "\n"
open(p, "w").write(s)
print(n, caught)
