#!/usr/bin/env python3
"""Regenerates /verif/MANIFEST.json from the table below (single source of truth)."""
import json, os
HERE = os.path.dirname(os.path.dirname(os.path.abspath(__file__)))

# id -> (spec modules, design ref, technique, level text, level note)
CHECKS = {
 "C20": ("NumFmt.tla", "DESIGN.md §8.4",
   "TLA+ machine of the formatting steps checked against a denotation oracle by TLC; every enumerated input replayed into format_number_with_error and read back",
   "TLC exhaustively checks the code-shaped decimal machine (exponent choice, hide rule, carry, digit count) against the denotation oracle on a boundary-dense grid, and every explored input is replayed into the real function whose output string is parsed independently; plus a seeded dense float sweep with the same oracle in exact fractions.",
   "Exact rounding ties are skipped; IEEE conversion of decimals is not modelled; grid bounded as listed in the evidence."),
}
CHECKS.update({
 "C01": ("Sweep.tla", "DESIGN.md §3",
   "TLA+ model of combo_runner_core (enumerate/shuffle/submit/complete/collect/unshuffle/place) checked by TLC; every emitted behaviour (permutation, completion order) replayed into combo_runner with scripted executors",
   "TLC checks ExactlyOnce / OnlyRequestedOnce / Placement / FlatOrder over all grid shapes with N<=6 (every permutation and every submit/complete/collect interleaving for N<=3, N=4 for selected shapes), simulates grids up to 5 arguments x 4 values, and every terminal behaviour is forced onto the real combo_runner (patched random.shuffle, scripted submit/apply_async/multiprocessing.Pool executors) whose call log and nested/flat/split output are compared position by position; executions with the real seeded shuffle and real thread / multiprocessing / loky pools are recorded and validated against SweepTrace.tla (code -> spec), with a corrupted-trace self-test on every run.",
   "Bounds as listed in the evidence; real pools/RNG are not forced (trace validation only); result tokens are realised as scalar/tuple/array by the harness."),
 "C02": ("Sweep.tla", "DESIGN.md §3",
   "same TLA+ model with case lists: Missing slots, sorted union axes, overlap rejection; behaviours replayed into combo_runner(cases=)/case_runner with every placeholder kind",
   "TLC checks Placement (with Missing), UnionAxes, RejectBeforeRun, ExactlyOnce on all ordered sets of <=3 distinct cases over 1-2 arguments with optional sub-grids (3-4 case arguments by simulation); each behaviour is replayed into the real code with number/str/bool/tuple/array/nested-list results and the placeholder's value and shape are compared at every un-requested position.",
   "Case sets are bounded; Dataset-valued results are exercised under C03."),
 "C03": ("Sweep.tla", "DESIGN.md §3",
   "same TLA+ model with Dataset/DataFrame placement and the constants/resources/attrs rule; replay through combo_runner_to_ds/_df, case_runner_to_ds/_df, Runner, label",
   "TLC checks Placement, UnionAxes, RowPairing and emits the expected coordinates/attributes; every behaviour is replayed through one public entry point and ds.sel at every grid point, dims, coords, attrs and every DataFrame row are compared; the pinned code's row mis-pairing (F2) is reproduced as a TLC counterexample of the 'shuffled' labelling variant on every run.",
   "1-d internal dimensions only; row order of DataFrames is not demanded."),
 "C16": ("Cluster.tla", "DESIGN.md §7",
   "TLA+ model of script generation and task execution (Gen, RunTask in any order, RunSingle, CliGrow) checked by TLC; each emitted case generates the real script, which is syntax-checked and executed with bash per array index",
   "TLC checks GrownExact / TasksOnce / RangeExact / ReadyAfter over schedulers x modes x crop states x explicit ids x task orders; for each emitted case the real gen_cluster_script output is checked with bash -n, its header range parsed, its embedded program compiled, and a selection is executed with bash once per array index in TLC's order; grown batches are counted from the function's call log and the crop state and reap compared with the model.",
   "No real scheduler; tasks of one array run sequentially; header lines other than the array range are not validated."),
 "C17": ("PlotClassic.tla", "DESIGN.md §8.1",
   "TLA+ machine of the classic drawing loop (panels, series, masks, colours) checked by TLC incl. nine rejected wrong variants; each emitted configuration is plotted with the real functions and the matplotlib artists are read back",
   "TLC enumerates NaN/inf masks x plot kinds x options and emits the expected drawn series (points, labels, panel, colour as a rational); the real lineplot/scatter/histogram/heatmap (and auto_* / accessor) output is read back from Line2D/PathCollection/QuadMesh/patch artists and compared; the input Dataset is deep-compared before/after.",
   "Pixel output is not examined; colours compared to 1e-6; colour limits under +-inf data are noted only; bokeh backend not installed."),
 "C19": ("RunStats.tla", "DESIGN.md §8.3",
   "exact integer TLA+ model of the Welford / co-moment updates and of the estimate_from_repeats loop checked by TLC; emitted sequences replayed into the real classes under affine maps with calibrated tolerances",
   "TLC proves (bounded) that the update recurrences equal whole-sample statistics for every order and chunking and that the stopping machine stops only when converged or at the limit; every emitted sequence/parameter set is replayed into RunningStatistics/RunningCovariance/RunningCovarianceMatrix/estimate_from_repeats (well- and ill-conditioned maps) and compared with the model's exact rationals; a naive sum-of-squares accumulator is shown to be rejected on every run.",
   "Floating-point accuracy is a tolerance check (4 n eps max|x| for means, 8(n eps AD + eps|cov|) for second moments); exact ties skipped."),
})
_CROP_NOTE = "Shuffles are forced through random.seed/random.shuffle; fresh Crop objects stand for fresh processes in the quick tier; bounds as listed in the evidence."
CHECKS.update({
 "C04": ("Crop.tla", "DESIGN.md §4",
   "TLA+ model of the crop life-cycle (sow order vs reaper replay order, batch cutting, result chain) checked by TLC; emitted sow/grow/reload/re-sow/reap histories replayed on real crops",
   "TLC checks ReapEqualsDirect on every reaping transition over grids/case lists x batchsize/num_batches x shuffle placement (constructor, sow call) and histories of grow(i)/Crop.grow(i)/Crop.grow(set)/grow_missing/reload/re-sow; every emitted history is replayed on a real crop in a temp directory and the reaped nested result compared position by position; the pinned sow_cases ordering (F3) is reproduced as a TLC counterexample on every run.", _CROP_NOTE),
 "C06": ("Crop.tla + Sweep.tla", "DESIGN.md §4",
   "same TLA+ crop model with farmer kinds and store delivery; replayed reaps compared with the model's value map, the farmer's last result, the data file and a direct run of the same runner",
   "For Runner/Harvester/Sampler crops every replayed reap is compared with the spec's value map at every point/row, must be recorded as last_ds/last_df, must leave the harvester file holding exactly the delivered settings, and a complete reap must be identical (Dataset) / equal (DataFrame) to a direct run of the same runner (whose labelling C03 validates against Sweep.tla). Histories that change the farmer's constants in mid-campaign and re-sow (each result tagged with the constants version of its batch file; action properties GrowRefreshes and FullGrowLeavesNothingStale) and Runner crops grown by worker pools are included.", _CROP_NOTE),
 "C07": ("Crop.tla", "DESIGN.md §4",
   "TLA+ model of choose_batch_settings and the Sower's cutting, Partition invariant checked by TLC for every (N, batchsize | num_batches); every emitted partition compared with real batch files",
   "TLC checks the Partition invariant for every N<=24 (thorough 48) x every batchsize in 1..N+1 / num_batches in 1..N+2, for grids and case lists, shuffled or not; each emitted partition is compared with the batch files a real sow writes (as sequences of settings with exactly the direct run's keyword arguments) and with the numbers the crop reports before and after reload; re-sows with other constants while finished batches exist must rewrite every batch file.", _CROP_NOTE),
 "C08": ("Crop.tla", "DESIGN.md §4",
   "TLA+ model of progress (ProgressIsTruth, OnlyOwnResult, ResowKeepsResults, FailedGrowWritesNothing) checked by TLC; simulated operation histories replayed with all four progress queries and directory listings compared after every call",
   "TLC checks the progress invariants and frame conditions over all reachable states of crops with 1..4 (8) batches; simulated histories (sow, re-sow, grow i, grow subset, grow_missing, failing function, repair, delete, corrupt, check_bad, reload) are replayed on real crops and num_sown_batches, num_results, missing_results(), is_ready_to_reap(), batches/ and results/ listings and the outcome of each call are compared after every step; progress queries are also interleaved with growers at file-operation level (CropFS.tla), liveness (EventuallyReady under fairness) is model-checked, and the repository's own crop tests are recorded by a pytest plugin and validated as traces against CropTrace.tla.", _CROP_NOTE),
 "C09": ("Crop.tla", "DESIGN.md §4",
   "TLA+ model of partial reaps (placeholder sizing, chain alignment) checked by TLC over all non-empty proper subsets; replayed into reap(allow_incomplete=True) for raw / Dataset / DataFrame crops",
   "TLC checks PartialReapWorks / ReapEqualsDirect / RefusedUntouched for every (N, batching) with and without remainder x every non-empty proper subset of finished batches (B<=5, thorough 7) x clean_up; each is replayed for number/array/tuple/str/bool results, Runner (Dataset) and Sampler (DataFrame) crops, incl. grow-missing-then-full-reap continuations; the pinned placeholder sizing (F4) is reproduced as a TLC counterexample on every run.", _CROP_NOTE),
 "C12": ("Crop.tla", "DESIGN.md §4",
   "TLA+ model of reap outcomes and clean-up (DeleteOnlyAfterDelivery, FailedReapKeepsCrop) checked by TLC over farmer kind x failure cause x clean_up x allow_incomplete with corrected retries; replayed with environment-provoked failures",
   "TLC checks that the crop directory is deleted only on a successful reap after delivery and is untouched by refused/failed reaps, for none/Runner/Harvester/Sampler crops with failures at result loading, dataset construction, harvester merge and save; histories incl. the corrected retry are replayed on real crops (failures provoked through the environment) and the directory, outcome, values and data file compared after every call; the pinned Sampler clean-up order (F8) is reproduced as a TLC counterexample; the reap events of the repository's own crop tests are validated as traces against CropTrace.tla.", _CROP_NOTE),
})
CHECKS.update({
 "C05": ("Harvest.tla", "DESIGN.md §6",
   "TLA+ model of the Harvester store (load-if-exists, merge by policy, remove+save, sessions, expand/drop/delete, save_merge_ds) checked by TLC over all bounded histories; emitted histories replayed on real Harvesters with memory and disk projected to point->version maps",
   "TLC checks MemEqDisk, NothingDropped, NothingDroppedSessions, PolicyValue and ConflictIsAtomic over every history of length <= 3 (2x2 points, 2 function versions, 3 policies, new sessions, all operations) and simulates longer ones; emitted histories are replayed with extension-less and extended data names on joblib and h5netcdf, disk and memory compared point by point after every call, and NothingDropped is additionally monitored on the real observations; the pinned naming rule (F6) and the un-synced reload (K1) are reproduced as TLC counterexamples on every run; K1 is a recorded known finding.",
   "Values identify (point, version); dask-chunked sessions and netcdf4/zarr engines are not exercised."),
 "C15": ("Harvest.tla", "DESIGN.md §6",
   "TLA+ model of the Sampler table (AppendOnly, ExactlyN, TableMemEqDisk) checked by TLC; emitted histories of sample_combos / sow_samples-grow-reap runs with fresh Sampler objects replayed with forced draws; seeded np.random.choice runs validated for membership and append-only",
   "TLC checks the append-only and exactly-n action properties over all bounded histories; emitted histories are replayed on real Samplers (pickle and csv, shuffle on/off, crop batch sizes) with the table on disk compared row by row (arguments, outputs belonging to those arguments, constants) after every run, and seeded random-choice sampling runs are validated against the same properties.",
   "Row order within one run is not demanded; json/hdf engines not exercised."),
 "C18": ("Infiniplot.tla", "DESIGN.md §8.2",
   "TLA+ machine of Infiniplotter (InitMapped order, drop empty coordinates, aggregate, DrawNext) checked by TLC against an input-only oracle incl. eight rejected wrong variants; each emitted configuration is plotted and the artists of every panel read back",
   "TLC enumerates injective assignments of dimensions to the 8 visual properties x null masks x modes (lines, heat map, histogram) x aggregate/join/bins options and checks ExactlyOnce, NothingEmpty, Placement, Styles, Points; every emitted case is drawn with the real infiniplot and lines per panel (points, gaps, style equality classes), QuadMesh cells and histogram lines are compared; the dataset is deep-compared before/after.",
   "Legends/labels are not examined; colour-coded heat maps checked for order only without a palette; replayed cases are a sample of the enumerated space."),
})
CHECKS.update({
 "C10": ("CropFS.tla", "DESIGN.md §5.3",
   "TLA+ file-system model whose writer programs are recorded from the real code; TLC crashes the program at every operation index and explores the documented recovery; every index is realised by SIGKILL of a real forked process at exactly that operation, then immediate reap, data survival and recovery are checked",
   "For sow, grow, grow_missing and reap (plain, Harvester joblib/h5netcdf, Sampler crops) the operation sequence is recorded on every run and handed to TLC, which checks NoSilentCorruption, RecoveryReachesExact and HarvestedDataSurvives over every crash index and recovery order; each crash index is then realised by killing a forked process immediately before that operation (creat, each half of a write, close, rename, unlink, mkdir, rmdir, rmtree's directory-descriptor deletions); the resulting directory is compared with the model's prediction, an immediate reap must refuse/raise or be exact, previously harvested data must be intact, and the documented recovery (incl. a second kill inside it for a sample) must reach the exact results.",
   "Kill points are Python-level operation boundaries (writes inside C libraries such as HDF5 are one step); power-loss semantics are out of scope."),
 "C11": ("CropFS.tla", "DESIGN.md §5.2",
   "TLA+ interleaving model of growers (programs recorded from the real grow on every run), reap(wait=True) and a progress poller checked exhaustively by TLC (safety + liveness under fairness); counterexamples and simulated schedules forced onto real threads by a deterministic file-operation scheduler",
   "For 1-3 growers on 1-3 batches (incl. two growers of one batch) TLC explores every interleaving of the recorded grower programs with the reaper's exists/isfile/read loop and the poller's directory listing, checking ReaperNeverSeesPartial, ReaperExact, PollerNeverCountsPartial and ReaperTerminates; every counterexample is replayed on the real code (alarm only if the real reaper raises / returns wrong data / the real poller counts a partial file) and hundreds of simulated schedules are forced onto real threads running the real grow, reap(wait=True) and num_results with conformance of every step's operation kind.",
   "Scheduling points are operations on results/ (each write split in two); a reader's open+read is one step; path-based file model."),
 "C13": ("FindMissing.tla", "DESIGN.md §6.2",
   "TLA+ scan machine of find_missing_cases / is_case_missing / parse_into_cases checked by TLC against an order-independent oracle over all null patterns incl. seven rejected wrong variants; every emitted pattern replayed on real datasets incl. the find -> harvest -> find loop",
   "TLC enumerates all null patterns (nan/inf/data per cell) for 1-4 parameter dimensions, 1-3 variables with and without an internal dimension, both null criteria, and checks ExactlyTheMissing, GridOrderNoDup, NeverReportsData, SecondScanEmpty, ParseExact; every emitted case builds the real xarray Dataset (int/float/str coordinates, Dataset and DataArray) and compares find_missing_cases, parse_into_cases, is_case_missing and a real Harvester harvest_cases(missing) loop.",
   "At most 16 locations; the largest shape is model-checked only."),
 "C14": ("DsStore.tla", "DESIGN.md §6.2",
   "TLA+ naming machine for one logical data name (every site that turns the name into a file) plus round-trip configuration enumeration checked by TLC; histories replayed with real save_ds/load_ds/save_merge_ds/Harvester/delete_ds and the round-trip identity tested on the real engines",
   "TLC checks DirExact, DiskIsWant, LoadReturnsLast, MergeSeesPrevious, DeleteWorks, MemIsDisk over all histories of save/load/merge/harvester-sync/delete for names with and without extension on h5netcdf and joblib (the pinned naming deviation F6 is rejected), and enumerates 0-4 dims x dtypes x NaN patterns x attribute sets x chunks; every emitted history and configuration is replayed in a temp directory, the listing and contents compared after every step and dims, coords, values (complex, NaN) and attributes compared after the round trip, lazy vs eager loads included.",
   "File bytes are not modelled; netcdf4/zarr not installed; dtype widening is a note."),
})
NOT_YET = {}

def main():
    checks = []
    for pid in sorted(CHECKS):
        spec, ref, tech, text, note = CHECKS[pid]
        checks.append({
            "property_id": pid,
            "quick_cmd": "./check %s --tier quick" % pid,
            "thorough_cmd": "./check %s --tier thorough" % pid,
            "evidence_file": "/verif/evidence/%s.json" % pid,
            "replay_cmd_template": "./check %s --replay {path}" % pid,
            "engine": "tlc+replay",
            "level_claimed": {"category": "model_checking", "text": text, "design_ref": ref},
            "level_note": note,
            "technique": tech,
        })
    props = [json.loads(l)["id"] for l in open(os.path.join(HERE, "properties.jsonl"))]
    na = [{"property_id": p, "reason": NOT_YET.get(p, "check under construction in this session: specification and replayer not committed yet (planned, see DESIGN.md §10)")}
          for p in props if p not in CHECKS]
    m = {
      "version": 1,
      "setup_cmd": "./check setup",
      "hooks": {
        "guard": "XYZPY_VERIF",
        "enable": "export XYZPY_VERIF=1 (set by ./check); no source hooks are needed so far - all observation is done from /verif by interposing on Python's own I/O entry points and public API",
        "baseline_off_cmd": "python3 /verif/tools/baseline_check.py",
        "source_commits": [],
        "add_only": True
      },
      "engines": [
        {"name": "tlc+replay", "path": "/verif/check", "serves_properties": sorted(CHECKS),
         "kind_free_text": "TLC 1.8 model checking of /verif/specs/*.tla; behaviours emitted by TLC are replayed into the real xyzpy code (spec->code) and traces recorded from the real code are validated against *Trace.tla (code->spec)"}
      ],
      "checks": checks,
      "not_applicable": na,
      "notes": "All checks import xyzpy from /repo's working tree (override with VX_REPO). known_findings.json lists recorded findings and fixed defects."
    }
    json.dump(m, open(os.path.join(HERE, "MANIFEST.json"), "w"), indent=1)
    print("checks:", len(checks), "not_applicable:", len(na))

if __name__ == "__main__":
    main()
