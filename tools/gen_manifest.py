#!/usr/bin/env python3
"""Regenerates /verif/MANIFEST.json from the table below (single source of truth)."""
import json, os
HERE = os.path.dirname(os.path.dirname(os.path.abspath(__file__)))

# id -> (spec modules, design ref, technique, level text, level note)
CHECKS = {
 "C20": ("NumFmt.tla", "DESIGN.md §8.4",
   "TLA+ machine of the formatting steps checked against a denotation oracle by TLC; every enumerated input replayed into format_number_with_error and read back",
   "TLC exhaustively checks the code-shaped decimal machine (exponent choice, hide rule, carry, digit count) against the denotation oracle on a boundary-dense grid, and every explored input is replayed into the real function whose output string is parsed independently; plus a seeded dense float sweep with the same oracle in exact fractions.",
   "Exact rounding ties are skipped; IEEE conversion of decimals is not modelled; grid bounded as listed in the evidence."),
}
NOT_YET = {}

def main():
    checks = []
    for pid in sorted(CHECKS):
        spec, ref, tech, text, note = CHECKS[pid]
        checks.append({
            "property_id": pid,
            "quick_cmd": "./check %s --tier quick" % pid,
            "thorough_cmd": "./check %s --tier thorough" % pid,
            "evidence_file": "/verif/evidence/%s.json" % pid,
            "replay_cmd_template": "./check %s --replay {path}" % pid,
            "engine": "tlc+replay",
            "level_claimed": {"category": "model_checking", "text": text, "design_ref": ref},
            "level_note": note,
            "technique": tech,
        })
    props = [json.loads(l)["id"] for l in open(os.path.join(HERE, "properties.jsonl"))]
    na = [{"property_id": p, "reason": NOT_YET.get(p, "check under construction in this session: specification and replayer not committed yet (planned, see DESIGN.md §10)")}
          for p in props if p not in CHECKS]
    m = {
      "version": 1,
      "setup_cmd": "./check setup",
      "hooks": {
        "guard": "XYZPY_VERIF",
        "enable": "export XYZPY_VERIF=1 (set by ./check); no source hooks are needed so far - all observation is done from /verif by interposing on Python's own I/O entry points and public API",
        "baseline_off_cmd": "python3 /verif/tools/baseline_check.py",
        "source_commits": [],
        "add_only": True
      },
      "engines": [
        {"name": "tlc+replay", "path": "/verif/check", "serves_properties": sorted(CHECKS),
         "kind_free_text": "TLC 1.8 model checking of /verif/specs/*.tla; behaviours emitted by TLC are replayed into the real xyzpy code (spec->code) and traces recorded from the real code are validated against *Trace.tla (code->spec)"}
      ],
      "checks": checks,
      "not_applicable": na,
      "notes": "All checks import xyzpy from /repo's working tree (override with VX_REPO). known_findings.json lists recorded findings and fixed defects."
    }
    json.dump(m, open(os.path.join(HERE, "MANIFEST.json"), "w"), indent=1)
    print("checks:", len(checks), "not_applicable:", len(na))

if __name__ == "__main__":
    main()
