#!/usr/bin/env python3
"""Re-run the owning check (quick tier) against every kept seeded change and refresh meta.json:detected_by.
usage: tools/seed_refresh.py [id ...]   (VX_NCPU honoured; run from /verif)"""
import json
import os
import subprocess
import sys
from concurrent.futures import ThreadPoolExecutor

sys.path.insert(0, "/verif")
os.environ.setdefault("VX_NCPU", "4")
from vx import mutants  # noqa

ALSO = {"C10-1b": ["C11"], "C10-1c": ["C11"], "C08-2b": ["C11", "C10"], "C06-2c": ["C12"], "C01-2d": ["C03"], "C03-1f": ["C01"], "C16-1f": ["C11", "C08"], "C04-2g": ["C07", "C06"], "C04-1h": ["C11"], "C15-1h": ["C04", "C09"]}


def one(item):
    sid, prop, pf = item
    res = {}
    firsts = {}
    for p in [prop] + ALSO.get(sid, []):
        caught, tail = mutants.run_seeded(sid, p, pf)
        res[p] = bool(caught)
        lines = [l for l in (tail or "").splitlines() if "what:" in l]
        firsts[p] = lines[:1]
    mf = os.path.join("/verif/seeded", sid, "meta.json")
    meta = json.load(open(mf))
    meta["detected_by"] = res
    meta["first_violation"] = firsts
    json.dump(meta, open(mf, "w"), indent=1)
    return sid, res


def main():
    items = [s for s in mutants.seeded() if not sys.argv[1:] or s[0] in sys.argv[1:]]
    with ThreadPoolExecutor(int(os.environ.get("SEED_PAR", "4"))) as ex:
        for sid, res in ex.map(one, items):
            print(sid, res, flush=True)


if __name__ == "__main__":
    main()
