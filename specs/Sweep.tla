------------------------------- MODULE Sweep -------------------------------
(***************************************************************************)
(* Properties C01, C02, C03: the sweep pipeline of xyzpy                   *)
(* (combo_runner_core and its labelling wrappers), one action per step the *)
(* code takes (xyzpy/gen/combo_runner.py:164-297, 472-564, 654-688).       *)
(*                                                                         *)
(*   Reject      case and grid arguments overlap -> error before any call  *)
(*   Enumerate   settings := cases-major x itertools.product(grid)         *)
(*   Shuffle     any permutation of the settings (random.shuffle)          *)
(*   Submit      pool strategies: all futures are created first, in order  *)
(*   Complete    a submitted call finishes (any order): the function runs  *)
(*   Collect     results are taken in *submission* order, blocking         *)
(*   RunSeq      sequential strategy: call and collect in one step         *)
(*   Unshuffle   sort (index, result) pairs by original index              *)
(*   Place       nested output: _unflatten over the (union) axes, absent   *)
(*               locations get the Missing placeholder; flat output: the   *)
(*               results in enumeration order; DataFrame: rows zip the     *)
(*               labelling settings with the results                       *)
(*                                                                         *)
(* A setting is identified by its number 1..N in enumeration order; the    *)
(* swept function of the harness returns a token of exactly the keyword    *)
(* arguments it was called with, so "the value the function returned for   *)
(* setting k" is just k, and Missing is 0.  Argument values are value      *)
(* indices 1..n (the harness maps them to concrete ints/floats/strings     *)
(* whose sort order agrees with the index order).                          *)
(***************************************************************************)
EXTENDS VxUtil, TLC, Json

CONSTANTS Configs,      \* set of configuration records (see Init)
          MaxPerm,      \* all permutations are explored when N <= MaxPerm
          DfSettings    \* "unshuffled" (repaired code) | "shuffled" (pinned code, defect F2)

VARIABLES cfg,       \* the configuration of this behaviour
          phase,     \* "start","enumerated","run","collected","unshuffled","done","rejected"
          n,         \* number of settings (0 until Enumerate)
          settings,  \* sequence of locations (tuples of value indices), enumeration order
          order,     \* order[k] = id of the k-th setting handed to the executor
          labels,    \* the settings list the labelling side-channel (info["settings"]) carries
          nsub,      \* number of futures created
          finished,  \* ids whose call has completed
          calls,     \* call log: ids in the order the function was actually invoked
          got,       \* results collected so far, in collection order
          lin,       \* results in enumeration order (after Unshuffle)
          out,       \* final output (see Place)
          hist       \* event log for the replay: <<"S"|"C"|"G"|"R", id>>

vars == <<cfg, phase, n, settings, order, labels, nsub, finished, calls, got, lin, out, hist>>

Missing == 0

-----------------------------------------------------------------------------
(* cfg = [grid    |-> sequence of axis sizes of the grid arguments, in the order given,
          nca     |-> number of case arguments (0 = no cases),
          cases   |-> sequence of distinct cases, each a tuple of nca value indices,
          overlap |-> TRUE if a case argument is also given in the grid,
          dup     |-> TRUE if the values given for a grid argument contain two equal values (1 and 1.0 count as equal),
          shuffle |-> BOOLEAN, pool |-> BOOLEAN,
          kind    |-> "nested" | "flat" | "ds" | "df",
          meta    |-> [cattr, cdim, res, attrs, tdim : BOOLEAN]  (a plain constant / a constant named t /
                      resources / attrs given; tdim: an output variable has the internal dimension t)] *)

CaseSeq == IF cfg.nca = 0 THEN << <<>> >> ELSE cfg.cases
GridAxes == [i \in 1..Len(cfg.grid) |-> Iota(cfg.grid[i])]
GridLocs == ProdSeq(GridAxes)
N == Len(CaseSeq) * Len(GridLocs)

(* union of the values seen per case argument, sorted (combo_runner.py:209-212, 258-267) *)
CaseAxes == [j \in 1..cfg.nca |-> SortedSeq({cfg.cases[c][j] : c \in 1..Len(cfg.cases)})]
Axes == CaseAxes \o GridAxes
AllLocs == ProdSeq(Axes)

Enumeration ==
    FlattenSeq([c \in 1..Len(CaseSeq) |-> [g \in 1..Len(GridLocs) |-> CaseSeq[c] \o GridLocs[g]]])

Init == /\ cfg \in Configs
        /\ phase = "start"
        /\ n = 0
        /\ settings = <<>> /\ order = <<>> /\ labels = <<>>
        /\ nsub = 0 /\ finished = {} /\ calls = <<>> /\ got = <<>> /\ lin = <<>>
        /\ out = <<>> /\ hist = <<>>

Reject ==
    /\ phase = "start" /\ (cfg.overlap \/ cfg.dup)
    /\ phase' = "rejected"
    /\ UNCHANGED <<cfg, n, settings, order, labels, nsub, finished, calls, got, lin, out, hist>>

Enumerate ==
    /\ phase = "start" /\ ~cfg.overlap /\ ~cfg.dup
    /\ n' = N
    /\ settings' = Enumeration
    /\ order' = Iota(N)
    /\ labels' = Iota(N)
    /\ phase' = IF cfg.shuffle THEN "enumerated" ELSE "run"
    /\ UNCHANGED <<cfg, nsub, finished, calls, got, lin, out, hist>>

PermChoices ==
    IF n <= MaxPerm THEN {[k \in 1..n |-> p[k]] : p \in Permutations(1..n)}
    ELSE { [k \in 1..n |-> n + 1 - k],                       \* reversal
           [k \in 1..n |-> ((k + 1) % n) + 1],               \* rotation by two
           [k \in 1..n |-> IF k % 2 = 1 THEN (k + 1) \div 2 ELSE n + 1 - (k \div 2)] }  \* interleave ends

Shuffle ==
    /\ phase = "enumerated"
    /\ \E p \in PermChoices :
         /\ order' = p
         /\ labels' = IF DfSettings = "shuffled" /\ cfg.kind = "df" THEN p ELSE Iota(n)
    /\ phase' = "run"
    /\ UNCHANGED <<cfg, n, settings, nsub, finished, calls, got, lin, out, hist>>

Submit ==
    /\ phase = "run" /\ cfg.pool /\ nsub < n
    /\ nsub' = nsub + 1
    /\ hist' = Append(hist, <<"S", order[nsub + 1]>>)
    /\ UNCHANGED <<cfg, n, phase, settings, order, labels, finished, calls, got, lin, out>>

Complete(id) ==
    /\ phase = "run" /\ cfg.pool
    /\ id \in {order[k] : k \in 1..nsub} \ finished
    /\ finished' = finished \cup {id}
    /\ calls' = Append(calls, id)
    /\ hist' = Append(hist, <<"C", id>>)
    /\ UNCHANGED <<cfg, n, phase, settings, order, labels, nsub, got, lin, out>>

Collect ==
    /\ phase = "run" /\ cfg.pool /\ nsub = n /\ Len(got) < n
    /\ order[Len(got) + 1] \in finished            \* future.result() blocks until then
    /\ got' = Append(got, order[Len(got) + 1])     \* the token of exactly that setting
    /\ hist' = Append(hist, <<"G", order[Len(got) + 1]>>)
    /\ UNCHANGED <<cfg, n, phase, settings, order, labels, nsub, finished, calls, lin, out>>

RunSeq ==
    /\ phase = "run" /\ ~cfg.pool /\ Len(got) < n
    /\ LET id == order[Len(got) + 1]
       IN  /\ calls' = Append(calls, id)
           /\ got' = Append(got, id)
           /\ hist' = Append(hist, <<"R", id>>)
    /\ UNCHANGED <<cfg, n, phase, settings, order, labels, nsub, finished, lin, out>>

Collected ==
    /\ phase = "run" /\ Len(got) = n
    /\ phase' = "collected"
    /\ UNCHANGED <<cfg, n, settings, order, labels, nsub, finished, calls, got, lin, out, hist>>

(* sorted(zip(enum, results))  -  combo_runner.py:254-256 *)
Unshuffle ==
    /\ phase = "collected"
    /\ lin' = [k \in 1..n |-> got[IndexOf(order, k)]]
    /\ phase' = "unshuffled"
    /\ UNCHANGED <<cfg, n, settings, order, labels, nsub, finished, calls, got, out, hist>>

Nested == LET locs == AllLocs
          IN  [k \in 1..Len(locs) |->
                 LET i == IndexOf(settings, locs[k]) IN IF i = 0 THEN Missing ELSE lin[i]]

(* DataFrame rows: zip(info["settings"], results_linear) - combo_runner.py:545 *)
Rows == [k \in 1..n |-> <<settings[labels[k]], lin[k]>>]

Place ==
    /\ phase = "unshuffled"
    /\ out' = CASE cfg.kind \in {"nested", "ds"} -> Nested
                [] cfg.kind = "flat" -> lin
                [] cfg.kind = "df" -> Rows
    /\ phase' = "done"
    /\ UNCHANGED <<cfg, n, settings, order, labels, nsub, finished, calls, got, lin, hist>>

CompleteAny == \E id \in 1..n : Complete(id)

Next == \/ Reject \/ Enumerate \/ Shuffle \/ Submit \/ CompleteAny
        \/ Collect \/ RunSeq \/ Collected \/ Unshuffle \/ Place
        \* terminal states ("done", "rejected") have no successor: configurations run with CHECK_DEADLOCK FALSE

Spec == Init /\ [][Next]_vars

-----------------------------------------------------------------------------
(* Properties *)

Requested == {settings[i] : i \in 1..Len(settings)}

(* C01/C02: every requested setting is evaluated exactly once, nothing else ever *)
ExactlyOnce == phase = "done" => (n = N /\ settings = Enumeration /\ IsPermOf(calls, 1..n))
OnlyRequestedOnce ==
    [][calls' # calls => \E id \in (1..n) \ Range(calls) : calls' = Append(calls, id)]_vars

(* C01/C02: each value sits in its own slot, every other slot is missing, whatever the strategy *)
Placement ==
    (phase = "done" /\ cfg.kind \in {"nested", "ds"}) =>
        LET locs == AllLocs
            enum == Enumeration
        IN  /\ Len(out) = Len(locs)
            /\ \A k \in 1..Len(locs) : out[k] = IndexOf(enum, locs[k])    \* 0 = Missing when not requested
FlatOrder == (phase = "done" /\ cfg.kind = "flat") => out = Iota(n)

(* C02: overlap of case and grid arguments is rejected before anything runs *)
RejectBeforeRun == ((cfg.overlap \/ cfg.dup) => calls = <<>> /\ phase \in {"start", "rejected"})

(* C02/C03: the axis of a case argument is the sorted union of its values *)
UnionAxes ==
    \A j \in 1..cfg.nca :
        /\ Range(CaseAxes[j]) = {cfg.cases[c][j] : c \in 1..Len(cfg.cases)}
        /\ \A a, b \in 1..Len(CaseAxes[j]) : a < b => CaseAxes[j][a] < CaseAxes[j][b]

(* C03 (also C06, C15): a row pairs a setting's arguments with that same setting's result *)
RowPairing ==
    (phase = "done" /\ cfg.kind = "df") =>
        LET enum == Enumeration
        IN  /\ Len(out) = n
            /\ \A k \in 1..n : out[k][2] = IndexOf(enum, out[k][1]) /\ out[k][2] # 0
            /\ {out[k][1] : k \in 1..n} = Range(enum)

TypeOK == phase \in {"start", "enumerated", "run", "collected", "unshuffled", "done", "rejected"}

-----------------------------------------------------------------------------
(* What is recorded in a labelled output besides the values (combo_runner.py:513-530, 545-559):
   constants become a coordinate when they name a dimension, else an attribute;
   resources are never recorded; attrs are kept. *)
DsAttrs  == (IF cfg.meta.cattr THEN {"kattr"} ELSE {}) \cup (IF cfg.meta.attrs THEN {"note"} ELSE {})
            \cup (IF cfg.meta.cdim /\ ~cfg.meta.tdim THEN {"t"} ELSE {})
DsCoords == (IF cfg.meta.tdim THEN {"t"} ELSE {})     \* from the constant, or from var_coords
DfCols   == (IF cfg.meta.cattr THEN {"kattr"} ELSE {}) \cup (IF cfg.meta.attrs THEN {"note"} ELSE {})
            \cup (IF cfg.meta.cdim THEN {"t"} ELSE {})

Terminal == phase \in {"done", "rejected"}

EmitCase ==
    Terminal =>
        PrintT(<<"CASE", ToJson([cfg |-> cfg, n |-> n,
                                 settings |-> settings, order |-> order, hist |-> hist,
                                 calls |-> calls, axes |-> IF cfg.overlap \/ cfg.dup THEN <<>> ELSE Axes,
                                 out |-> out, outcome |-> phase,
                                 attrs |-> DsAttrs, coords |-> DsCoords, cols |-> DfCols])>>)
=============================================================================
