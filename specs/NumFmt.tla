------------------------------ MODULE NumFmt ------------------------------
(***************************************************************************)
(* Property C20.  xyzpy.utils.format_number_with_error(x, err) as a small  *)
(* machine over exact decimals, one action per step of the function:       *)
(*                                                                         *)
(*   ChooseExponent  x_exponent = max(exp10(x), exp10(err) + 1)            *)
(*   DecideHide      hide the exponent iff x_exponent in {0,-1}, or        *)
(*                   x_exponent = 1 and err < |x|/10                       *)
(*   Scale           divide both by 10^x_exponent unless hidden            *)
(*   RoundErr        f"{err:.1e}": two significant digits, with the carry  *)
(*                   9.95.. -> 1.0e(+1)                                    *)
(*   Digits          number of decimals printed for x                      *)
(*   Emit            round x to that many decimals                         *)
(*                                                                         *)
(* Numbers are exact decimals                                              *)
(*      x   = sx * mx * 10^(ex-3)   (mx in 1000..9999, or mx = 0)          *)
(*      err =      me * 10^(ee-2)   (me in 100..999)                       *)
(* so ex, ee are the exponents Python's "%e" reports.  TLC integers are    *)
(* 32 bit, therefore every quantity is kept as digits and a decimal        *)
(* exponent, never multiplied out.                                         *)
(*                                                                         *)
(* The property (Denotation) says: what the emitted string denotes under   *)
(* the usual convention - value = shown digits * 10^shown exponent, error  *)
(* = bracket digits * (place of the last shown digit) - is err rounded to  *)
(* two significant figures and x rounded to the same last place.           *)
(***************************************************************************)
EXTENDS Integers, Sequences, TLC, Json

CONSTANTS MXs,        \* mantissas of x to explore (0 allowed)
          MEs,        \* mantissas of err
          EXs,        \* exponents of x
          Rels,       \* ex - ee
          DigitsRule  \* "max0" (code as repaired) or "abs" (pinned code, defect F13)

VARIABLES inp, pc, xexp, hide, X, m2, e2, nd, xd, xs, tieE, tieX

vars == <<inp, pc, xexp, hide, X, m2, e2, nd, xd, xs, tieE, tieX>>

Pow10(n) == CASE n = 0 -> 1 [] n = 1 -> 10 [] n = 2 -> 100 [] n = 3 -> 1000 [] n = 4 -> 10000
              [] n = 5 -> 100000 [] OTHER -> 1000000
Max(a, b) == IF a >= b THEN a ELSE b
Abs(a) == IF a < 0 THEN -a ELSE a

(* round the digit string d (an integer < 10^5) at s decimal places to the right:
   returns <<rounded, tie>>; for s > 5 the result is 0 and never a tie for d < 10^5 *)
RoundShift(d, s) ==
    IF s <= 0 THEN <<d, FALSE>>
    ELSE IF s > 5 THEN <<0, FALSE>>
    ELSE LET p == Pow10(s)
             q == d \div p
             r == d % p
         IN  IF 2 * r > p THEN <<q + 1, FALSE>>
             ELSE IF 2 * r = p THEN <<q, TRUE>>      \* exact half: either neighbour acceptable
             ELSE <<q, FALSE>>

Inputs == { [sx |-> s, mx |-> m, ex |-> e, me |-> f, ee |-> e - r] :
              s \in {1, -1}, m \in MXs, e \in EXs, f \in MEs, r \in Rels }

Init == /\ inp \in { i \in Inputs : ~(i.mx = 0 /\ i.sx = -1) }
        /\ pc = "choose"
        /\ xexp = 0 /\ hide = FALSE /\ X = 0 /\ m2 = 0 /\ e2 = 0 /\ nd = 0
        /\ xd = 0 /\ xs = 0 /\ tieE = FALSE /\ tieX = FALSE

(* "%e" of 0.0 reports exponent 0 *)
ExpX == IF inp.mx = 0 THEN 0 ELSE inp.ex

ChooseExponent ==
    /\ pc = "choose"
    /\ xexp' = Max(ExpX, inp.ee + 1)
    /\ pc' = "hide"
    /\ UNCHANGED <<inp, hide, X, m2, e2, nd, xd, xs, tieE, tieX>>

(* err < |x| / 10  <=>  me * 10^(ee-2) < mx * 10^(ex-4);  decided on exponents and digits *)
ErrLtTenth ==
    IF inp.mx = 0 THEN FALSE
    ELSE LET a == inp.ee - 2      \* err  = me * 10^a
             b == inp.ex - 4      \* x/10 = mx * 10^b
         IN  IF a - b >= 2 THEN FALSE          \* me*10^(a-b) >= 100*100 > mx
             ELSE IF a - b = 1 THEN inp.me * 10 < inp.mx
             ELSE IF a - b = 0 THEN inp.me < inp.mx
             ELSE TRUE                         \* me < 1000 <= mx*10^(b-a)

DecideHide ==
    /\ pc = "hide"
    /\ hide' = ((xexp \in {0, -1}) \/ (xexp = 1 /\ ErrLtTenth))
    /\ pc' = "scale"
    /\ UNCHANGED <<inp, xexp, X, m2, e2, nd, xd, xs, tieE, tieX>>

Scale ==
    /\ pc = "scale"
    /\ X' = IF hide THEN 0 ELSE xexp
    /\ pc' = "round"
    /\ UNCHANGED <<inp, xexp, hide, m2, e2, nd, xd, xs, tieE, tieX>>

(* err / 10^X = me * 10^(ee - 2 - X);  "%.1e" keeps two digits *)
RoundErr ==
    /\ pc = "round"
    /\ LET r == RoundShift(inp.me, 1)
       IN  /\ tieE' = r[2]
           /\ IF r[1] = 100
                 THEN m2' = 10 /\ e2' = inp.ee - X + 1
                 ELSE m2' = r[1] /\ e2' = inp.ee - X
    /\ pc' = "digits"
    /\ UNCHANGED <<inp, xexp, hide, X, nd, xd, xs, tieX>>

Digits ==
    /\ pc = "digits"
    /\ nd' = IF DigitsRule = "abs" THEN Abs(e2) + 1 ELSE Max(0, 1 - e2)
    /\ pc' = "emit"
    /\ UNCHANGED <<inp, xexp, hide, X, m2, e2, xd, xs, tieE, tieX>>

(* x / 10^X = mx * 10^(ex - 3 - X) printed with nd decimals:
   shown integer (in units of 10^-nd) = mx * 10^(ex-3-X+nd), rounded when the exponent is negative *)
Emit ==
    /\ pc = "emit"
    /\ LET k == inp.ex - 3 - X + nd
       IN  IF inp.mx = 0 THEN xd' = 0 /\ xs' = 0 /\ tieX' = FALSE
           ELSE IF k >= 0 THEN xd' = inp.mx /\ xs' = k /\ tieX' = FALSE
           ELSE LET r == RoundShift(inp.mx, -k) IN xd' = r[1] /\ xs' = 0 /\ tieX' = r[2]
    /\ pc' = "done"
    /\ UNCHANGED <<inp, xexp, hide, X, m2, e2, nd, tieE>>

Next == ChooseExponent \/ DecideHide \/ Scale \/ RoundErr \/ Digits \/ Emit
        \/ (pc = "done" /\ UNCHANGED vars)

Spec == Init /\ [][Next]_vars

-----------------------------------------------------------------------------
(* What the emitted string denotes: place of the last shown digit, bracket error, value. *)
ShownPlace == X - nd                       \* last shown digit is 10^ShownPlace
DenotedErr == <<m2, ShownPlace>>           \* m2 * 10^ShownPlace
DenotedVal == <<inp.sx * xd, xs + ShownPlace>>

(* The oracle, computed from the input alone. *)
OracleErr ==
    LET r == RoundShift(inp.me, 1)
    IN  IF r[1] = 100 THEN <<10, inp.ee>> ELSE <<r[1], inp.ee - 1>>
OracleVal ==
    LET p == OracleErr[2]
        k == inp.ex - 3 - p
    IN  IF inp.mx = 0 THEN <<0, p>>
        ELSE IF k >= 0 THEN <<inp.sx * inp.mx, k + p>>
        ELSE <<inp.sx * RoundShift(inp.mx, -k)[1], p>>

Tie == tieE \/ tieX

(* INVARIANT C20 *)
Denotation ==
    (pc = "done" /\ ~Tie) =>
        /\ DenotedErr = OracleErr
        /\ DenotedVal = OracleVal

TypeOK == pc \in {"choose", "hide", "scale", "round", "digits", "emit", "done"}

(* emission of every explored input together with the oracle's answer, for the replay
   into the real function (vx/props/C20.py) *)
EmitCase ==
    pc = "done" =>
        PrintT(<<"CASE", ToJson([sx |-> inp.sx, mx |-> inp.mx, ex |-> inp.ex, me |-> inp.me, ee |-> inp.ee,
                                 tie |-> Tie, hide |-> hide, xexp |-> xexp,
                                 e2 |-> OracleErr[1], p |-> OracleErr[2],
                                 vd |-> OracleVal[1], vp |-> OracleVal[2]])>>)
=============================================================================
