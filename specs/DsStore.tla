------------------------------ MODULE DsStore ------------------------------
(***************************************************************************)
(* Property C14.  One logical dataset name on disk:                        *)
(*   xyzpy.manage.auto_add_extension / save_ds / load_ds / save_merge_ds   *)
(*   and Harvester.load_full_ds / save_full_ds / add_ds / delete_ds        *)
(*   (xyzpy/gen/farming.py).                                               *)
(*                                                                         *)
(* Part 1 (Spec): the file-naming state machine.  The directory is a set   *)
(* of file names, a file holds a set of "pieces" (uninterpreted: piece p   *)
(* is whatever the p-th writing operation of the history contributed) and  *)
(* remembers the engine that wrote it.  Every place where the code turns   *)
(* the logical name into a file name is a named SITE:                      *)
(*     save        save_ds            : file written                       *)
(*     load        load_ds            : file opened                        *)
(*     loadNewTest load_ds(create_new): os.path.exists(...) deciding        *)
(*                                      between "blank dataset" and load    *)
(*     mergeTest   save_merge_ds      : os.path.exists(...)                *)
(*     mergeLoad   save_merge_ds      : load_ds(...) of the old content    *)
(*     harvTest    load_full_ds       : os.access(..., W_OK)               *)
(*     harvLoad    load_full_ds       : load_ds(...)                       *)
(*     harvRemove  save_full_ds       : os.path.exists / os.remove         *)
(*     harvSave    save_full_ds       : file (re)written                   *)
(*     delete      delete_ds          : os.remove                          *)
(* The property says there is ONE rule, FileOf, used at every site, with   *)
(* the engine the caller gave.  RawSites / DefEngSites name the sites of   *)
(* a deviating implementation (name used as given / default engine used);  *)
(* both are {} for the property, and                                       *)
(*   RawSites = {mergeTest, harvTest, harvRemove}, DefEngSites = {mergeLoad} *)
(* is the code as pinned (defect F6), which TLC must reject.               *)
(*                                                                         *)
(* Part 2 (RtInit/RtNext): the configurations for which the axiom          *)
(* Load(Save(d)) = d is tested on the real engines, with the documented    *)
(* rewriting of None/True/False attributes, and lazy = eager.              *)
(***************************************************************************)
EXTENDS Integers, Sequences, FiniteSets, TLC, Json

CONSTANTS NameExt,      \* "" | ".h5" | ".dmp" : the extension the logical name already carries;
                        \* ".5" : the name is 'data_T0.5' - a dot, but no engine extension - and a sibling
                        \* 'data_T0.25' lives in the same directory (ops SaveSib / LoadSib)
                        \* "[1]" : 'data[1]' with the sibling 'data1';  "[T=0.5]" : 'sweep[T=0.5]' with 'sweepT';
                        \* "*b" : 'a*b' with 'axb';  "?b" : 'a?b' with 'axb'  - names containing glob
                        \* metacharacters are literal names (the sibling is a name the pattern would match)
          GlobSites,    \* sites that treat a name with glob metacharacters as a PATTERN (deviation)
          NameRule,     \* "append" (the property) | "splitext" (an unknown suffix is REPLACED by the extension)
          Engine,       \* "h5netcdf" | "joblib" : the engine given with every call
          CtorEngine,   \* the engine the Harvester object was constructed with (may differ from Engine: the calls
                        \* add_ds / load_full_ds / save_full_ds then carry engine=Engine explicitly)
          CtorEngSites, \* sites using the constructor's engine instead of the one given with the call
          Decoy,        \* "none" | "dir" | "file" : an unrelated entry called EXACTLY like the (extension-less) logical
                        \* name sits in the directory from the start - a folder, or an older dataset file (holding
                        \* piece 99, readable with Engine).  The rule never names it, so nothing may read or touch it.
          BareIfExistsSites, \* sites using the name as given WHEN an entry of that name exists (deviation)
          MaxLen,       \* length of the histories
          Policies,     \* subset of {"none", "true", "false"} : overwrite=None/True/False
          OpsOn,        \* subset of {"Save","Load","LoadNew","SaveMerge","HarvSame","HarvFresh","Delete"}
          RawSites,     \* sites using the name as given
          DefEngSites,  \* sites using the default engine ("h5netcdf") instead of the given one
          RmRule,       \* part 3: "ok" | "wholeKeepsInt" | "dropOnEagerLoadOnly"
          RtRule        \* "ok" | "rewriteAlways" | "rewriteNever" | "rewriteByEquality" | "lazyStale"   (part 2)

VARIABLES dir,      \* set of file names present
          content,  \* file -> set of pieces
          fmt,      \* file -> engine that wrote it ("none" when absent)
          mem,      \* the Harvester object's in-memory dataset: <<>> (None) or <<set of pieces>>
          sess,     \* a Harvester object of an earlier step is still around
          live,     \* PROPERTY LEVEL: the logical dataset exists
          want,     \* PROPERTY LEVEL: what it holds (last saved / merged content)
          last,     \* observable outcome of the last operation
          hist,     \* the history, for emission
          rt,       \* part 2
          sibLive,  \* PROPERTY LEVEL: the sibling dataset exists
          sibWant   \* PROPERTY LEVEL: what it holds

sibv == <<sibLive, sibWant>>
vars == <<dir, content, fmt, mem, sess, live, want, last, hist, rt, sibLive, sibWant>>

Sites == {"save", "load", "loadNewTest", "mergeTest", "mergeLoad", "harvTest", "harvLoad", "harvRemove", "harvSave", "delete"}
Ext(e) == IF e = "h5netcdf" THEN ".h5" ELSE ".dmp"
Root == CASE NameExt = ".5" -> "data_T0" [] NameExt = "[T=0.5]" -> "sweep" [] NameExt \in {"*b", "?b"} -> "a" [] OTHER -> "data"
Name == Root \o NameExt
SibExt == CASE NameExt = "[1]" -> "1" [] NameExt = "[T=0.5]" -> "T" [] NameExt \in {"*b", "?b"} -> "xb" [] OTHER -> ".25"
SibName == Root \o SibExt
HasMagic == NameExt \in {"[1]", "[T=0.5]", "*b", "?b"}
KnownExt(x) == x \in {".h5", ".dmp"}

(* THE naming rule: the name as given when it carries an engine extension, else the name with the
   engine's extension APPENDED (whatever other dots the name contains) *)
RuleFile(root, x, e) == IF KnownExt(x) THEN root \o x ELSE root \o x \o Ext(e)
FileOf(e) == RuleFile(Root, NameExt, e)
SibFileOf(e) == RuleFile(Root, SibExt, e)

(* what the implementation computes *)
CodeFile(root, x, e) == IF NameRule = "splitext" /\ x # "" /\ ~KnownExt(x) THEN root \o Ext(e) ELSE RuleFile(root, x, e)
EngAt(site) == IF site \in DefEngSites THEN "h5netcdf" ELSE IF site \in CtorEngSites THEN CtorEngine ELSE Engine
FileAt(site) == IF site \in RawSites \/ (site \in BareIfExistsSites /\ Name \in dir) THEN Name
                ELSE CodeFile(Root, NameExt, EngAt(site))
SibFileAt(site) == IF site \in RawSites THEN SibName ELSE CodeFile(Root, SibExt, EngAt(site))

AllFiles == { n \o x : n \in {"data", "data.h5", "data.dmp", "data_T0", "data_T0.5", "data_T0.25", Root, Name, SibName},
                       x \in {"", ".h5", ".dmp"} }

Read(file, eng) ==
    IF file \notin dir THEN [st |-> "nofile", val |-> {}]
    ELSE IF fmt[file] # eng THEN [st |-> "badformat", val |-> {}]
    ELSE [st |-> "ok", val |-> content[file]]

(* a site that expands the name as a glob pattern: the literal file of a bracket name does not match its own
   pattern, the sibling's file does; nothing matching gives an empty dataset *)
ReadAt(site, eng) ==
    IF site \in GlobSites /\ HasMagic
       THEN [st |-> "ok", val |-> IF SibFileAt(site) \in dir THEN content[SibFileAt(site)] ELSE {}]
       ELSE Read(FileAt(site), eng)

NoRt == [pc |-> "off"]
Outcome(op, st, val, old, wold) == [op |-> op, st |-> st, val |-> val, old |-> old, wold |-> wold]

Log(op, pol, st, d, c) ==
    Append(hist, [op |-> op, pol |-> pol, p |-> Len(hist) + 1, st |-> st,
                  dir |-> d, disk |-> [f \in d |-> c[f]]])

P == Len(hist) + 1          \* the piece contributed by this step
WantOld == IF live THEN want ELSE {}

-----------------------------------------------------------------------------
DecoyPiece == 99
DecoyFiles == IF Decoy = "none" THEN {} ELSE {Name}
Init ==
    /\ Decoy # "none" => ~KnownExt(NameExt)          \* the decoy is never a file the rule names
    /\ dir = DecoyFiles
    /\ content = [f \in AllFiles |-> IF f \in DecoyFiles /\ Decoy = "file" THEN {DecoyPiece} ELSE {}]
    /\ fmt = [f \in AllFiles |-> IF f \in DecoyFiles THEN (IF Decoy = "file" THEN Engine ELSE "dir") ELSE "none"]
    /\ mem = <<>> /\ sess = FALSE
    /\ live = FALSE /\ want = {}
    /\ last = Outcome("none", "ok", {}, {}, {})
    /\ hist = <<>>
    /\ rt = NoRt
    /\ sibLive = FALSE /\ sibWant = {}

(* save_ds(ds, name, engine) *)
Save ==
    /\ "Save" \in OpsOn
    /\ Len(hist) < MaxLen
    /\ LET f == FileAt("save")
           c == [content EXCEPT ![f] = {P}]
       IN  /\ dir' = dir \cup {f}
           /\ content' = c
           /\ fmt' = [fmt EXCEPT ![f] = Engine]
           /\ hist' = Log("Save", "none", "ok", dir \cup {f}, c)
    /\ live' = TRUE /\ want' = {P}
    /\ last' = Outcome("Save", "ok", {}, {}, {})
    /\ UNCHANGED <<mem, sess, rt>>
    /\ UNCHANGED sibv

(* the chunks argument of a load alternates with the step number (lazy loading is value-equal) *)
ChunksAt(n) == IF n % 2 = 0 THEN "int" ELSE "none"

(* load_ds(name, engine) *)
Load ==
    /\ "Load" \in OpsOn
    /\ Len(hist) < MaxLen
    /\ LET r == ReadAt("load", Engine)
       IN  /\ last' = Outcome("Load", r.st, r.val, {}, {})
           /\ hist' = Append(hist, [op |-> "Load", pol |-> "none", p |-> 0, st |-> r.st,
                                    ch |-> IF Decoy = "none" THEN "none" ELSE ChunksAt(P),
                                    dir |-> dir, disk |-> [f \in dir |-> content[f]], val |-> r.val])
    /\ UNCHANGED <<dir, content, fmt, mem, sess, live, want, rt>>
    /\ UNCHANGED sibv

(* load_ds(name, engine, create_new=True, chunks=..): the stored content when the file the rule
   names exists, a blank dataset otherwise; never creates a file.  Lazy loading (chunks) is
   value-equal to loading into memory, so the chunks argument does not change the outcome; it
   alternates with the step number so that both spellings occur in the emitted histories. *)
LoadNew ==
    /\ "LoadNew" \in OpsOn
    /\ Len(hist) < MaxLen
    /\ LET r == IF FileAt("loadNewTest") \in dir THEN Read(FileAt("load"), Engine)
                                                ELSE [st |-> "blank", val |-> {}]
       IN  /\ last' = Outcome("LoadNew", r.st, r.val, {}, {})
           /\ hist' = Append(hist, [op |-> "LoadNew", pol |-> "none", p |-> 0, st |-> r.st, ch |-> ChunksAt(P),
                                    dir |-> dir, disk |-> [f \in dir |-> content[f]], val |-> r.val])
    /\ UNCHANGED <<dir, content, fmt, mem, sess, live, want, rt>>
    /\ UNCHANGED sibv

(* save_merge_ds(ds, name, overwrite=pol, engine=engine):
   exists? -> load old -> merge -> save_ds *)
SaveMerge(pol) ==
    /\ "SaveMerge" \in OpsOn
    /\ Len(hist) < MaxLen
    /\ LET seen == FileAt("mergeTest") \in dir
           r == IF seen THEN Read(FileAt("mergeLoad"), EngAt("mergeLoad")) ELSE [st |-> "ok", val |-> {}]
       IN  IF r.st # "ok"
              THEN /\ last' = Outcome("SaveMerge", r.st, {}, {}, WantOld)
                   /\ hist' = Log("SaveMerge", pol, r.st, dir, content)
                   /\ UNCHANGED <<dir, content, fmt, live, want>>
              ELSE LET f == FileAt("save")
                       new == r.val \cup {P}
                       c == [content EXCEPT ![f] = new]
                   IN  /\ dir' = dir \cup {f}
                       /\ content' = c
                       /\ fmt' = [fmt EXCEPT ![f] = Engine]
                       /\ live' = TRUE /\ want' = WantOld \cup {P}
                       /\ last' = Outcome("SaveMerge", "ok", {}, r.val, WantOld)
                       /\ hist' = Log("SaveMerge", pol, "ok", dir \cup {f}, c)
    /\ UNCHANGED <<mem, sess, rt>>
    /\ UNCHANGED sibv

(* Harvester(runner, name, CtorEngine).add_ds(new, overwrite=pol, engine=Engine)  [sync=True]:
   load_full_ds (test, load) -> merge with memory -> save_full_ds (remove, save_ds).
   fresh: a new Harvester object (a new session); otherwise the object of the earlier step. *)
HarvSync(pol, fresh) ==
    /\ (IF fresh THEN "HarvFresh" ELSE "HarvSame") \in OpsOn
    /\ Len(hist) < MaxLen
    /\ fresh \/ sess
    /\ LET opn == IF fresh THEN "HarvFresh" ELSE "HarvSame"
           m0 == IF fresh THEN <<>> ELSE mem
           seen == FileAt("harvTest") \in dir
           r == IF seen THEN Read(FileAt("harvLoad"), Engine) ELSE [st |-> "ok", val |-> {}]
       IN  IF r.st # "ok"
              THEN /\ last' = Outcome(opn, r.st, {}, {}, WantOld)
                   /\ hist' = Log(opn, pol, r.st, dir, content)
                   /\ UNCHANGED <<dir, content, fmt, live, want, mem, sess>>
              ELSE LET m1 == IF seen THEN <<r.val>> ELSE m0
                       old == IF m1 = <<>> THEN {} ELSE m1[1]
                       new == old \cup {P}
                       rm == FileAt("harvRemove")
                       f == FileAt("harvSave")
                       d1 == (dir \ {rm}) \cup {f}
                       c == [[content EXCEPT ![rm] = {}] EXCEPT ![f] = new]
                   IN  /\ dir' = d1
                       /\ content' = c
                       /\ fmt' = [[fmt EXCEPT ![rm] = "none"] EXCEPT ![f] = Engine]
                       /\ mem' = <<new>> /\ sess' = TRUE
                       /\ live' = TRUE /\ want' = WantOld \cup {P}
                       /\ last' = Outcome(opn, "ok", {}, old, WantOld)
                       /\ hist' = Log(opn, pol, "ok", d1, c)
    /\ UNCHANGED rt
    /\ UNCHANGED sibv

(* Harvester(runner, name, Engine).delete_ds() - delete_ds takes no engine of its own, so the object
   deleting is one constructed with the engine of the calls; the object is dropped afterwards *)
Delete ==
    /\ "Delete" \in OpsOn
    /\ Len(hist) < MaxLen
    /\ live                       \* only an existing dataset is deleted
    /\ LET f == FileAt("delete")
       IN  IF f \notin dir
              THEN /\ last' = Outcome("Delete", "nofile", {}, {}, {})
                   /\ hist' = Log("Delete", "none", "nofile", dir, content)
                   /\ UNCHANGED <<dir, content, fmt, live, want, mem, sess>>
              ELSE /\ dir' = dir \ {f}
                   /\ content' = [content EXCEPT ![f] = {}]
                   /\ fmt' = [fmt EXCEPT ![f] = "none"]
                   /\ live' = FALSE /\ want' = {}
                   /\ mem' = <<>> /\ sess' = FALSE
                   /\ last' = Outcome("Delete", "ok", {}, {}, {})
                   /\ hist' = Log("Delete", "none", "ok", dir \ {f}, [content EXCEPT ![f] = {}])
    /\ UNCHANGED rt
    /\ UNCHANGED sibv

(* the sibling name in the same directory: save_ds / load_ds only *)
SaveSib ==
    /\ "SaveSib" \in OpsOn
    /\ Len(hist) < MaxLen
    /\ LET f == SibFileAt("save")
           c == [content EXCEPT ![f] = {P}]
       IN  /\ dir' = dir \cup {f}
           /\ content' = c
           /\ fmt' = [fmt EXCEPT ![f] = Engine]
           /\ hist' = Log("SaveSib", "none", "ok", dir \cup {f}, c)
    /\ sibLive' = TRUE /\ sibWant' = {P}
    /\ last' = Outcome("SaveSib", "ok", {}, {}, {})
    /\ UNCHANGED <<mem, sess, live, want, rt>>

LoadSib ==
    /\ "LoadSib" \in OpsOn
    /\ Len(hist) < MaxLen
    /\ LET r == Read(SibFileAt("load"), Engine)
       IN  /\ last' = Outcome("LoadSib", r.st, r.val, {}, {})
           /\ hist' = Append(hist, [op |-> "LoadSib", pol |-> "none", p |-> 0, st |-> r.st,
                                    dir |-> dir, disk |-> [f \in dir |-> content[f]], val |-> r.val])
    /\ UNCHANGED <<dir, content, fmt, mem, sess, live, want, rt, sibLive, sibWant>>

SaveMergeAny == \E pol \in Policies : SaveMerge(pol)
HarvFresh == \E pol \in Policies : HarvSync(pol, TRUE)
HarvSame == \E pol \in Policies : HarvSync(pol, FALSE)
Finished == Len(hist) = MaxLen /\ UNCHANGED vars

Next == Save \/ Load \/ LoadNew \/ SaveSib \/ LoadSib \/ Delete \/ SaveMergeAny \/ HarvFresh \/ HarvSame \/ Finished

Spec == Init /\ [][Next]_vars

-----------------------------------------------------------------------------
(* INVARIANTS C14, naming part *)

TypeOK == dir \subseteq AllFiles /\ Len(hist) <= MaxLen

(* the directory holds exactly the one file the rule names, or nothing *)
DirExact == dir = (IF live THEN {FileOf(Engine)} ELSE {}) \cup (IF sibLive THEN {SibFileOf(Engine)} ELSE {}) \cup DecoyFiles

(* an unrelated entry that merely has the bare name is never read, rewritten or removed *)
DecoyUntouched == \A f \in DecoyFiles :
    /\ f \in dir
    /\ content[f] = (IF Decoy = "file" THEN {DecoyPiece} ELSE {})
    /\ fmt[f] = (IF Decoy = "file" THEN Engine ELSE "dir")
DecoyNeverLoaded == DecoyPiece \notin last.val

(* ... and that file holds the last saved / merged content, in the caller's engine *)
DiskIsWant == /\ live => (content[FileOf(Engine)] = want /\ fmt[FileOf(Engine)] = Engine)
              /\ sibLive => (content[SibFileOf(Engine)] = sibWant /\ fmt[SibFileOf(Engine)] = Engine)

(* each name loads its own content *)
LoadSibReturnsLast == last.op = "LoadSib" =>
    IF sibLive THEN last.st = "ok" /\ last.val = sibWant ELSE last.st = "nofile"

(* Load returns the last saved / merged content *)
LoadReturnsLast == last.op = "Load" =>
    IF live THEN last.st = "ok" /\ last.val = want ELSE last.st = "nofile"

(* load with create_new: the stored content whenever the dataset exists, blank only when it does not *)
LoadNewReturnsLast == last.op = "LoadNew" =>
    IF live THEN last.st = "ok" /\ last.val = want ELSE last.st = "blank"

(* a merge always sees the previously saved content, never "file absent", and never fails to read it *)
MergeSeesPrevious == last.op \in {"SaveMerge", "HarvFresh", "HarvSame"} =>
    last.st = "ok" /\ last.old = last.wold

(* delete removes what save wrote *)
DeleteWorks == last.op = "Delete" => last.st = "ok"

(* the harvester's memory is the disk after every synced step *)
MemIsDisk == (sess /\ last.op \in {"HarvFresh", "HarvSame"} /\ last.st = "ok") => mem = <<want>>

EmitCase ==
    Len(hist) = MaxLen =>
        PrintT(<<"CASE", ToJson([ext |-> NameExt, engine |-> Engine, ctor |-> CtorEngine, decoy |-> Decoy, file |-> FileOf(Engine), name |-> Name, sib |-> SibName,
                                 hist |-> hist])>>)

-----------------------------------------------------------------------------
(* Part 2: configurations of the round trip  Load(Save(d)) = d *)

DTypes == {"int", "float", "complex", "bool", "str"}
NanPats(dt) == IF dt \in {"float", "complex"} THEN {"none", "some", "all"} ELSE {"none"}
AttrKeys == {"n", "t", "f", "i", "x", "s", "l"}
AttrsOf(sel) ==
    CASE sel = "all"   -> [k \in AttrKeys |-> CASE k = "n" -> "py:None" [] k = "t" -> "py:True" [] k = "f" -> "py:False"
                                                [] k = "i" -> "int:3" [] k = "x" -> "float:2.5" [] k = "s" -> "str:hello"
                                                [] k = "l" -> "seq:1,2,3"]
      [] sel = "flags" -> [k \in {"n", "t", "f"} |-> CASE k = "n" -> "py:None" [] k = "t" -> "py:True" [] k = "f" -> "py:False"]
      [] sel = "ones"  -> [k \in {"i1", "i0", "x1", "x0", "n1"} |->
                              CASE k = "i1" -> "int:1" [] k = "i0" -> "int:0" [] k = "x1" -> "float:1.0"
                                [] k = "x0" -> "float:0.0" [] k = "n1" -> "npint:1"]     \* numbers that EQUAL True / False
      [] sel = "json"  -> [k \in {"jo", "je", "ja", "jn", "ju", "jq"} |->     \* plain STRINGS that look like serialised values
                              CASE k = "jo" -> "text:obj" [] k = "je" -> "text:emptyobj" [] k = "ja" -> "text:arr"
                                [] k = "jn" -> "text:num" [] k = "ju" -> "text:null" [] k = "jq" -> "text:quoted"]
      [] sel = "words" -> [k \in {"n", "t", "f"} |-> CASE k = "n" -> "str:None" [] k = "t" -> "str:True" [] k = "f" -> "str:False"]
      [] OTHER         -> [k \in {} |-> "x"]

(* the documented rewriting: None/True/False become their names for the netCDF engines only *)
Word(a) == CASE a = "py:None" -> "str:None" [] a = "py:True" -> "str:True" [] a = "py:False" -> "str:False" [] OTHER -> a
Documented(e, attrs) == IF e \in {"joblib", "zarr"} THEN attrs ELSE [k \in DOMAIN attrs |-> Word(attrs[k])]

(* what save_ds does *)
Decoded(a) == CASE a = "text:obj" -> "dict:obj" [] a = "text:emptyobj" -> "dict:empty" [] OTHER -> a
WordEq(a) == CASE a \in {"int:1", "float:1.0", "npint:1"} -> "str:True" [] a \in {"int:0", "float:0.0"} -> "str:False"
                [] OTHER -> Word(a)
Stored(e, attrs) ==
    CASE RtRule = "decodeJsonText" -> IF e \notin {"joblib", "zarr"} THEN [k \in DOMAIN attrs |-> Decoded(Word(attrs[k]))] ELSE attrs
      [] RtRule = "rewriteByEquality" -> IF e \notin {"joblib", "zarr"} THEN [k \in DOMAIN attrs |-> WordEq(attrs[k])] ELSE attrs
      [] RtRule = "rewriteAlways" -> [k \in DOMAIN attrs |-> Word(attrs[k])]
      [] RtRule = "rewriteNever"  -> attrs
      [] OTHER -> IF e \notin {"joblib", "zarr"} THEN [k \in DOMAIN attrs |-> Word(attrs[k])] ELSE attrs

Configs == { [nd |-> nd, vdt |-> vdt, cdt |-> cdt, nan |-> nan, attrs |-> a, chunks |-> ch] :
               nd \in 0..4, vdt \in DTypes, cdt \in DTypes \cup {"-"}, nan \in {"none", "some", "all"},
               a \in {"no", "all", "flags", "words", "ones", "json"}, ch \in {"none", "int", "dict"} }
GoodConfig(c) == /\ (c.nd = 0) <=> (c.cdt = "-")
                 /\ c.nan \in NanPats(c.vdt)
                 /\ (c.nd = 0) => c.chunks # "dict"

RtInit ==
    /\ dir = {} /\ content = [f \in AllFiles |-> {}] /\ fmt = [f \in AllFiles |-> "none"]
    /\ mem = <<>> /\ sess = FALSE /\ live = FALSE /\ want = {}
    /\ last = Outcome("none", "ok", {}, {}, {}) /\ hist = <<>>
    /\ sibLive = FALSE /\ sibWant = {}
    /\ \E c \in Configs : GoodConfig(c) /\ rt = [pc |-> "save", cfg |-> c]

RtSave ==
    /\ rt.pc = "save"
    /\ dir' = dir \cup {FileAt("save")}
    /\ fmt' = [fmt EXCEPT ![FileAt("save")] = Engine]
    /\ rt' = [pc |-> "eager", cfg |-> rt.cfg, data |-> "D", attrs |-> Stored(Engine, AttrsOf(rt.cfg.attrs))]
    /\ live' = TRUE
    /\ UNCHANGED <<content, mem, sess, want, last, hist>>
    /\ UNCHANGED sibv

RtLoadEager ==
    /\ rt.pc = "eager"
    /\ FileAt("load") \in dir
    /\ rt' = [rt EXCEPT !.pc = "lazy"] @@ [edata |-> rt.data, eattrs |-> rt.attrs]
    /\ UNCHANGED <<dir, content, fmt, mem, sess, live, want, last, hist>>
    /\ UNCHANGED sibv

RtLoadLazy ==
    /\ rt.pc = "lazy"
    /\ rt' = [rt EXCEPT !.pc = "done"] @@
             [ldata |-> IF RtRule = "lazyStale" /\ rt.cfg.chunks # "none" THEN "other" ELSE rt.data]
    /\ UNCHANGED <<dir, content, fmt, mem, sess, live, want, last, hist>>
    /\ UNCHANGED sibv

RtNext == RtSave \/ RtLoadEager \/ RtLoadLazy \/ (rt.pc = "done" /\ UNCHANGED vars)

(* INVARIANTS C14, round-trip part *)
RtIdentity == rt.pc \in {"lazy", "done"} =>
    /\ rt.edata = "D"
    /\ rt.eattrs = Documented(Engine, AttrsOf(rt.cfg.attrs))
RtLazyIsEager == rt.pc = "done" => rt.ldata = rt.edata
RtDir == rt.pc \in {"eager", "lazy", "done"} => dir = {FileOf(Engine)}
RtNoDeadlock == rt.pc = "eager" => FileAt("load") \in dir

RtEmit ==
    rt.pc = "done" =>
        PrintT(<<"CASE", ToJson([ext |-> NameExt, engine |-> Engine, file |-> FileOf(Engine), name |-> Name, cfg |-> rt.cfg,
                                 attrs |-> AttrsOf(rt.cfg.attrs), expect |-> Documented(Engine, AttrsOf(rt.cfg.attrs))])>>)

-----------------------------------------------------------------------------
(* Part 3: load -> modify -> save -> load.  A dataset whose variable / coordinate was stored as INTEGERS is
   loaded (into memory, or lazily with chunks), extended in memory so that the variable / coordinate becomes
   float - with non-integral values ("frac") or with whole numbers plus NaN ("wholenan") - and saved again
   (save_ds, save_merge_ds, or a Harvester).  What is on disk afterwards must be what was handed to the save:
   the integer layout remembered from the first file ("enc") must not be applied to the float data. *)
RmConfigs == { [target |-> t, change |-> c, chunks |-> ch, saver |-> sv] :
                 t \in {"var", "coord"}, c \in {"frac", "wholenan"}, ch \in {"none", "int", "dict"},
                 sv \in {"save_ds", "save_merge_ds", "harvester"} }
RmGood(c) == /\ (c.target = "coord") => c.change = "frac"          \* a coordinate label cannot be NaN
             /\ (c.saver = "save_merge_ds") => c.chunks = "none"    \* it loads the old file itself, into memory

RmInit ==
    /\ dir = {} /\ content = [f \in AllFiles |-> {}] /\ fmt = [f \in AllFiles |-> "none"]
    /\ mem = <<>> /\ sess = FALSE /\ live = FALSE /\ want = {}
    /\ last = Outcome("none", "ok", {}, {}, {}) /\ hist = <<>>
    /\ sibLive = FALSE /\ sibWant = {}
    /\ \E c \in RmConfigs : RmGood(c) /\ rt = [pc |-> "save1", cfg |-> c, enc |-> "none", memvals |-> "ints", disk |-> "none"]

RmSave1 == /\ rt.pc = "save1"
           /\ rt' = [rt EXCEPT !.pc = "load1", !.disk = "ints-as-int"]
           /\ dir' = {FileOf(Engine)} /\ live' = TRUE
           /\ UNCHANGED <<content, fmt, mem, sess, want, last, hist, sibLive, sibWant>>
(* the loaded object remembers the stored dtype; an implementation may drop that memory when loading *)
RmLoad1 == /\ rt.pc = "load1"
           /\ rt' = [rt EXCEPT !.pc = "modify",
                                !.enc = IF RmRule = "dropOnEagerLoadOnly" /\ rt.cfg.chunks = "none" THEN "none" ELSE "int"]
           /\ UNCHANGED <<dir, content, fmt, mem, sess, live, want, last, hist, sibLive, sibWant>>
RmModify == /\ rt.pc = "modify"
            /\ rt' = [rt EXCEPT !.pc = "save2", !.memvals = rt.cfg.change]
            /\ UNCHANGED <<dir, content, fmt, mem, sess, live, want, last, hist, sibLive, sibWant>>
(* save: float data is written as float - the remembered integer layout is discarded *)
RmSave2 == /\ rt.pc = "save2"
           /\ LET keepint == /\ rt.enc = "int"
                              /\ \/ RmRule = "dropOnEagerLoadOnly"
                                 \/ (RmRule = "wholeKeepsInt" /\ rt.memvals = "wholenan")
              IN  rt' = [rt EXCEPT !.pc = "load2", !.disk = IF keepint THEN rt.memvals \o "-as-int" ELSE rt.memvals \o "-as-float"]
           /\ UNCHANGED <<dir, content, fmt, mem, sess, live, want, last, hist, sibLive, sibWant>>
RmLoad2 == /\ rt.pc = "load2"
           /\ rt' = [rt EXCEPT !.pc = "done"]
           /\ UNCHANGED <<dir, content, fmt, mem, sess, live, want, last, hist, sibLive, sibWant>>
RmNext == RmSave1 \/ RmLoad1 \/ RmModify \/ RmSave2 \/ RmLoad2 \/ (rt.pc = "done" /\ UNCHANGED vars)

(* INVARIANT: float values (fractions, NaN) survive only in a float layout *)
RmIdentity == rt.pc \in {"load2", "done"} => rt.disk = rt.cfg.change \o "-as-float"
RmDir == rt.pc \in {"load1", "modify", "save2", "load2", "done"} => dir = {FileOf(Engine)}
RmEmit == rt.pc = "done" =>
    PrintT(<<"CASE", ToJson([ext |-> NameExt, engine |-> Engine, file |-> FileOf(Engine), name |-> Name, rm |-> rt.cfg])>>)
=============================================================================
