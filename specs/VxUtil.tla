------------------------------- MODULE VxUtil -------------------------------
(* Small operators shared by the xyzpy specifications. *)
EXTENDS Integers, Sequences, FiniteSets, SequencesExt, FiniteSetsExt, Functions

(* Range, Min (of a set), Max (of a set) come from Functions / FiniteSetsExt *)
(* sequence of the elements of a finite set of integers in increasing order *)
SortedSeq(S) == SetToSortSeq(S, LAMBDA a, b : a < b)

(* row-major product of a sequence of axes (each a sequence): the order of
   itertools.product over the axes, last axis fastest *)
RECURSIVE ProdSeq(_)
ProdSeq(axes) ==
    IF axes = <<>> THEN << <<>> >>
    ELSE LET rest == ProdSeq(Tail(axes))
             hd   == Head(axes)
         IN  FlattenSeq([i \in 1..Len(hd) |-> [j \in 1..Len(rest) |-> <<hd[i]>> \o rest[j]]])

RECURSIVE ProdLen(_)
ProdLen(sizes) == IF sizes = <<>> THEN 1 ELSE Head(sizes) * ProdLen(Tail(sizes))

Iota(n) == [i \in 1..n |-> i]

(* position of x in sequence s (0 if absent) *)
IndexOf(s, x) == IF \E i \in 1..Len(s) : s[i] = x
                 THEN CHOOSE i \in 1..Len(s) : s[i] = x /\ \A j \in 1..(i-1) : s[j] # x
                 ELSE 0

IsPermOf(s, S) == Len(s) = Cardinality(S) /\ Range(s) = S

CeilDiv(a, b) == (a + b - 1) \div b
Min2(a, b) == IF a <= b THEN a ELSE b
Max2(a, b) == IF a >= b THEN a ELSE b
=============================================================================
