------------------------------- MODULE Harvest -------------------------------
(***************************************************************************)
(* Properties C05 (Harvester) and C15 (Sampler): the accumulating stores   *)
(* of xyzpy/gen/farming.py, one action per public call.                    *)
(*                                                                         *)
(* Harvester machine (SpecH).  A dataset is a map from points (a, b, c) to *)
(* the version of the function that produced the value there (0 = null);   *)
(* c = 0 stands for "the dataset has no c dimension yet" (before           *)
(* expand_dims).  `disk` is the file, `mem` the Harvester object's         *)
(* _full_ds (NONE when the object has not loaded anything yet).            *)
(*                                                                         *)
(*   NewSession            a fresh Harvester object on the same data name  *)
(*   Harvest(P, v, pol, s) harvest_combos / harvest_cases / add_ds of the  *)
(*                         points P computed by function version v, with   *)
(*                         overwrite policy pol and sync s:                *)
(*                           load_full_ds (only if the file exists),       *)
(*                           merge by policy, save_full_ds (remove+save)   *)
(*   SaveMerge(P, v, pol)  bare xyzpy.save_merge_ds                        *)
(*   ExpandDims            expand_dims('c', 7), synced                     *)
(*   DropSel(a)            drop_sel(a=..), synced                          *)
(*   DeleteDs              delete_ds                                       *)
(*                                                                         *)
(* Sampler machine (SpecS): `table` / `tmem` are sequences of rows.        *)
(***************************************************************************)
EXTENDS VxUtil, TLC, Json

CONSTANTS AVals, BVals,     \* coordinate values of the two swept arguments
          Vers,             \* function versions (distinguish old from new data)
          MaxSteps,
          Record,
          Acts,             \* profile: subset of {"harvest","cases","savemerge","expand","drop","delete","session","unsynced"}
          Policies,         \* subset of {"none","true","false"}
          ReloadRule,       \* "disk" (code: a synced add reloads memory from the file) | "merge" (would keep un-synced points)
          NameRule          \* "same" (repaired) | "bare" (pinned F6: file looked for without its extension)

VARIABLES disk, exists, mem, loaded, hasC, outcome, hist, steps,
          table, tmem, tloaded, texists       \* sampler machine

(* `loaded` / `tloaded`: the object has data in memory (its _full_ds / _full_df is not None) *)

hvars == <<disk, exists, mem, loaded, hasC, outcome, hist, steps>>
svars == <<table, tmem, tloaded, texists>>
vars == <<hvars, svars>>

NONE == "none"
CVals == {0, 7, 8}
Points == AVals \X BVals \X CVals
Null == [p \in Points |-> 0]

Log(a, args, o) ==
    IF Record THEN Append(hist, [a |-> a, args |-> args, o |-> o]) ELSE hist
Step == steps < MaxSteps /\ steps' = steps + 1
On(x) == x \in Acts

-----------------------------------------------------------------------------
(* merge semantics, cell-wise (farming.py:559-574; manage.py:181-187) *)
Conflict(old, new) == \E p \in Points : old[p] # 0 /\ new[p] # 0 /\ old[p] # new[p]
Merge(old, new, pol) ==
    [p \in Points |->
        CASE pol = "true"  -> IF new[p] # 0 THEN new[p] ELSE old[p]     \* new.combine_first(old)
          [] pol = "false" -> IF old[p] # 0 THEN old[p] ELSE new[p]     \* old.combine_first(new)
          [] OTHER         -> IF new[p] # 0 THEN new[p] ELSE old[p]]    \* merge(no_conflicts), only without conflict

(* the points of a harvest carry the current c coordinate: 0 before expand_dims *)
NewData(P, v) == [p \in Points |-> IF p \in P THEN v ELSE 0]
CurrentC == IF hasC THEN {7, 8} ELSE {0}

(* what the Harvester sees as "the file": under the pinned naming rule an extension-less name is
   written with the extension but looked for without it, i.e. never found *)
Seen == IF NameRule = "bare" THEN FALSE ELSE exists

HInit == /\ disk = Null /\ exists = FALSE /\ mem = Null /\ loaded = FALSE /\ hasC = FALSE
         /\ outcome = "none" /\ hist = <<>> /\ steps = 0
         /\ table = <<>> /\ tmem = [h \in {1, 2} |-> <<>>] /\ tloaded = [h \in {1, 2} |-> FALSE] /\ texists = FALSE

NewSession ==
    /\ On("session") /\ Step
    /\ mem' = Null /\ loaded' = FALSE
    /\ outcome' = "ok"
    /\ hist' = Log("session", <<>>, [disk |-> disk, mem |-> NONE, exists |-> exists, outcome |-> "ok"])
    /\ UNCHANGED <<disk, exists, hasC, svars>>

(* add_ds - farming.py:516-579 *)
HarvestCore(P, v, pol, sync, name, args) ==
    LET new    == NewData(P, v)
        reload == sync /\ Seen                        \* load_full_ds replaces memory by the file's content
        isLd   == reload \/ loaded
        base   == IF reload THEN (IF ReloadRule = "merge" /\ loaded THEN Merge(disk, mem, "false") ELSE disk)
                  ELSE (IF loaded THEN mem ELSE Null)
        bad    == pol = "none" /\ isLd /\ Conflict(base, new)
        merged == Merge(base, new, pol)
    IN  IF bad
        THEN /\ outcome' = "conflict"
             /\ mem' = base /\ loaded' = isLd        \* memory was re-read from the file, nothing written
             /\ UNCHANGED <<disk, exists>>
             /\ hist' = Log(name, args, [disk |-> disk, mem |-> IF isLd THEN base ELSE NONE, exists |-> exists, outcome |-> "conflict"])
        ELSE /\ outcome' = "ok"
             /\ mem' = merged /\ loaded' = TRUE
             /\ IF sync THEN disk' = merged /\ exists' = TRUE ELSE UNCHANGED <<disk, exists>>
             /\ hist' = Log(name, args, [disk |-> IF sync THEN merged ELSE disk, mem |-> merged,
                                         exists |-> IF sync THEN TRUE ELSE exists, outcome |-> "ok"])

(* harvest_combos over the grid A x B (x current c) *)
HarvestCombos(A, B, c, v, pol, sync) ==
    /\ On("harvest") /\ Step /\ A # {} /\ B # {} /\ c \in CurrentC
    /\ (~sync => On("unsynced"))
    /\ HarvestCore(A \X B \X {c}, v, pol, sync, "harvest_combos", <<SortedSeq(A), SortedSeq(B), c, v, pol, sync>>)
    /\ UNCHANGED <<hasC, svars>>

(* harvest_cases over an arbitrary set of points *)
HarvestCases(P, v, pol, sync) ==
    /\ On("cases") /\ Step /\ P # {} /\ \A p \in P : p[3] \in CurrentC
    /\ (~sync => On("unsynced"))
    /\ HarvestCore(P, v, pol, sync, "harvest_cases", <<SetToSeq(P), v, pol, sync>>)
    /\ UNCHANGED <<hasC, svars>>

(* xyzpy.save_merge_ds(ds, name, overwrite=pol): no Harvester object involved *)
SaveMerge(A, B, c, v, pol) ==
    /\ On("savemerge") /\ Step /\ A # {} /\ B # {} /\ c \in CurrentC
    /\ LET new == NewData(A \X B \X {c}, v)
           old == IF Seen THEN disk ELSE Null
       IN  IF pol = "none" /\ Conflict(old, new)
           THEN /\ outcome' = "conflict" /\ UNCHANGED <<disk, exists>>
                /\ hist' = Log("save_merge", <<SortedSeq(A), SortedSeq(B), c, v, pol>>,
                               [disk |-> disk, mem |-> IF loaded THEN mem ELSE NONE, exists |-> exists, outcome |-> "conflict"])
           ELSE /\ outcome' = "ok" /\ disk' = Merge(old, new, pol) /\ exists' = TRUE
                /\ hist' = Log("save_merge", <<SortedSeq(A), SortedSeq(B), c, v, pol>>,
                               [disk |-> Merge(old, new, pol), mem |-> IF loaded THEN mem ELSE NONE, exists |-> TRUE, outcome |-> "ok"])
    /\ UNCHANGED <<mem, loaded, hasC, svars>>

(* expand_dims('c', 7): every existing point gets c = 7 *)
Relabel(m) == [p \in Points |-> IF p[3] = 7 THEN m[<<p[1], p[2], 0>>] ELSE 0]
ExpandDims ==
    /\ On("expand") /\ Step /\ ~hasC /\ exists
    /\ LET cur == IF ~loaded THEN disk ELSE mem        \* full_ds loads from disk only when nothing is in memory
       IN  /\ disk' = Relabel(cur) /\ mem' = Relabel(cur) /\ loaded' = TRUE
           /\ hist' = Log("expand_dims", <<>>, [disk |-> Relabel(cur), mem |-> Relabel(cur), exists |-> TRUE, outcome |-> "ok"])
    /\ hasC' = TRUE /\ exists' = TRUE /\ outcome' = "ok"
    /\ UNCHANGED svars

Dropped(m, a) == [p \in Points |-> IF p[1] = a THEN 0 ELSE m[p]]
DropSel(a) ==
    /\ On("drop") /\ Step /\ exists
    /\ LET cur == IF ~loaded THEN disk ELSE mem
       IN  /\ \E p \in Points : p[1] = a /\ cur[p] # 0      \* the coordinate value is present in the dataset (it holds data)
           /\ disk' = Dropped(cur, a) /\ mem' = Dropped(cur, a) /\ loaded' = TRUE
           /\ hist' = Log("drop_sel", <<a>>, [disk |-> Dropped(cur, a), mem |-> Dropped(cur, a), exists |-> TRUE, outcome |-> "ok"])
    /\ exists' = TRUE /\ outcome' = "ok"
    /\ UNCHANGED <<hasC, svars>>

DeleteDs ==
    /\ On("delete") /\ Step /\ exists
    /\ disk' = Null /\ exists' = FALSE
    /\ outcome' = "ok"
    /\ hist' = Log("delete_ds", <<>>, [disk |-> Null, mem |-> IF loaded THEN mem ELSE NONE, exists |-> FALSE, outcome |-> "ok"])
    /\ UNCHANGED <<mem, loaded, hasC, svars>>

HarvestCombosAny ==
    \E A \in SUBSET AVals : \E B \in SUBSET BVals : \E c \in CVals : \E v \in Vers : \E pol \in Policies : \E s \in BOOLEAN :
        HarvestCombos(A, B, c, v, pol, s)
HarvestCasesAny ==
    \E P \in SUBSET (AVals \X BVals \X CurrentC) : \E v \in Vers : \E pol \in Policies : \E s \in BOOLEAN :
        Cardinality(P) <= 3 /\ HarvestCases(P, v, pol, s)
SaveMergeAny ==
    \E A \in SUBSET AVals : \E B \in SUBSET BVals : \E c \in CVals : \E v \in Vers : \E pol \in Policies :
        SaveMerge(A, B, c, v, pol)
DropSelAny == \E a \in AVals : DropSel(a)

HNext == NewSession \/ HarvestCombosAny \/ HarvestCasesAny \/ SaveMergeAny \/ ExpandDims \/ DropSelAny \/ DeleteDs

SpecH == HInit /\ [][HNext]_vars

-----------------------------------------------------------------------------
(* C05 *)
MemEqDisk ==
    \* after a synced action memory and disk agree (memory may additionally hold un-synced points in profile "unsynced")
    (~On("unsynced") /\ loaded /\ exists /\ outcome = "ok" /\ ~On("savemerge") /\ ~On("delete")) => mem = disk

IsDropAction == \/ \E a \in AVals : DropSel(a)
                \/ DeleteDs
                \/ ExpandDims

(* no previously harvested point is dropped or altered by harvesting other points *)
NothingDropped ==
    [][~IsDropAction =>
         \A p \in Points :
            /\ (disk[p] # 0 => disk'[p] # 0)
            /\ (loaded /\ mem[p] # 0 /\ loaded' => mem'[p] # 0)]_vars
NothingDroppedSessions ==
    \* a new session (mem' = NONE) must not lose anything either: everything in memory is on disk
    [][NewSession /\ ~On("unsynced") /\ loaded /\ exists => \A p \in Points : mem[p] # 0 => disk[p] # 0]_vars

OldVal(p) == IF exists THEN disk[p] ELSE (IF ~loaded THEN 0 ELSE mem[p])

(* the value at every point is the one the policy dictates *)
PolicyValue ==
    [][\A A \in SUBSET AVals : \A B \in SUBSET BVals : \A c \in CVals : \A v \in Vers : \A pol \in Policies :
          (HarvestCombos(A, B, c, v, pol, TRUE) /\ outcome' = "ok") =>
             \A p \in Points :
                disk'[p] = IF p \in (A \X B \X {c})
                           THEN (CASE pol = "true" -> v
                                   [] pol = "false" -> (IF OldVal(p) # 0 THEN OldVal(p) ELSE v)
                                   [] OTHER -> v)
                           ELSE OldVal(p)]_vars
ConflictIsAtomic ==
    [][outcome' = "conflict" => (disk' = disk /\ exists' = exists)]_vars

HTypeOK == outcome \in {"none", "ok", "conflict"}

HTerminal == steps = MaxSteps
EmitH == (Record /\ HTerminal) => PrintT(<<"CASE", ToJson([hist |-> hist])>>)

-----------------------------------------------------------------------------
(* Sampler machine: rows are <<a, b, v>> (arguments and the version of the function that ran).
   Two Sampler objects (handles 1, 2) may be alive on the same file at the same time: tmem / tloaded are per handle. *)
CONSTANTS MaxRows
Handles == {1, 2}
Rows(n) == [1..n -> AVals \X BVals]

SInit == /\ disk = Null /\ exists = FALSE /\ mem = Null /\ loaded = FALSE /\ hasC = FALSE
         /\ outcome = "none" /\ hist = <<>> /\ steps = 0
         /\ table = <<>> /\ tmem = [h \in Handles |-> <<>>] /\ tloaded = [h \in Handles |-> FALSE] /\ texists = FALSE

SLog(a, args) == IF Record THEN Append(hist, [a |-> a, args |-> args,
                                               o |-> [table |-> table', exists |-> texists', outcome |-> "ok",
                                                      tmem |-> [h \in Handles |-> IF tloaded'[h] THEN tmem'[h] ELSE <<-1>>]]])
                 ELSE hist

(* sample_combos(n) on handle h: gen_cases_fnargs draws n cases, run_cases(to_df), add_df: load the file if it exists
   (else keep what the object holds), concat, save; via = "crop": the same through sow_samples / grow / reap *)
Sample(h, rows, v, via) ==
    /\ Step /\ Len(table) + Len(rows) <= MaxRows
    /\ LET new == [k \in 1..Len(rows) |-> <<rows[k][1], rows[k][2], v>>]
           base == IF texists THEN table ELSE (IF ~tloaded[h] THEN <<>> ELSE tmem[h])
       IN  /\ table' = base \o new
           /\ tmem' = [tmem EXCEPT ![h] = base \o new]
    /\ tloaded' = [tloaded EXCEPT ![h] = TRUE]
    /\ texists' = TRUE
    /\ outcome' = "ok"
    /\ hist' = SLog(via, <<h, rows, v>>)
    /\ UNCHANGED <<disk, exists, mem, loaded, hasC>>

SNewSession(h) ==
    /\ Step
    /\ tmem' = [tmem EXCEPT ![h] = <<>>] /\ tloaded' = [tloaded EXCEPT ![h] = FALSE]
    /\ outcome' = "ok"
    /\ UNCHANGED <<table, texists>>
    /\ hist' = SLog("session", <<h>>)
    /\ UNCHANGED <<disk, exists, mem, loaded, hasC>>

SampleAny == \E h \in Handles : \E n \in 1..3 : \E rows \in Rows(n) : \E v \in Vers : \E via \in {"sample", "crop"} : Sample(h, rows, v, via)
SNewSessionAny == \E h \in Handles : SNewSession(h)
SNext == SampleAny \/ SNewSessionAny
SpecS == SInit /\ [][SNext]_vars

(* C15 *)
AppendOnly == [][texists => IsPrefix(table, table')]_vars
ExactlyN == [][\A h \in Handles : \A n \in 1..3 : \A rows \in Rows(n) : \A v \in Vers : \A via \in {"sample", "crop"} :
                 Sample(h, rows, v, via) => Len(table') = Len(table) + n]_vars
(* the handle that just sampled agrees with the file *)
TableMemEqDisk == \A h \in Handles : (tloaded[h] /\ texists /\ hist # <<>> /\ hist[Len(hist)].a # "session"
                                      /\ hist[Len(hist)].args[1] = h) => tmem[h] = table
HView == <<disk, exists, mem, loaded, hasC, outcome, table, tmem, tloaded, texists>>
EmitS == (Record /\ HTerminal) => PrintT(<<"CASE", ToJson([hist |-> hist])>>)
=============================================================================
