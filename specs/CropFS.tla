------------------------------- MODULE CropFS -------------------------------
(***************************************************************************)
(* Properties C11 and C10: the crop as a directory shared by several OS    *)
(* processes.  The writers' programs are *data*: for each writer the       *)
(* sequence of file-system operations it performs on the shared directory, *)
(* recorded from the real code on every run (vx/fsproxy.py for threads,    *)
(* strace for processes) and handed to TLC as the constant Prog.  A change *)
(* of the publication protocol in xyzpy changes the model TLC checks.      *)
(*                                                                         *)
(* File system: fs[name] = [ex, len, full, src]: the file exists, holds    *)
(* the first `len` of `full` units of the content `src` (src = the batch   *)
(* whose results it is; a file is complete iff len = full > 0).            *)
(*                                                                         *)
(*   WStep(w)   the next operation of writer w's program                   *)
(*   Crash(w)   (C10) the process dies at an operation boundary            *)
(*   Reaper     Crop.reap(wait=True): for each batch in order              *)
(*                exists?  -> no: sleep, retry                             *)
(*                isfile?  -> open and un-pickle (fails on a partial file) *)
(*   Poll       Crop.num_results: list results/ and count the names the    *)
(*              progress glob matches                                      *)
(***************************************************************************)
EXTENDS VxUtil, TLC, Json

CONSTANTS Writers,      \* set of writer names
          Prog,         \* [Writers -> Seq([k, p, q])]  k in creat/write/close/rename/unlink/stat/list
          BatchOf,      \* [Writers -> batch id]: whose results the writer produces
          FullOf,       \* [Writers -> [name -> number of write operations that complete the file]]
          NB,           \* number of batches
          Names,        \* all file names that occur
          Counted,      \* names the progress glob counts
          Pollers,      \* writers that only observe (progress queries): their "list" operations must not see a counted partial file
          NPolls,       \* number of polls of the poller (0: no poller)
          MaxSleeps,    \* bound on the reaper's sleeps
          WithReaper,   \* BOOLEAN
          MaxCrashes,   \* C10: number of crashes allowed
          Pre,          \* C10: [Names -> "absent" | "complete"], the directory before the phase starts
          SowFiles,     \* C10: names of the settings / function / batch files
          DataFiles,    \* C10: names of files holding previously harvested data, which must survive
          WithRecovery, \* C10: explore the documented recovery after the crash
          Record

VARIABLES fs, pc, alive, rpc, ri, rgot, sleeps, npoll, pollbad, crashes, reaped, hist

vars == <<fs, pc, alive, rpc, ri, rgot, sleeps, npoll, pollbad, crashes, reaped, hist>>

Absent == [ex |-> FALSE, len |-> 0, full |-> 0, src |-> 0]
ResName(i) == "res" \o ToString(i)

(* batch whose results a name is supposed to hold (0: not a result file) *)
SrcOf(n) == IF \E i \in 1..NB : n = ResName(i) THEN CHOOSE i \in 1..NB : n = ResName(i) ELSE 0

Init == /\ fs = [n \in Names |-> IF Pre[n] = "complete" THEN [ex |-> TRUE, len |-> 1, full |-> 1, src |-> SrcOf(n)] ELSE Absent]
        /\ reaped = "no"
        /\ pc = [w \in Writers |-> 1]
        /\ alive = [w \in Writers |-> TRUE]
        /\ rpc = IF WithReaper THEN "exists" ELSE "off"
        /\ ri = 1 /\ rgot = <<>> /\ sleeps = 0
        /\ npoll = 0 /\ pollbad = FALSE
        /\ crashes = 0
        /\ hist = <<>>

Log(actor, kind) == IF Record THEN Append(hist, <<actor, kind>>) ELSE hist

Complete(f) == f.ex /\ f.full > 0 /\ f.len = f.full

(* effect of one recorded operation on the file system *)
Apply(w, op) ==
    CASE op.k = "creat"  -> [fs EXCEPT ![op.p] = [ex |-> TRUE, len |-> 0, full |-> FullOf[w][op.p],
                                                  src |-> IF op.s # 0 THEN op.s ELSE BatchOf[w]]]
      [] op.k = "write"  -> IF fs[op.p].ex THEN [fs EXCEPT ![op.p].len = Min2(@ + 1, fs[op.p].full)] ELSE fs
      [] op.k = "rename" -> IF fs[op.p].ex THEN [fs EXCEPT ![op.q] = fs[op.p], ![op.p] = Absent] ELSE fs
      [] op.k = "unlink" -> IF op.p \in Names THEN [fs EXCEPT ![op.p] = Absent] ELSE fs
      [] OTHER           -> fs                                   \* close, stat, list, read: no effect

WStep(w) ==
    /\ alive[w] /\ pc[w] <= Len(Prog[w])
    /\ fs' = Apply(w, Prog[w][pc[w]])
    /\ pc' = [pc EXCEPT ![w] = @ + 1]
    /\ hist' = Log(w, Prog[w][pc[w]].k)
    /\ pollbad' = (pollbad \/ (w \in Pollers /\ Prog[w][pc[w]].k = "list" /\ \E n \in Counted : fs[n].ex /\ ~Complete(fs[n])))
    /\ UNCHANGED <<alive, rpc, ri, rgot, sleeps, npoll, crashes, reaped>>

(* C10: the process is killed before its next operation *)
Crash(w) ==
    /\ crashes < MaxCrashes /\ alive[w] /\ pc[w] <= Len(Prog[w])
    /\ alive' = [alive EXCEPT ![w] = FALSE]
    /\ crashes' = crashes + 1
    /\ hist' = Log(w, "crash")
    /\ UNCHANGED <<fs, pc, rpc, ri, rgot, sleeps, npoll, pollbad, reaped>>

WritersDone == \A w \in Writers : ~alive[w] \/ pc[w] > Len(Prog[w])

(* Reaper.wait_to_load / _load - cropping.py:1239-1272 *)
RExists ==
    /\ rpc = "exists"
    /\ IF fs[ResName(ri)].ex
          THEN rpc' = "isfile"
          ELSE sleeps < MaxSleeps /\ ~WritersDone /\ rpc' = "sleep"     \* will time.sleep(0.2) and look again
    /\ hist' = Log("reaper", "stat")
    /\ UNCHANGED <<fs, pc, alive, ri, rgot, sleeps, npoll, pollbad, crashes, reaped>>

RSleep ==
    /\ rpc = "sleep"
    /\ rpc' = "exists" /\ sleeps' = sleeps + 1
    /\ hist' = Log("reaper", "sleep")
    /\ UNCHANGED <<fs, pc, alive, ri, rgot, npoll, pollbad, crashes, reaped>>

RIsFile ==
    /\ rpc = "isfile"
    /\ rpc' = IF fs[ResName(ri)].ex THEN "open" ELSE "failed"
    /\ hist' = Log("reaper", "stat")
    /\ UNCHANGED <<fs, pc, alive, ri, rgot, sleeps, npoll, pollbad, crashes, reaped>>

ROpen ==
    /\ rpc = "open"
    /\ LET f == fs[ResName(ri)]
       IN  IF Complete(f)
           THEN /\ rgot' = Append(rgot, f.src)
                /\ ri' = ri + 1
                /\ rpc' = IF ri = NB THEN "done" ELSE "exists"
           ELSE /\ rpc' = "failed"                              \* ENOENT, EOFError, UnpicklingError ...
                /\ UNCHANGED <<rgot, ri>>
    /\ hist' = Log("reaper", "read")
    /\ UNCHANGED <<fs, pc, alive, sleeps, npoll, pollbad, crashes, reaped>>

Reaper == RExists \/ RSleep \/ RIsFile \/ ROpen

(* calc_progress: glob of results/ - cropping.py:385-401 *)
Poll ==
    /\ npoll < NPolls
    /\ npoll' = npoll + 1
    /\ pollbad' = (pollbad \/ \E n \in Counted : fs[n].ex /\ ~Complete(fs[n]))
    /\ hist' = Log("poller", "list")
    /\ UNCHANGED <<fs, pc, alive, rpc, ri, rgot, sleeps, crashes, reaped>>

WStepAny == \E w \in Writers : WStep(w)
CrashAny == \E w \in Writers : Crash(w)

-----------------------------------------------------------------------------
(* C10: the documented recovery, started by a fresh process once every writer is gone:
   re-sow if a sown file is incomplete, discard unreadable results (check_bad), grow the missing
   batches, reap.  Each step publishes one file atomically (that is what the crash analysis of the
   recorded programs establishes), so a second crash simply stops the recovery between two steps. *)
Recovering == WithRecovery /\ WritersDone /\ reaped = "no"
SowComplete == \A f \in SowFiles : Complete(fs[f])

RecSow(f) ==
    /\ Recovering /\ f \in SowFiles /\ ~Complete(fs[f])
    /\ fs' = [fs EXCEPT ![f] = [ex |-> TRUE, len |-> 1, full |-> 1, src |-> 0]]
    /\ hist' = Log("recover", "resow")
    /\ UNCHANGED <<pc, alive, rpc, ri, rgot, sleeps, npoll, pollbad, crashes, reaped>>

RecCheckBad(i) ==
    /\ Recovering /\ SowComplete /\ fs[ResName(i)].ex /\ ~Complete(fs[ResName(i)])
    /\ fs' = [fs EXCEPT ![ResName(i)] = Absent]
    /\ hist' = Log("recover", "check_bad")
    /\ UNCHANGED <<pc, alive, rpc, ri, rgot, sleeps, npoll, pollbad, crashes, reaped>>

RecGrow(i) ==
    /\ Recovering /\ SowComplete /\ ~fs[ResName(i)].ex
    /\ fs' = [fs EXCEPT ![ResName(i)] = [ex |-> TRUE, len |-> 1, full |-> 1, src |-> i]]
    /\ hist' = Log("recover", "grow")
    /\ UNCHANGED <<pc, alive, rpc, ri, rgot, sleeps, npoll, pollbad, crashes, reaped>>

(* what a reap attempted right now would do *)
ReapNow == IF ~Complete(fs["info"]) THEN "error"
           ELSE IF \E i \in 1..NB : ~fs[ResName(i)].ex THEN "refused"
           ELSE IF \E i \in 1..NB : ~Complete(fs[ResName(i)]) THEN "error"
           ELSE IF \A i \in 1..NB : fs[ResName(i)].src = i THEN "exact" ELSE "wrong"

RecReap ==
    /\ Recovering /\ SowComplete /\ \A i \in 1..NB : Complete(fs[ResName(i)])
    /\ reaped' = ReapNow
    /\ hist' = Log("recover", "reap")
    /\ UNCHANGED <<fs, pc, alive, rpc, ri, rgot, sleeps, npoll, pollbad, crashes>>

Recover == (\E f \in SowFiles : RecSow(f)) \/ (\E i \in 1..NB : RecCheckBad(i) \/ RecGrow(i)) \/ RecReap

Next == WStepAny \/ CrashAny \/ Reaper \/ Poll \/ Recover

Spec == Init /\ [][Next]_vars
FairSpec == Spec /\ WF_vars(WStepAny) /\ WF_vars(Reaper)

-----------------------------------------------------------------------------
(* C11 *)
ReaperNeverSeesPartial == rpc # "failed"
ReaperExact == rpc = "done" => rgot = Iota(NB)
PollerNeverCountsPartial == ~pollbad
(* the reaper gets through once every batch has been grown (no crashes): liveness under fairness *)
ReaperTerminates == (MaxCrashes = 0 /\ WithReaper) => <>(rpc \in {"done", "failed"} \/ sleeps = MaxSleeps)

(* C10: what a later process finds after crashes: a result name never holds a partial file *)
NoPartialResultVisible == \A i \in 1..NB : fs[ResName(i)].ex => Complete(fs[ResName(i)])

(* C10 *)
NoSilentCorruption == ReapNow # "wrong" /\ reaped # "wrong"
RecoveryReachesExact == reaped \in {"no", "exact"}
HarvestedDataSurvives == \A d \in DataFiles : Pre[d] = "complete" => Complete(fs[d])

TypeOK == rpc \in {"off", "exists", "sleep", "isfile", "open", "done", "failed"}

Terminal == (rpc \in {"off", "done", "failed"} \/ (rpc = "exists" /\ WritersDone /\ ~fs[ResName(ri)].ex))
            /\ WritersDone /\ npoll = NPolls
EmitCase ==
    (Record /\ Terminal) =>
        PrintT(<<"CASE", ToJson([hist |-> hist, rpc |-> rpc, rgot |-> rgot, pollbad |-> pollbad,
                                 crashed |-> {w \in Writers : ~alive[w]},
                                 pcs |-> pc,
                                 files |-> [n \in Names |-> IF ~fs[n].ex THEN "absent"
                                                             ELSE IF Complete(fs[n]) THEN "complete" ELSE "partial"]])>>)
(* C10: the directory a later process finds right after a crash, for conformance with the real kill *)
EmitCrash ==
    (Record /\ hist # <<>> /\ hist[Len(hist)][2] = "crash") =>
        PrintT(<<"CASE", ToJson([pcs |-> pc, reapnow |-> ReapNow,
                                 files |-> [n \in Names |-> IF ~fs[n].ex THEN "absent"
                                                             ELSE IF Complete(fs[n]) THEN "complete" ELSE "partial"]])>>)
=============================================================================
