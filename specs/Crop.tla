-------------------------------- MODULE Crop --------------------------------
(***************************************************************************)
(* Properties C04, C06, C07, C08, C09, C12: the life-cycle of a Crop at    *)
(* the level of its public API (xyzpy/gen/cropping.py).  Every action is   *)
(* one public call returning (or raising).                                 *)
(*                                                                         *)
(*   Sow          sow_combos / sow_cases / sow_samples: choose the batch   *)
(*                numbers, enumerate, shuffle, cut into batch files        *)
(*   ReSow        sow again with the same inputs: only batches rewritten   *)
(*   Grow(i)      xyzpy.grow(i, crop) or Crop.grow(i); the function raises *)
(*                on the settings in `failing` -> no result written        *)
(*   GrowMissing  Crop.grow_missing(): ascending, stops at the first       *)
(*                batch whose function raises                              *)
(*   FixFn        the user repairs the function (failing := {})            *)
(*   RegressFn    the session returns to the failing function              *)
(*   Delete(i)    a result file is removed                                 *)
(*   Corrupt(i)   environment: a result file becomes unreadable            *)
(*   CheckBad     Crop.check_bad(): removes unreadable results             *)
(*   Reload       a fresh Crop(name=, parent_dir=) object                  *)
(*   Reap(c, a)   Crop.reap(clean_up=c, allow_incomplete=a)                *)
(*   FixCause     the user corrects what made reaping fail                 *)
(*   ChangeConst / ChangeConstMid   the user changes the farmer's constants *)
(*                between two campaigns / in the middle of one: batches    *)
(*                carry the new constants after the next (re-)sow, each    *)
(*                result those its batch held when it was grown (KOf)      *)
(*   DirectHarvest  other points harvested into the same data file        *)
(*                                                                         *)
(* Settings are numbered 1..N in the enumeration order of the sow (cases   *)
(* in the order given, then the product of the grid axes *sorted by        *)
(* argument name* - a deviation of sow_combos that is part of the model).  *)
(* The swept function returns a token of its keyword arguments, so the     *)
(* value of setting k is k; Missing is 0.                                  *)
(***************************************************************************)
EXTENDS VxUtil, TLC, Json

CONSTANTS Configs,          \* set of configuration records, see Init
          MaxPerm,          \* all permutations for seed 1 when N <= MaxPerm
          MaxSteps,         \* bound on the number of API calls after the sow
          Record,           \* TRUE: keep the history (for emission / simulation)
          Acts,             \* names of the calls explored in this configuration (a profile)
          SowCasesShuffle,  \* "ctor" (repaired: sow_cases sows with the crop's shuffle) | "none" (pinned, F3)
          PlaceholderLen,   \* "actual" (repaired) | "lt" (pinned: i < remainder, F4) | "le"
          SamplerCleanup    \* "deferred" (repaired) | "early" (pinned: clean-up before add_df, F8)

VARIABLES cfg, perm1,
          dir,       \* "none" | "present" | "deleted"
          B, bsz, rem,          \* batching numbers as persisted
          sown,      \* ids in the order they were written to the batch files
          batch,     \* batch[i] = sequence of ids of batch i
          infoShuf,  \* shuffle seed recorded in the settings file (0 = False)
          res,       \* res[i] \in {"absent", "ok", "ok1", "bad"}: "ok" / "ok1" = grown from batches holding constants version 0 / 1
          failing,   \* ids on which version 1 of the function raises
          hfn, dfn,  \* version of the function held by the current handle / pickled in the crop (0: none)
          kver, sownK, \* version of the farmer's constants now / baked into the sown batches
          cause,     \* why a complete reap would fail: "none" | "build" | "merge" | "save"
          store,     \* ids delivered to the farmer's on-disk data (Harvester / Sampler)
          extra,     \* number of other points harvested directly into the same data file by the session's Harvester (0..2)
          outcome,   \* of the last call
          value,     \* what the last successful reap returned, as sequence over all locations
          hist, steps

vars == <<cfg, perm1, dir, B, bsz, rem, sown, batch, infoShuf, res, failing, hfn, dfn, kver, sownK, cause, store, extra, outcome, value, hist, steps>>

Missing == 0

-----------------------------------------------------------------------------
(* cfg = [grid   |-> sizes of the grid arguments *in sorted-name order*,
          nca    |-> number of case arguments, cases |-> sequence of distinct cases,
          kind   |-> "combos" | "cases" | "samples",
          bmode  |-> "none" | "size" | "count",  bval |-> requested batchsize / num_batches,
          bwhere |-> "ctor" | "sow",
          shufCtor |-> 0..2, shufSow |-> -1..2   (-1: not passed to sow_combos),
          farmer |-> "none" | "runner" | "harvester" | "sampler",
          failing |-> set of ids on which the function raises at first,
          cause  |-> "none" | "build" | "merge" | "save"] *)

CaseSeq == IF cfg.nca = 0 THEN << <<>> >> ELSE cfg.cases
GridAxes == [i \in 1..Len(cfg.grid) |-> Iota(cfg.grid[i])]
GridLocs == ProdSeq(GridAxes)
N == Len(CaseSeq) * Len(GridLocs)
CaseAxes == [j \in 1..cfg.nca |-> SortedSeq({cfg.cases[c][j] : c \in 1..Len(cfg.cases)})]
Axes == CaseAxes \o GridAxes
AllLocs == ProdSeq(Axes)
Enumeration ==
    FlattenSeq([c \in 1..Len(CaseSeq) |-> [g \in 1..Len(GridLocs) |-> CaseSeq[c] \o GridLocs[g]]])

Identity(n) == Iota(n)
(* the permutation random.shuffle applies after random.seed(s): arbitrary but fixed per seed *)
PermOf(s) == IF s = 0 THEN Identity(N)
             ELSE IF s = 1 THEN perm1
             ELSE [k \in 1..N |-> perm1[(k % N) + 1]]          \* seed 2: a rotation of seed 1's

PermChoices(n) ==
    IF n <= MaxPerm THEN {[k \in 1..n |-> p[k]] : p \in Permutations(1..n)}
    ELSE { [k \in 1..n |-> n + 1 - k],
           [k \in 1..n |-> ((k + 1) % n) + 1],
           [k \in 1..n |-> IF k % 2 = 1 THEN (k + 1) \div 2 ELSE n + 1 - (k \div 2)] }

UsesShuffle(c) == c.shufCtor # 0 \/ c.shufSow > 0

Init == /\ cfg \in Configs
        /\ perm1 \in (IF UsesShuffle(cfg) THEN PermChoices(N) ELSE {Identity(N)})
        /\ dir = "none"
        /\ B = 0 /\ bsz = 0 /\ rem = 0
        /\ sown = <<>> /\ batch = <<>> /\ infoShuf = 0
        /\ res = <<>> /\ failing = cfg.failing /\ cause = cfg.cause
        /\ hfn = 1 /\ dfn = 0 /\ kver = 0 /\ sownK = 0
        /\ store = {} /\ extra = 0
        /\ outcome = "none" /\ value = <<>>
        /\ hist = <<>> /\ steps = 0

-----------------------------------------------------------------------------
(* choose_batch_settings - cropping.py:234-286 *)
ChosenB   == CASE cfg.bmode = "none"  -> N
               [] cfg.bmode = "size"  -> CeilDiv(N, cfg.bval)
               [] cfg.bmode = "count" -> Min2(N, cfg.bval)
ChosenBsz == CASE cfg.bmode = "none"  -> 1
               [] cfg.bmode = "size"  -> cfg.bval
               [] cfg.bmode = "count" -> N \div ChosenB
ChosenRem == IF cfg.bmode = "count" THEN N % ChosenB ELSE 0

(* The shuffle the sow really applies, and the one it records for the reaper *)
SowShuffle ==
    IF cfg.kind = "combos" THEN (IF cfg.shufSow = -1 THEN 0 ELSE cfg.shufSow)  \* the default False overrides the constructor's
    ELSE IF SowCasesShuffle = "ctor" THEN cfg.shufCtor ELSE 0
RecordedShuffle ==
    IF cfg.kind = "combos" THEN (IF cfg.shufSow = -1 THEN 0 ELSE cfg.shufSow)
    ELSE cfg.shufCtor

(* Sower.__call__ / __exit__ - cropping.py:1074-1088: the first `rem` batches get one extra,
   whatever is left over at the end is written as a last (shorter) batch *)
RECURSIVE Cut(_, _, _, _)
Cut(seq, size, nlong, i) ==
    IF seq = <<>> THEN <<>>
    ELSE LET len == Min2(Len(seq), size + (IF i <= nlong THEN 1 ELSE 0))
         IN  <<SubSeq(seq, 1, len)>> \o Cut(SubSeq(seq, len + 1, Len(seq)), size, nlong, i + 1)

Sow ==
    /\ dir \in {"none", "deleted"}           \* "deleted": a second campaign on the same Crop object
    /\ dir' = "present"
    /\ dfn' = hfn /\ sownK' = kver          \* the handle's function is pickled, the current constants are baked in
    /\ B' = ChosenB /\ bsz' = ChosenBsz /\ rem' = ChosenRem
    /\ sown' = PermOf(SowShuffle)
    /\ batch' = Cut(PermOf(SowShuffle), ChosenBsz, ChosenRem, 1)
    /\ infoShuf' = RecordedShuffle
    /\ res' = [i \in 1..ChosenB |-> "absent"]
    /\ outcome' = "ok"
    /\ UNCHANGED <<cfg, perm1, failing, hfn, kver, cause, store, extra, value, steps>>

(* a result remembers which version of the constants its batch file held when it was grown *)
OkTags == {"ok", "ok1"}
OkTag == IF sownK = 0 THEN "ok" ELSE "ok1"
OkTagOf(k) == IF k = 0 THEN "ok" ELSE "ok1"

Step == steps < MaxSteps /\ steps' = (IF Record THEN steps + 1 ELSE steps)

(* re-sowing with the same inputs: batch files are rewritten, results stay - cropping.py:500-504 *)
ReSow ==
    /\ dir = "present" /\ Step
    /\ outcome' = "ok"
    /\ dfn' = hfn                           \* prepare() saves the handle's function again
    /\ sownK' = kver                        \* and the batch files are rewritten with the farmer's constants as they are now
    /\ UNCHANGED <<cfg, perm1, dir, B, bsz, rem, sown, batch, infoShuf, res, failing, hfn, kver, cause, store, extra, value>>

(* growing always un-pickles the function stored in the crop - cropping.py:1156-1158 *)
Fails(i) == dfn = 1 /\ \E k \in 1..Len(batch[i]) : batch[i][k] \in failing

Grow(i, via) ==
    /\ dir = "present" /\ Step /\ i \in 1..B
    /\ IF Fails(i)
          THEN outcome' = "raised" /\ UNCHANGED res          \* nothing is written for a batch whose function raised
          ELSE outcome' = "ok" /\ res' = [res EXCEPT ![i] = OkTag]   \* an existing result is replaced
    /\ UNCHANGED <<cfg, perm1, dir, B, bsz, rem, sown, batch, infoShuf, failing, hfn, dfn, kver, sownK, cause, store, extra, value>>

MissingSeq == SelectSeq(Iota(B), LAMBDA i : res[i] = "absent")

(* Crop.grow(ids): in the order given (here ascending); the first raising batch aborts the call *)
GrowSeq(ids) ==
    LET firstBad == IF \E k \in 1..Len(ids) : Fails(ids[k])
                    THEN CHOOSE k \in 1..Len(ids) : Fails(ids[k]) /\ \A j \in 1..(k-1) : ~Fails(ids[j])
                    ELSE Len(ids) + 1
        grownNow == {ids[k] : k \in 1..(firstBad - 1)}
    IN  /\ res' = [i \in 1..B |-> IF i \in grownNow THEN OkTag ELSE res[i]]
        /\ outcome' = IF firstBad <= Len(ids) THEN "raised" ELSE "ok"

GrowSet(S) ==
    /\ dir = "present" /\ Step /\ S # {} /\ S \subseteq 1..B
    /\ GrowSeq(SortedSeq(S))
    /\ UNCHANGED <<cfg, perm1, dir, B, bsz, rem, sown, batch, infoShuf, failing, hfn, dfn, kver, sownK, cause, store, extra, value>>

(* Crop.grow_missing() = Crop.grow(missing_results()) *)
GrowMissing ==
    /\ dir = "present" /\ Step
    /\ GrowSeq(MissingSeq)
    /\ UNCHANGED <<cfg, perm1, dir, B, bsz, rem, sown, batch, infoShuf, failing, hfn, dfn, kver, sownK, cause, store, extra, value>>

(* the user corrects the function in the session (crop.fn = fixed); workers see it after a re-sow *)
FixFn ==
    /\ dir = "present" /\ Step /\ hfn = 1
    /\ hfn' = 2
    /\ outcome' = "ok"
    /\ UNCHANGED <<cfg, perm1, dir, B, bsz, rem, sown, batch, infoShuf, res, failing, dfn, kver, sownK, cause, store, extra, value>>

(* the opposite: the session goes back to the failing function (the old script is run again); the workers see it after a
   re-sow, and a batch that was finished with the good function and is grown again then fails - without losing its result *)
RegressFn ==
    /\ dir = "present" /\ Step /\ hfn = 2
    /\ hfn' = 1
    /\ outcome' = "ok"
    /\ UNCHANGED <<cfg, perm1, dir, B, bsz, rem, sown, batch, infoShuf, res, failing, dfn, kver, sownK, cause, store, extra, value>>

(* between two campaigns the user changes the farmer's constants (runner.constants = ...) *)
ChangeConst ==
    /\ dir = "deleted" /\ Step /\ cfg.farmer # "none" /\ kver = 0
    /\ kver' = 1
    /\ outcome' = "ok"
    /\ UNCHANGED <<cfg, perm1, dir, B, bsz, rem, sown, batch, infoShuf, res, failing, hfn, dfn, sownK, cause, store, extra, value>>

(* in the middle of a campaign the user changes the farmer's constants (runner.constants = ...); the sown batches still hold
   the old ones until the crop is sown again, and results grown before that stay what they are until their batch is grown again *)
ChangeConstMid ==
    /\ dir = "present" /\ Step /\ kver = 0     \* (a crop without farmer: the constants= handed to the next sow call differ)
    /\ kver' = 1
    /\ outcome' = "ok"
    /\ UNCHANGED <<cfg, perm1, dir, B, bsz, rem, sown, batch, infoShuf, res, failing, hfn, dfn, sownK, cause, store, extra, value>>

Delete(i) ==
    /\ dir = "present" /\ Step /\ i \in 1..B /\ res[i] # "absent"
    /\ res' = [res EXCEPT ![i] = "absent"]
    /\ outcome' = "ok"
    /\ UNCHANGED <<cfg, perm1, dir, B, bsz, rem, sown, batch, infoShuf, failing, hfn, dfn, kver, sownK, cause, store, extra, value>>

Corrupt(i) ==
    /\ dir = "present" /\ Step /\ i \in 1..B /\ res[i] \in OkTags
    /\ res' = [res EXCEPT ![i] = "bad"]
    /\ outcome' = "ok"
    /\ UNCHANGED <<cfg, perm1, dir, B, bsz, rem, sown, batch, infoShuf, failing, hfn, dfn, kver, sownK, cause, store, extra, value>>

CheckBad ==
    /\ dir = "present" /\ Step
    /\ res' = [i \in 1..B |-> IF res[i] = "bad" THEN "absent" ELSE res[i]]
    /\ outcome' = "ok"
    /\ UNCHANGED <<cfg, perm1, dir, B, bsz, rem, sown, batch, infoShuf, failing, hfn, dfn, kver, sownK, cause, store, extra, value>>

(* fromDisk: Crop(name=, parent_dir=) alone - function (and farmer) are un-pickled from the crop;
   otherwise the session's own function / farmer object is attached again *)
Reload(fromDisk) ==
    /\ dir = "present" /\ Step
    /\ fromDisk => kver = sownK            \* (not modelled: a farmer un-pickled from the crop carries the constants of the last sow)
    /\ hfn' = IF fromDisk THEN dfn ELSE hfn
    /\ outcome' = "ok"
    /\ UNCHANGED <<cfg, perm1, dir, B, bsz, rem, sown, batch, infoShuf, res, failing, dfn, kver, sownK, cause, store, extra, value>>

(* the user harvests other points directly with the session's Harvester, into the same data file *)
DirectHarvest ==
    /\ cfg.farmer = "harvester" /\ cfg.cause = "none" /\ dir # "deleted" /\ Step /\ extra < 2
    /\ extra' = extra + 1
    /\ outcome' = "ok"
    /\ UNCHANGED <<cfg, perm1, dir, B, bsz, rem, sown, batch, infoShuf, res, failing, hfn, dfn, kver, sownK, cause, store, value>>

FixCause ==
    /\ dir = "present" /\ Step /\ cause # "none"
    /\ cause' = "none"
    /\ outcome' = "ok"
    /\ UNCHANGED <<cfg, perm1, dir, B, bsz, rem, sown, batch, infoShuf, res, failing, hfn, dfn, kver, sownK, store, extra, value>>

-----------------------------------------------------------------------------
(* Reaping - cropping.py:631-918, 1219-1283 *)

Finished == {i \in 1..B : res[i] # "absent"}
HasBad == \E i \in 1..B : res[i] = "bad"
Complete == Finished = 1..B /\ B > 0

PlaceLen(i) == CASE PlaceholderLen = "actual" -> Len(batch[i])
                 [] PlaceholderLen = "lt" -> bsz + (IF i < rem THEN 1 ELSE 0)
                 [] PlaceholderLen = "le" -> bsz + (IF i <= rem THEN 1 ELSE 0)

(* the chain of results the Reaper hands out, batch after batch *)
Chain == FlattenSeq([i \in 1..B |-> IF res[i] \in OkTags THEN batch[i]
                                      ELSE [k \in 1..PlaceLen(i) |-> Missing]])

(* combo_runner_core replays the enumeration with the recorded shuffle: its k-th call is for
   setting PermOf(infoShuf)[k] and receives Chain[k]; results are then un-shuffled and placed *)
ReapOrder == PermOf(infoShuf)
Lin == [id \in 1..N |-> Chain[IndexOf(ReapOrder, id)]]
Placed == LET locs == AllLocs
              enum == Enumeration
          IN  [k \in 1..Len(locs) |-> LET i == IndexOf(enum, locs[k]) IN IF i = 0 THEN Missing ELSE Lin[i]]

CleanUp(c, a) == IF c = "none" THEN ~a ELSE c = "true"

Delivered == {id \in 1..N : \E i \in Finished : \E k \in 1..Len(batch[i]) : batch[i][k] = id}

CauseApplies == /\ cause # "none"
                /\ \/ cause = "build" /\ cfg.farmer \in {"runner", "harvester"}
                   \/ cause = "merge" /\ cfg.farmer = "harvester" /\ 1 \in Delivered   \* the data on disk conflicts at setting 1
                   \/ cause = "save"  /\ cfg.farmer \in {"harvester", "sampler"}

Reap(c, a) ==
    /\ dir = "present" /\ Step
    /\ IF ~Complete /\ ~a THEN
            \* check_ready_to_reap refuses
            /\ outcome' = "refused"
            /\ UNCHANGED <<dir, store, value>>
       ELSE IF Finished = {} THEN
            \* nothing to infer a placeholder from: an error, unless this handle still caches the placeholder of
            \* an earlier partial reap - the property (C09: "at least one finished batch") leaves this case open
            /\ outcome' = "error_nothing"
            /\ UNCHANGED <<dir, store, value>>
       ELSE IF HasBad \/ Len(Chain) # N THEN
            \* an unreadable result, or a mis-sized placeholder
            /\ outcome' = "error"
            /\ UNCHANGED <<dir, store, value>>
       ELSE IF CauseApplies THEN
            /\ outcome' = "error"
            /\ UNCHANGED <<store, value>>
            /\ dir' = IF /\ SamplerCleanup = "early" /\ cfg.farmer = "sampler" /\ cause = "save" /\ CleanUp(c, a)
                      THEN "deleted" ELSE dir
       ELSE /\ outcome' = IF Complete THEN "complete" ELSE "partial"
            /\ value' = Placed
            /\ store' = IF cfg.farmer \in {"harvester", "sampler"} THEN store \cup Delivered ELSE store
            /\ dir' = IF CleanUp(c, a) THEN "deleted" ELSE dir
    /\ UNCHANGED <<cfg, perm1, B, bsz, rem, sown, batch, infoShuf, res, failing, hfn, dfn, kver, sownK, cause, extra>>

(* Observations the real crop must agree with after every call *)
Obs == [prepared |-> dir = "present",
        sown     |-> IF dir = "present" THEN B ELSE -1,
        nres     |-> IF dir = "present" THEN Cardinality(Finished) ELSE -1,
        missing  |-> IF dir = "present" THEN MissingSeq ELSE <<>>,
        ready    |-> dir = "present" /\ Complete,
        dir      |-> dir,
        outcome  |-> outcome]


(* some finished result was grown from batches that held other constants than the batches hold now *)
Stale == \E i \in 1..B : res[i] \in OkTags /\ res[i] # OkTag

(* which version of the constants the value of setting id carries in a reap (that of the result its batch has now) *)
KOf == [id \in 1..N |-> LET i == CHOOSE j \in 1..B : \E k \in 1..Len(batch[j]) : batch[j][k] = id
                         IN  IF res[i] = "ok1" THEN 1 ELSE IF res[i] = "ok" THEN 0 ELSE sownK]

(* every call is logged with what the crop reports afterwards (for the replay) *)
Do(A, name, args) ==
    /\ A
    /\ hist' = IF Record
                THEN Append(hist, [a |-> name, args |-> args, post |-> Obs',
                                   value |-> IF name = "reap" /\ outcome' \in {"complete", "partial"} THEN value' ELSE <<>>,
                                   store |-> store', k |-> sownK', stale |-> Stale',
                                   kof |-> IF name = "reap" /\ outcome' \in {"complete", "partial"} THEN KOf ELSE <<>>,  \* (res, batch, sownK as before the reap)
                                   extra |-> extra'])
                ELSE hist

On(name) == name \in Acts

GrowAny == On("grow") /\ \E i \in 1..B : \E via \in {"fn", "method"} : Do(Grow(i, via), "grow", <<i, via>>)
GrowSetAny == On("grow_set") /\ \E S \in SUBSET (1..B) : Do(GrowSet(S), "grow_set", <<SortedSeq(S)>>)
DeleteAny == On("delete") /\ \E i \in 1..B : Do(Delete(i), "delete", <<i>>)
CorruptAny == On("corrupt") /\ \E i \in 1..B : Do(Corrupt(i), "corrupt", <<i>>)
ReapAny == On("reap") /\ \E c \in {"none", "true", "false"} : \E a \in BOOLEAN : Do(Reap(c, a), "reap", <<c, a>>)
ReapDefault == On("reap_default") /\ Do(Reap("none", FALSE), "reap", <<"none", FALSE>>)
ReapPartialAny == On("reap_partial") /\ \E c \in {"none", "true", "false"} : Do(Reap(c, TRUE), "reap", <<c, TRUE>>)

DoSow == dir \in {"none", "deleted"} /\ (dir = "deleted" => On("campaign2")) /\ Do(Sow, "sow", <<>>)
DoReSow == On("resow") /\ Do(ReSow, "resow", <<>>)
DoGrowMissing == On("grow_missing") /\ Do(GrowMissing, "grow_missing", <<>>)
DoFixFn == On("fix_fn") /\ Do(FixFn, "fix_fn", <<>>)
DoRegressFn == On("regress_fn") /\ Do(RegressFn, "regress_fn", <<>>)
DoCheckBad == On("check_bad") /\ Do(CheckBad, "check_bad", <<>>)
DoReload == On("reload") /\ \E fd \in BOOLEAN : Do(Reload(fd), "reload", <<fd>>)
DoChangeConst == On("campaign2") /\ Do(ChangeConst, "change_const", <<>>)
DoChangeConstMid == On("const_mid") /\ Do(ChangeConstMid, "change_const", <<>>)
DoDirectHarvest == On("direct_harvest") /\ Do(DirectHarvest, "direct_harvest", <<>>)
DoFixCause == On("fix_cause") /\ Do(FixCause, "fix_cause", <<cause>>)

Next == \/ DoSow \/ DoReSow \/ GrowAny \/ GrowSetAny \/ DoGrowMissing \/ DoFixFn \/ DoRegressFn
        \/ DeleteAny \/ CorruptAny \/ DoCheckBad \/ DoReload \/ DoFixCause \/ DoChangeConst \/ DoChangeConstMid \/ DoDirectHarvest
        \/ ReapAny \/ ReapPartialAny \/ ReapDefault

Spec == Init /\ [][Next]_vars

-----------------------------------------------------------------------------
(* C07 *)
Partition ==
    dir = "present" =>
        /\ Len(batch) = B /\ B >= 1
        /\ FlattenSeq(batch) = sown                                   \* consecutive runs of the sown order
        /\ IsPermOf(sown, 1..N)                                       \* every setting in exactly one batch
        /\ \A i \in 1..B : Len(batch[i]) >= 1                         \* no empty batch
        /\ cfg.bmode = "size"  => (B = CeilDiv(N, cfg.bval) /\ \A i \in 1..B : Len(batch[i]) <= cfg.bval)
        /\ cfg.bmode = "count" => (/\ B = Min2(cfg.bval, N)
                                   /\ \A i, j \in 1..B : Len(batch[i]) - Len(batch[j]) <= 1
                                   /\ \A i, j \in 1..B : i < j => Len(batch[i]) >= Len(batch[j]))
        /\ cfg.bmode = "none"  => (B = N)

(* C08 *)
ProgressIsTruth ==
    dir = "present" =>
        /\ Obs.ready <=> (MissingSeq = <<>> /\ B > 0)
        /\ Obs.nres + Len(MissingSeq) = B
OnlyOwnResult ==
    [][dir = "present" /\ dir' = "present" =>
         \A i \in 1..B :
            res'[i] # res[i] =>
               \/ res'[i] \in OkTags /\ ~Fails(i)                      \* a grow of i that completed
               \/ res'[i] = "absent" /\ res[i] \in OkTags \cup {"bad"}  \* deletion / check_bad
               \/ res'[i] = "bad"    /\ res[i] \in OkTags]_vars             \* environment
ResowKeepsResults == [][ReSow => (res' = res /\ batch' = batch)]_vars
FailedGrowWritesNothing == [][outcome' = "raised" /\ (\E i \in 1..B : \E v \in {"fn", "method"} : Grow(i, v)) => res' = res]_vars

(* C04 / C09: whenever a reap returns, every position of a finished batch holds exactly its own
   value and every other position is Missing *)
ReapAnyAct == \E c \in {"none", "true", "false"} : \E a \in BOOLEAN : Reap(c, a)

ReapEqualsDirect ==
    [][ReapAnyAct /\ outcome' \in {"complete", "partial"} =>
         LET locs == AllLocs
             enum == Enumeration
         IN  \A k \in 1..Len(locs) :
                LET id == IndexOf(enum, locs[k])
                IN  value'[k] = IF id # 0 /\ id \in Delivered THEN id ELSE Missing]_vars

(* C09: a partial reap must succeed whenever at least one batch is finished and none is unreadable *)
PartialReapWorks ==
    [][(\E c \in {"none", "true", "false"} : Reap(c, TRUE)) /\ ~Complete /\ Finished # {} /\ ~HasBad /\ ~CauseApplies
         => outcome' = "partial"]_vars
RefusedUntouched ==
    [][outcome' = "refused" => UNCHANGED <<dir, res, batch, store>>]_vars

(* C06: what was harvested directly into the same file is still there after the crop's reap *)
DirectDataSurvives == [][extra' >= extra]_vars

(* C06: growing a batch (again) always leaves the result of the batch file as it is now - after a re-sow with changed constants,
   growing every batch leaves no result of the old constants behind, so the reap equals a direct run with the new ones *)
GrowRefreshes ==
    [][\A i \in 1..B : (res'[i] # res[i] /\ res'[i] \in OkTags) => res'[i] = OkTag]_vars
FullGrowLeavesNothingStale ==
    [][GrowSet(1..B) /\ outcome' = "ok" => ~Stale']_vars

(* C12 *)
DeleteOnlyAfterDelivery ==
    [][dir = "present" /\ dir' = "deleted" =>
         /\ outcome' \in {"complete", "partial"}
         /\ (cfg.farmer \in {"harvester", "sampler"} => Delivered \subseteq store')]_vars
FailedReapKeepsCrop ==
    [][outcome' \in {"error", "error_nothing", "refused"} => UNCHANGED <<dir, res, batch, store>>]_vars

(* Liveness (C08, "growing the missing batches ... makes the crop ready"): with the calls that make progress treated
   fairly and no environment interference, the crop becomes ready - also when the function first has to be corrected
   and re-sown.  Checked with Record = FALSE (no step bound) on profiles without delete / corrupt / reap. *)
LiveSpec == Spec /\ WF_vars(DoSow) /\ WF_vars(DoGrowMissing) /\ WF_vars(DoFixFn) /\ SF_vars(DoReSow)
EventuallyReady == <>(dir = "present" /\ Complete)
ReadyIsStable == [][(dir = "present" /\ Complete) => (dir' = "present" /\ Finished' = Finished)]_vars

TypeOK == /\ dir \in {"none", "present", "deleted"}
          /\ outcome \in {"none", "ok", "raised", "refused", "error", "error_nothing", "complete", "partial"}

-----------------------------------------------------------------------------
(* emission of complete behaviours for the replay *)
Terminal == (dir = "deleted" /\ ~On("campaign2")) \/ (dir # "none" /\ steps = MaxSteps)
EmitCase ==
    (Record /\ Terminal) =>
        PrintT(<<"CASE", ToJson([cfg |-> cfg, n |-> N, perm1 |-> perm1, settings |-> Enumeration, axes |-> Axes,
                                 nb |-> B, bsz |-> bsz, rem |-> rem, batch |-> batch, hist |-> hist])>>)

View == <<cfg, perm1, dir, B, bsz, rem, sown, batch, infoShuf, res, failing, hfn, dfn, kver, sownK, cause, store, extra, outcome, value>>
=============================================================================
