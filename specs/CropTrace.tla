----------------------------- MODULE CropTrace -----------------------------
(***************************************************************************)
(* Trace validation (code -> spec) of the repository's own crop tests.     *)
(* vx/pytest_vx.py records every public Crop call with the state of the    *)
(* crop directory afterwards; this module replays each crop's event        *)
(* sequence against the progress and clean-up rules of Crop.tla (C08, C12) *)
(* at the level of what a directory listing shows:                         *)
(*     B     number of batch files,  fin  set of batch ids with a result,  *)
(*     dir   "none" | "present" | "deleted"                                *)
(* Every logged post-state must be the one the rule of the event allows.   *)
(* An accepted trace prints <<"ACCEPT", tid>>.                             *)
(***************************************************************************)
EXTENDS Integers, Sequences, FiniteSets, TLC, Json, IOUtils

Traces == JsonDeserialize(IOEnv.TRACE_FILE)

VARIABLES tid, l, B, fin, dir

vars == <<tid, l, B, fin, dir>>

ToSet(s) == {s[i] : i \in 1..Len(s)}
Ev == Traces[tid][l + 1]
PostFin == ToSet(Ev.post.results)
PostDir == IF Ev.post.exists THEN "present" ELSE (IF dir = "none" THEN "none" ELSE "deleted")

Init == /\ tid \in 1..Len(Traces) /\ l = 0
        /\ B = 0 /\ fin = {} /\ dir = "none"

More == l < Len(Traces[tid])
Ok == Ev.outcome = "ok"
CleanUp == IF Ev.args.clean_up = "none" THEN ~Ev.args.allow ELSE Ev.args.clean_up = "true"
Complete == B > 0 /\ fin = 1..B

(* sow / re-sow: the directory exists afterwards, batches are (re)written, results are kept *)
Sow == /\ More /\ Ev.ev = "sow" /\ Ok
       /\ dir' = "present" /\ Ev.post.exists /\ Ev.post.prepared
       /\ B' = Ev.post.nb /\ B' >= 1
       /\ fin' = (IF dir = "present" THEN fin ELSE {}) /\ fin' = PostFin

(* grow: only the named batches can become finished; a successful call finishes all of them *)
Grow == /\ More /\ Ev.ev \in {"grow", "grow_missing"} /\ dir = "present"
        /\ LET ids == IF Ev.ev = "grow" THEN ToSet(Ev.args.ids) ELSE (1..B) \ fin
           IN  /\ fin' = PostFin
               /\ fin \subseteq fin' /\ fin' \subseteq fin \cup ids
               /\ Ok => ids \subseteq fin'
        /\ UNCHANGED <<B, dir>> /\ Ev.post.exists

(* reap: refused/failed reaps leave everything in place; a successful one deletes exactly when asked *)
Reap == /\ More /\ Ev.ev = "reap" /\ dir = "present"
        /\ IF Ok
              THEN /\ (Complete \/ Ev.args.allow \/ Ev.args.wait)
                   /\ dir' = IF CleanUp THEN "deleted" ELSE "present"
                   /\ Ev.post.exists = ~CleanUp
                   /\ IF CleanUp THEN fin' = {} ELSE (fin' = fin /\ fin' = PostFin)
              ELSE /\ dir' = "present" /\ Ev.post.exists
                   /\ fin' = fin /\ fin' = PostFin
        /\ UNCHANGED B

CheckBad == /\ More /\ Ev.ev = "check_bad" /\ dir = "present"
            /\ fin' = PostFin /\ fin' \subseteq fin
            /\ UNCHANGED <<B, dir>>

DeleteAll == /\ More /\ Ev.ev = "delete_all" /\ Ok
             /\ dir' = "deleted" /\ ~Ev.post.exists /\ fin' = {}
             /\ UNCHANGED B

(* events on a crop that was never sown / already deleted: only failures are possible, nothing appears *)
Dead == /\ More /\ dir # "present" /\ Ev.ev \notin {"sow"}
        /\ ~Ev.post.exists \/ ~Ok
        /\ UNCHANGED <<B, fin, dir>>

Next == (Sow \/ Grow \/ Reap \/ CheckBad \/ DeleteAll \/ Dead) /\ l' = l + 1 /\ UNCHANGED tid

Spec == Init /\ [][Next]_vars

(* C08 on every state of every accepted prefix *)
ProgressSane == fin \subseteq 1..B \/ dir # "present"

Accepted == l = Len(Traces[tid])
ReportAccepted == Accepted => PrintT(<<"ACCEPT", tid>>)
(* where a trace gets stuck (for diagnosis): the longest matched prefix *)
ReportProgress == PrintT(<<"AT", tid, l>>)
=============================================================================
