---------------------------- MODULE FindMissing ----------------------------
(***************************************************************************)
(* Property C13.  Missing-data discovery on a labelled dataset:            *)
(*   xyzpy.is_case_missing / find_missing_cases / parse_into_cases         *)
(*   (xyzpy/gen/case_runner.py) and the find -> harvest -> find loop.      *)
(*                                                                         *)
(* A dataset is  cell[loc][slot] \in {"data","nan","inf"}  where           *)
(*   loc  = a tuple of coordinate *indices*, one per parameter dimension   *)
(*          (dimension k has Sizes[k] coordinates, in the order they are   *)
(*          stored in the dataset - NOT sorted),                           *)
(*   slot = one scalar of one variable at that location: variable v has    *)
(*          one slot, or TSize slots when it carries the internal          *)
(*          dimension (which the caller names in ignore_dims).             *)
(*                                                                         *)
(* The machine is code-shaped:                                             *)
(*   Visit1 / Visit2   one turn of the loop in find_missing_cases: the     *)
(*                     odometer of itertools.product yields `cur`, the     *)
(*                     location is tested with CodeMissing and appended    *)
(*   CodeMissing       is_case_missing: select (KeyError => missing),      *)
(*                     null-test every element, all() inside each          *)
(*                     variable, all() across the variables                *)
(*   HarvestReported   harvest_cases(missing): exactly the reported cells  *)
(*                     receive data                                        *)
(*   VisitReq          one turn of the double loop of parse_into_cases     *)
(*                     over cases (outer) x product of combos (inner)      *)
(*                                                                         *)
(* The property is stated independently of the machine: the row-major     *)
(* RANK of a location (arithmetical) and "has data" (exists a non-null     *)
(* slot).  Rule is "all" for the code as it should be; the other values    *)
(* are deliberately wrong machines used to show the invariants bite.       *)
(***************************************************************************)
EXTENDS Integers, Sequences, FiniteSets, TLC, Json, SequencesExt

CONSTANTS Sizes,      \* <<n1,..,nk>>  sizes of the parameter dimensions, 1 <= k <= 4
          NV,         \* number of variables, 1..3
          IntVars,    \* variables (subset of 1..NV) that carry the internal dimension
          TSize,      \* size of the internal dimension
          Vals,       \* subset of {"data","nan","inf"}: what a slot may hold
          Methods,    \* subset of {"isnull","isfinite"}
          KindSel,    \* {"cells"}: every slot independently;  else a set of class names, one class per location
          Modes,      \* subset of {"find","parse"}
          ReqKinds,   \* subset of {"combos","cases","mixed","partial","foreigncombo","foreigncase","keyorder","keyordercombo"}
          LabelBy,    \* "given": harvest_cases labels a tuple case with the fn_args it is GIVEN (those returned by
                      \* find_missing_cases, i.e. the dataset's order) | "signature": with the runner's own argument order
          Rule        \* "all" | "anyvar" | "anypos" | "firstvar" | "swap" | "keyfalse" | "ignoreforeign" | "dedupvalues" | "prepend" | "twice"

VARIABLES mode, method, cell0, cell, pc, cur, missing, missing2, req, k, newcases,
          grown       \* the harvest created a coordinate label the dataset did not have

vars == <<mode, method, cell0, cell, pc, cur, missing, missing2, req, k, newcases, grown>>

ND == Len(Sizes)
Dims == 1..ND
Locs == { l \in [Dims -> 1..3] : \A d \in Dims : l[d] <= Sizes[d] }

(* slots in the order  variable 1 (t = 1..), variable 2, ... *)
NSlotsOf(v) == IF v \in IntVars THEN TSize ELSE 1
RECURSIVE SlotSeqFrom(_)
SlotSeqFrom(v) == IF v > NV THEN <<>>
                  ELSE [t \in 1..NSlotsOf(v) |-> <<v, t>>] \o SlotSeqFrom(v + 1)
SlotSeq == SlotSeqFrom(1)
NS == Len(SlotSeq)
SlotsOfVar(v) == { s \in 1..NS : SlotSeq[s][1] = v }

(* what one location may hold *)
ClassKind(c) ==
    CASE c = "allnan"  -> [s \in 1..NS |-> "nan"]
      [] c = "alldata" -> [s \in 1..NS |-> "data"]
      [] c = "allinf"  -> [s \in 1..NS |-> "inf"]
      [] c = "s1nan"   -> [s \in 1..NS |-> IF s = 1 THEN "nan" ELSE "data"]      \* partial: first slot null only
      [] c = "s1data"  -> [s \in 1..NS |-> IF s = 1 THEN "data" ELSE "nan"]      \* partial: first slot is the only data
      [] c = "lastdata" -> [s \in 1..NS |-> IF s = NS THEN "data" ELSE "nan"]
      [] c = "naninf"  -> [s \in 1..NS |-> IF s % 2 = 1 THEN "nan" ELSE "inf"]
Kinds == IF KindSel = {"cells"} THEN [1..NS -> Vals] ELSE { ClassKind(c) : c \in KindSel }

-----------------------------------------------------------------------------
(* The property's vocabulary *)

IsNullP(m, x) == IF m = "isnull" THEN x = "nan" ELSE x \in {"nan", "inf"}

(* row-major rank, first dimension outermost: ((l1-1)*n2 + (l2-1))*n3 + ... *)
RECURSIVE RankTo(_, _)
RankTo(l, d) == IF d = 0 THEN 0 ELSE RankTo(l, d - 1) * Sizes[d] + (l[d] - 1)
Rank(l) == RankTo(l, ND)
NLoc == Cardinality(Locs)
GridByRank == [r \in 1..NLoc |-> CHOOSE l \in Locs : Rank(l) = r - 1]

HasData(c, m, l) == \E s \in 1..NS : ~IsNullP(m, c[l][s])

(* a setting fixes some dimensions (0 = not fixed); an index beyond the size stands for a
   coordinate value that does not occur in the dataset *)
(* Position ND+1 of a setting stands for a parameter the dataset has NO dimension for at all
   (0 = the request does not mention it, otherwise it does, with some value): such a location's
   coordinates are absent whatever its other entries are. *)
DimsX == 1..(ND + 1)
Foreign(s) == s[ND + 1] # 0
AbsentS(s) == Foreign(s) \/ \E d \in Dims : s[d] > Sizes[d]
AsSetting(l) == [d \in DimsX |-> IF d <= ND THEN l[d] ELSE 0]
Matching(s) == { l \in Locs : \A d \in Dims : s[d] = 0 \/ s[d] = l[d] }
NoDataIn(c, m, s) == \A l \in Matching(s) : ~HasData(c, m, l)
WantedS(c, m, s) == AbsentS(s) \/ NoDataIn(c, m, s)

OracleMissing(c, m) == SelectSeq(GridByRank, LAMBDA l : ~HasData(c, m, l))

-----------------------------------------------------------------------------
(* The code's vocabulary *)

NullTest(m, x) ==
    IF Rule = "swap"
       THEN (IF m = "isfinite" THEN x = "nan" ELSE x \in {"nan", "inf"})
       ELSE (IF m = "isnull" THEN x = "nan" ELSE x \in {"nan", "inf"})

(* sds.all() : inside each variable, over everything that is left after the selection *)
VarAll(c, m, ls, v) ==
    IF Rule = "anypos"
       THEN \E l \in ls : \E s \in SlotsOfVar(v) : NullTest(m, c[l][s])
       ELSE \A l \in ls : \A s \in SlotsOfVar(v) : NullTest(m, c[l][s])

(* nds.to_array().all() : across the variables *)
CodeMissing(c, m, s) ==
    IF (IF Rule = "ignoreforeign" THEN \E d \in Dims : s[d] > Sizes[d] ELSE AbsentS(s))
       THEN (Rule # "keyfalse")                            \* KeyError from ds.sel -> True
    ELSE LET ls == Matching(s)
         IN  CASE Rule = "anyvar"   -> \E v \in 1..NV : VarAll(c, m, ls, v)
               [] Rule = "firstvar" -> VarAll(c, m, ls, 1)
               [] OTHER             -> \A v \in 1..NV : VarAll(c, m, ls, v)

(* itertools.product as an odometer; <<>> when exhausted *)
First == [d \in Dims |-> 1]
CanInc(c) == { d \in Dims : c[d] < Sizes[d] }
Succ(c) == IF CanInc(c) = {} THEN <<>>
           ELSE LET i == CHOOSE d \in CanInc(c) : \A e \in CanInc(c) : e <= d
                IN  [d \in Dims |-> IF d < i THEN c[d] ELSE IF d = i THEN c[d] + 1 ELSE 1]

Report(seq, l) ==
    CASE Rule = "prepend" -> <<l>> \o seq
      [] Rule = "twice"   -> seq \o <<l, l>>
      [] OTHER            -> Append(seq, l)

-----------------------------------------------------------------------------
(* Requests for parse_into_cases.  cases: sequence of settings; combos: sequence of
   [dim, vals] in the order of the mapping given by the caller. *)
Rev(s) == [i \in 1..Len(s) |-> s[Len(s) + 1 - i]]
Upto(n) == [i \in 1..n |-> i]
Blank == [d \in DimsX |-> 0]

Request(kind) ==
    CASE kind = "combos" ->     \* everything as combos, keys in reverse dimension order, values reversed,
                                \* an unknown coordinate value first for the odd dimensions
           [kind  |-> kind,
            cases |-> <<Blank>>,
            combos |-> [i \in 1..ND |->
                          LET d == ND + 1 - i
                          IN  [dim |-> d,
                               vals |-> IF d % 2 = 1 THEN <<Sizes[d] + 1>> \o Rev(Upto(Sizes[d]))
                                                      ELSE Rev(Upto(Sizes[d]))]]]
      [] kind = "cases" ->      \* everything as cases, in reverse grid order, an unknown location second
           [kind  |-> kind,
            cases |-> LET g == Rev(GridByRank)
                          bad == [d \in DimsX |-> IF d = ND THEN Sizes[d] + 1 ELSE IF d < ND THEN 1 ELSE 0]
                      IN  <<AsSetting(g[1]), bad>> \o [i \in 1..(Len(g) - 1) |-> AsSetting(g[i + 1])],
            combos |-> <<>>]
      [] kind = "mixed" ->      \* first dimension by cases (reversed, with an unknown value in the middle),
                                \* the rest by combos in dataset order
           [kind  |-> kind,
            cases |-> LET vs == <<Sizes[1]>> \o <<Sizes[1] + 1>> \o Rev(Upto(Sizes[1] - 1))
                      IN  [i \in 1..Len(vs) |-> [d \in DimsX |-> IF d = 1 THEN vs[i] ELSE 0]],
            combos |-> [i \in 1..(ND - 1) |-> [dim |-> i + 1, vals |-> Upto(Sizes[i + 1])]]]
      [] kind = "foreigncombo" ->   \* every location by cases, plus a combo over a parameter that is not a
                                    \* dimension of the dataset: nothing requested can be present
           [kind  |-> kind,
            cases |-> [i \in 1..NLoc |-> AsSetting(GridByRank[i])],
            combos |-> << [dim |-> ND + 1, vals |-> <<1, 2>>] >>]
      [] kind = "foreigncase" ->    \* every location by cases, every other one also naming the foreign parameter
           [kind  |-> kind,
            cases |-> [i \in 1..NLoc |-> [AsSetting(GridByRank[i]) EXCEPT ![ND + 1] = i % 2]],
            combos |-> <<>>]
      [] kind = "keyorder" ->       \* every location by cases (dicts); every other dict lists its keys in REVERSE
                                    \* order, so that different locations have the same sequence of values
           [kind  |-> kind,
            cases |-> [i \in 1..NLoc |-> AsSetting(GridByRank[i])],
            orders |-> [i \in 1..NLoc |-> IF i % 2 = 0 THEN Rev(Upto(ND)) ELSE Upto(ND)],
            combos |-> <<>>]
      [] kind = "keyordercombo" ->  \* the first two dimensions by such dicts, the others by combos on top
           [kind  |-> kind,
            cases |-> FlattenSeq([a \in 1..Sizes[1] |-> [b \in 1..Sizes[2] |->
                          [d \in DimsX |-> IF d = 1 THEN a ELSE IF d = 2 THEN b ELSE 0]]]),
            orders |-> FlattenSeq([a \in 1..Sizes[1] |-> [b \in 1..Sizes[2] |->
                          IF (a + b) % 2 = 1 THEN <<2, 1>> ELSE <<1, 2>>]]),
            combos |-> [i \in 1..(ND - 2) |-> [dim |-> i + 2, vals |-> Upto(Sizes[i + 2])]]]
      [] kind = "partial" ->    \* only the last dimension is fixed: the whole slab must be null
           [kind  |-> kind,
            cases |-> <<Blank>>,
            combos |-> << [dim |-> ND, vals |-> Upto(Sizes[ND]) \o <<Sizes[ND] + 1>>] >>]

RECURSIVE ApplyCombos(_, _)
ApplyCombos(acc, combos) ==
    IF combos = <<>> THEN acc
    ELSE LET c == Head(combos)
             ext == FlattenSeq([i \in 1..Len(acc) |->
                                  [j \in 1..Len(c.vals) |-> [acc[i] EXCEPT ![c.dim] = c.vals[j]]]])
         IN  ApplyCombos(ext, Tail(combos))

\* for case in cases: for setting in itertools.product of the combo values: merge case and setting
Expand(r) == FlattenSeq([i \in 1..Len(r.cases) |-> ApplyCombos(<<r.cases[i]>>, r.combos)])

(* the order in which each requested dict lists its keys (the property does not depend on it) *)
OrdersOf(r) == IF "orders" \in DOMAIN r THEN r.orders
               ELSE [i \in 1..Len(r.cases) |-> SelectSeq(Upto(ND + 1), LAMBDA d : r.cases[i][d] # 0)]
KeySeq(r, i) == OrdersOf(r)[i] \o [c \in 1..Len(r.combos) |-> r.combos[c].dim]
ExpandKeys(r) == FlattenSeq([i \in 1..Len(r.cases) |->
                    [j \in 1..Len(ApplyCombos(<<r.cases[i]>>, r.combos)) |-> KeySeq(r, i)]])
ValueSeq(r, n) == [i \in 1..Len(r.keys[n]) |-> r.list[n][r.keys[n][i]]]
MakeRequest(q) == LET r == Request(q)
                  IN  [kind |-> r.kind, cases |-> r.cases, combos |-> r.combos, orders |-> OrdersOf(r),
                       list |-> Expand(r), keys |-> ExpandKeys(r)]

UsableReqKinds == { q \in ReqKinds : /\ (q \in {"mixed", "partial", "keyorder"}) => ND >= 2
                                     /\ (q = "keyordercombo") => ND >= 3 }

-----------------------------------------------------------------------------
Init ==
    /\ mode \in Modes
    /\ method \in Methods
    /\ cell0 \in [Locs -> Kinds]
    /\ cell = cell0
    /\ cur = First
    /\ missing = <<>> /\ missing2 = <<>>
    /\ k = 1 /\ newcases = <<>>
    /\ grown = FALSE
    /\ IF mode = "find"
          THEN pc = "scan1" /\ req = [kind |-> "none", cases |-> <<>>, combos |-> <<>>, orders |-> <<>>, list |-> <<>>, keys |-> <<>>]
          ELSE pc = "parse" /\ \E q \in UsableReqKinds : req = MakeRequest(q)

Visit1 ==
    /\ pc = "scan1"
    /\ missing' = IF CodeMissing(cell, method, AsSetting(cur)) THEN Report(missing, cur) ELSE missing
    /\ IF Succ(cur) = <<>> THEN pc' = "harvest" /\ cur' = First
                           ELSE pc' = pc /\ cur' = Succ(cur)
    /\ UNCHANGED <<mode, method, cell0, cell, missing2, req, k, newcases, grown>>

(* harvest_cases(missing): the function is run at exactly the reported locations and its
   results (data in every slot) are merged into the dataset *)
(* The reported cases are TUPLES of coordinate values in the dataset's dimension order; the docs' loop is
       fn_args, cases = find_missing_cases(ds);  h.harvest_cases(cases, fn_args=fn_args)
   and the runner's function may list its arguments in any order sig (a permutation of the dimensions:
   sig[i] = the dimension named by the i-th argument).  Labelling the tuple with the given fn_args puts value i
   on dimension i; labelling it with the signature puts it on dimension sig[i].  Dict cases carry their labels. *)
SigOrders == { p \in [Dims -> Dims] : \A d, e \in Dims : d # e => p[d] # p[e] }
Labelled(case, sig) ==
    IF LabelBy = "given" THEN case
    ELSE [d \in Dims |-> LET i == CHOOSE j \in Dims : sig[j] = d IN case[i]]

HarvestReported ==
    /\ pc = "harvest"
    /\ \E sig \in SigOrders :
         LET targets == { Labelled(missing[i], sig) : i \in 1..Len(missing) }
         IN  /\ cell' = [l \in Locs |-> IF l \in targets THEN [s \in 1..NS |-> "data"] ELSE cell[l]]
             /\ grown' = \E t \in targets : t \notin Locs
    /\ pc' = "scan2"
    /\ UNCHANGED <<mode, method, cell0, cur, missing, missing2, req, k, newcases>>

Visit2 ==
    /\ pc = "scan2"
    /\ missing2' = IF CodeMissing(cell, method, AsSetting(cur)) THEN Report(missing2, cur) ELSE missing2
    /\ IF Succ(cur) = <<>> THEN pc' = "done" /\ cur' = First
                           ELSE pc' = pc /\ cur' = Succ(cur)
    /\ UNCHANGED <<mode, method, cell0, cell, missing, req, k, newcases, grown>>

VisitReq ==
    /\ pc = "parse"
    /\ LET e == req.list          \* the double loop, unrolled once when the request is made
           dup == Rule = "dedupvalues" /\ \E n \in 1..(k - 1) : ValueSeq(req, n) = ValueSeq(req, k)
       IN  /\ newcases' = IF ~dup /\ CodeMissing(cell, method, e[k]) THEN Report(newcases, e[k]) ELSE newcases
           /\ IF k = Len(e) THEN pc' = "harvestreq" /\ k' = k ELSE pc' = pc /\ k' = k + 1
    /\ UNCHANGED <<mode, method, cell0, cell, cur, missing, missing2, req, grown>>

(* harvest_cases(parse_into_cases(...)): the function is run at the locations returned.  Only those that name
   every dimension with a label the dataset has matter for what is missing afterwards. *)
FullLoc(s) == [d \in Dims |-> s[d]]
IsFullLoc(s) == ~Foreign(s) /\ \A d \in Dims : s[d] >= 1 /\ s[d] <= Sizes[d]
HarvestRequested ==
    /\ pc = "harvestreq"
    /\ LET targets == { FullLoc(newcases[i]) : i \in { j \in 1..Len(newcases) : IsFullLoc(newcases[j]) } }
       IN  cell' = [l \in Locs |-> IF l \in targets THEN [s \in 1..NS |-> "data"] ELSE cell[l]]
    /\ pc' = "scan2" /\ cur' = First
    /\ UNCHANGED <<mode, method, cell0, missing, missing2, req, k, newcases, grown>>

Next == Visit1 \/ HarvestReported \/ Visit2 \/ VisitReq \/ HarvestRequested \/ (pc = "done" /\ UNCHANGED vars)

Spec == Init /\ [][Next]_vars

-----------------------------------------------------------------------------
(* INVARIANTS C13 *)

TypeOK == /\ pc \in {"scan1", "harvest", "scan2", "parse", "harvestreq", "done"}
          /\ cur \in Locs

(* locations with any data are never reported *)
NeverReportsData == \A i \in 1..Len(missing) : ~HasData(cell0, method, missing[i])

(* in grid order, hence without duplicates *)
GridOrderNoDup == \A i, j \in 1..Len(missing) : i < j => Rank(missing[i]) < Rank(missing[j])

(* nothing that has been passed over is left out *)
Visited(l) == pc # "scan1" \/ Rank(l) < Rank(cur)
CompleteSoFar == mode = "find" =>
    \A l \in Locs : (Visited(l) /\ ~HasData(cell0, method, l)) => \E i \in 1..Len(missing) : missing[i] = l

(* all three together, once the scan is over *)
ExactlyTheMissing == (mode = "find" /\ pc # "scan1") => missing = OracleMissing(cell0, method)

(* harvesting exactly the reported cases leaves nothing missing *)
SecondScanEmpty == (mode = "find" /\ pc = "done") => missing2 = <<>>
(* ... and no coordinate label the dataset did not already have *)
NoNewLabels == ~grown
HarvestTouchesOnlyReported == mode = "find" =>
    \A l \in Locs : (cell[l] # cell0[l]) => \E i \in 1..Len(missing) : missing[i] = l

(* requested locations: absent coordinates or no data at all, in the order requested *)
ParseExact == (mode = "parse" /\ pc \in {"harvestreq", "done"}) =>
    newcases = SelectSeq(Expand(req), LAMBDA s : WantedS(cell0, method, s))

(* ... whatever order each requested dict lists its keys in; and harvesting what parse_into_cases returned
   leaves no requested location of the dataset without data *)
RequestedNowPresent == (mode = "parse" /\ pc = "done") =>
    \A i \in 1..Len(missing2) :
        ~\E n \in 1..Len(req.list) : IsFullLoc(req.list[n]) /\ FullLoc(req.list[n]) = missing2[i]

-----------------------------------------------------------------------------
(* emission for the replay into the real functions (vx/props/C13.py) *)
CellsOut == [r \in 1..NLoc |-> cell0[GridByRank[r]]]
NPartial == Cardinality({ l \in Locs : HasData(cell0, method, l) /\ \E s \in 1..NS : IsNullP(method, cell0[l][s]) })

EmitCase ==
    pc = "done" =>
        IF mode = "find"
           THEN PrintT(<<"CASE", ToJson([mode |-> mode, method |-> method, cells |-> CellsOut,
                                         missing |-> missing, npartial |-> NPartial])>>)
           ELSE PrintT(<<"CASE", ToJson([mode |-> mode, method |-> method, cells |-> CellsOut,
                                         kind |-> req.kind, cases |-> req.cases, combos |-> req.combos,
                                         orders |-> req.orders, list |-> req.list,
                                         expect |-> newcases, missing2 |-> missing2, npartial |-> NPartial])>>)
=============================================================================
