------------------------------ MODULE Cluster ------------------------------
(***************************************************************************)
(* Property C16.  Generated cluster scripts (Crop.gen_cluster_script) and  *)
(* the command-line grower (xyzpy-grow) as "which batch does task k grow". *)
(*                                                                         *)
(* A crop of B batches has the finished batches res \subseteq 1..B: batch   *)
(* i is finished iff results/ holds the complete file xyz-result-i.jbdmp.  *)
(* Besides those, results/ may hold stray files (stray): the temporary     *)
(* file xyz-result-i.jbdmp.<pid>-<uuid>.tmp a grower left when it was      *)
(* killed while publishing its result, or a copy xyz-result-i.jbdmp.bak.   *)
(* They never make a batch finished.                                       *)
(*                                                                         *)
(*   Gen(s, m, e, o, ord)  gen_cluster_script(crop, s, batch_ids = e,      *)
(*                         mode = m, <resource options o>): chooses the    *)
(*                         ids, the template (all / partial / single), the *)
(*                         header array range, and applies the PBS         *)
(*                         "array of size 1" replacement - step by step as *)
(*                         the function does                               *)
(*   RunTask(k)            the scheduler starts the script with the index  *)
(*                         variable = k, for every k of the header range,  *)
(*                         in any order, each once (k = 0: started once    *)
(*                         with the variable unset - no array line)        *)
(*   StartTask(k),         the same for array tasks that are alive at the  *)
(*   PyTask(k)             same time (conc): the shell part of task k      *)
(*                         (here-document with the index substituted ->    *)
(*                         the program text of the task) and the launcher  *)
(*                         running that program are two steps, interleaved *)
(*                         with the steps of the other tasks               *)
(*   RunSingle             the single-mode script is started once          *)
(*   OtherGrow(b)          somebody else finishes batch b between          *)
(*                         generating and starting a single-mode script    *)
(*                         that computes its ids when it runs              *)
(*   CliGrow(co)           xyzpy-grow <name> --parent-dir <dir> [options]  *)
(*                                                                         *)
(* ran   = array indices whose program ran, in order                       *)
(* hist  = (conc only) the schedule: <<"start", k>> / <<"py", k>> events   *)
(* grown = batch ids grown by the script / the CLI, in order (a bag)       *)
(* want  = the batch ids the property intends: the requested ones, else    *)
(*         the missing ones (for a script that computes them when it runs: *)
(*         those missing when it runs)                                     *)
(***************************************************************************)
EXTENDS Integers, Sequences, FiniteSets, TLC, Json

CONSTANTS Bs,            \* crop sizes (numbers of batches) to explore
          SubsetMaxB,    \* every proper subset of 1..B as initial results for B <= SubsetMaxB
          ExplicitMaxB,  \* every duplicate-free id sequence of length 1..B as batch_ids for B <= ExplicitMaxB
          OrderMax,      \* all task orders for <= OrderMax tasks, else ascending and descending
          OptB,          \* the crop size for which resource options are enumerated (0: none)
          MaxOptGroups,  \* how many option groups may be non-default at once (1..4)
          StrayMaxB,     \* stray files in results/ are enumerated for B <= StrayMaxB
          ConcMax,       \* array jobs of 2..ConcMax tasks are also run as overlapping tasks, every interleaving
          NameBs,        \* crop sizes for which the crop's name is varied
          Variant        \* "code", or a deliberately wrong reading used as self-test of the properties:
                         \* "always_all" (template 'all' although results exist), "cli_all" (CLI grows everything),
                         \* "prefix_match" (any file whose name starts like a result file counts as a result),
                         \* "shared_file" (the program text is kept in one file shared by all tasks of the job),
                         \* "cli_lstrip" (the CLI strips the characters of ".xyz-" from the front of the name)

VARIABLES B, res0, res, stray, explicit, opt, script, order, conc, started, lastw, clob, hist,
          ran, grown, want, other, pc

vars == <<B, res0, res, stray, explicit, opt, script, order, conc, started, lastw, clob, hist,
          ran, grown, want, other, pc>>

Scheds == {"sge", "pbs", "slurm"}
Modes  == {"array", "single"}

Range(s) == {s[i] : i \in DOMAIN s}
Upto(n)  == [i \in 1..n |-> i]
(* the ascending sequence of a finite set of integers *)
Asc(S)   == [i \in 1..Cardinality(S) |-> CHOOSE x \in S : Cardinality({y \in S : y < x}) = i - 1]
Missing(b, r) == (1..b) \ r
(* what the code takes for missing: the batches i without the file xyz-result-i.jbdmp *)
StrayIds == {f[2] : f \in stray}
CodeMissing(b, r) == IF Variant = "prefix_match" THEN (1..b) \ (r \cup StrayIds) ELSE (1..b) \ r
Count(s, x) == Cardinality({i \in DOMAIN s : s[i] = x})
SameBag(s, t) == \A x \in Range(s) \cup Range(t) : Count(s, x) = Count(t, x)
Injective(s) == \A i, j \in DOMAIN s : i # j => s[i] # s[j]

-----------------------------------------------------------------------------
(* What is enumerated. *)

InitialRes(b) ==
    IF b <= SubsetMaxB THEN {r \in SUBSET (1..b) : r # 1..b}
    ELSE {{}, {2}, 1..(b - 1), {x \in 1..b : x % 2 = 0}, (1..b) \ {1, b}}

(* stray files: <<kind, i>>, kind "tmp" (leftover of a killed grower) or "bak"; for missing batches i,
   and once next to a complete result as well *)
StrayChoices(b, r) ==
    IF b > StrayMaxB THEN {{}}
    ELSE {{}} \cup {{<<"tmp", i>>} : i \in Missing(b, r)} \cup {{<<"bak", i>>} : i \in Missing(b, r)}
         \cup {{<<"tmp", i>>, <<"bak", i>>, <<"tmp", j>>} : i \in Missing(b, r), j \in r}

NotGiven == <<>>
ExplicitChoices(b) ==
    {NotGiven} \cup
    (IF b <= ExplicitMaxB
        THEN {s \in UNION {[1..n -> 1..b] : n \in 1..b} : Injective(s)}
        ELSE {<<b>>, <<2>>, <<b, 1>>, <<2, b, 1>>, [i \in 1..b |-> b + 1 - i], Upto(b),
              Asc((1..b) \ {2})})

OptGroups == {"time", "mem", "par", "extra"}
TimeOpts  == {"default", "hms", "h", "m", "s", "number", "fnumber", "string"}
MemOpts   == {"default", "gigabytes", "mem", "percpu"}
ParOpts   == {"default", "procs", "workers_procs", "workers", "workers_threads", "nodes", "mpi"}
ExtraOpts == {"default", "value", "none", "true"}
(* the crop's name, carried with the options: "default" is the harness's usual name; the others start with
   one of the characters of the folder prefix ".xyz-" (x.., y.., z.., -.., ...) or contain ".xyz-" inside.
   Neither the scripts nor the CLI may care: the name is only ever a key, never parsed. *)
NameOpts  == {"default", "x", "y", "z", "dash", "dot", "inner"}
PrefixCharNames == {"x", "y", "z", "dash", "dot"}
DefaultOpt == [time |-> "default", mem |-> "default", par |-> "default", extra |-> "default", name |-> "default"]
AllOpts == {o \in [time : TimeOpts, mem : MemOpts, par : ParOpts, extra : ExtraOpts, name : {"default"}] :
                Cardinality({g \in OptGroups : o[g] # "default"}) <= MaxOptGroups}
NamedOpts == {[DefaultOpt EXCEPT !.name = n] : n \in NameOpts \ {"default"}}
OptChoices(b, r, e) ==
    (IF b = OptB /\ e = NotGiven /\ r \in {{}, {1}} THEN AllOpts ELSE {DefaultOpt})
    \cup (IF b \in NameBs /\ e = NotGiven /\ stray = {} THEN NamedOpts ELSE {})

CliOpts == {"default", "workers", "threads", "quiet", "debug"}

NoScript == [sched |-> "none", mode |-> "none", template |-> "none", ids |-> <<>>,
             dynamic |-> FALSE, range |-> <<>>, fixed |-> FALSE]

Init == /\ B \in Bs
        /\ res0 \in InitialRes(B)
        /\ res = res0
        /\ stray \in StrayChoices(B, res0)
        /\ conc = FALSE /\ started = {} /\ lastw = 0 /\ clob = 0 /\ hist = <<>>
        /\ explicit = NotGiven
        /\ opt = DefaultOpt
        /\ script = NoScript
        /\ order = "asc"
        /\ ran = <<>> /\ grown = <<>> /\ want = <<>> /\ other = 0
        /\ pc = "sown"

-----------------------------------------------------------------------------
(* gen_cluster_script, in the order of the function's own steps. *)

Gen(s, m, e, o, ord, cc) ==
    /\ pc = "sown"
    /\ stray # {} => (e = NotGiven /\ o = DefaultOpt)       \* stray files are explored with batch_ids=None
    /\ LET given    == e # NotGiven
           \* "if batch_ids is not None ... elif crop.num_results == 0 ... else"
           arraymode == IF given THEN "partial"
                        ELSE IF res = {} \/ Variant = "always_all" THEN "all"
                        ELSE "partial"
           ids0     == IF given THEN e
                       ELSE IF arraymode = "all" THEN Upto(B)
                       ELSE Asc(CodeMissing(B, res))
           \* header: "#$ -t", "#PBS -J", "#SBATCH --array" only in array mode; run_start = 1,
           \* run_stop = num_batches ('all') or len(batch_ids) ('partial')
           stop     == IF arraymode = "all" THEN B ELSE Len(ids0)
           \* single mode without requested ids: batch_ids becomes the *text*
           \* "crop.missing_results()" (22 characters), evaluated when the script runs
           dynamic  == m = "single" /\ ~given
           lenopt   == IF dynamic THEN 22 ELSE Len(ids0)
           \* "if scheduler == 'pbs' and len(opts['batch_ids']) == 1": drop "#PBS -J 1-1",
           \* replace $PBS_ARRAY_INDEX by 1
           pbs1     == s = "pbs" /\ lenopt = 1
           arrline  == m = "array" /\ ~(pbs1 /\ stop = 1)
           tasks    == IF arrline THEN stop ELSE 1
       IN  /\ script' = [sched |-> s, mode |-> m,
                         template |-> IF m = "single" THEN "single" ELSE arraymode,
                         ids |-> IF dynamic THEN <<>> ELSE ids0,
                         dynamic |-> dynamic,
                         range |-> IF arrline THEN <<1, stop>> ELSE <<>>,
                         fixed |-> m = "array" /\ pbs1]
           /\ want' = IF given THEN e ELSE Asc(Missing(B, res))
           /\ ord \in (IF m = "single" \/ tasks <= 1 \/ o # DefaultOpt THEN {"asc"}
                       ELSE IF cc THEN {"any"}
                       ELSE IF stray # {} THEN {"desc"}
                       ELSE IF tasks <= OrderMax THEN {"any"} ELSE {"asc", "desc"})
           \* overlapping tasks: array jobs of 2..ConcMax tasks, default options, no stray files,
           \* ids not requested or requested for an un-grown crop
           /\ cc => /\ arrline /\ tasks >= 2 /\ tasks <= ConcMax /\ o = DefaultOpt /\ stray = {}
                     /\ (given => res = {})
    /\ explicit' = e /\ opt' = o /\ order' = ord /\ conc' = cc
    /\ pc' = "generated"
    /\ UNCHANGED <<B, res0, res, stray, started, lastw, clob, hist, ran, grown, other>>

(* the indices the scheduler starts: the header range, or one start without index *)
Tasks == IF script.range = <<>> THEN {0} ELSE script.range[1]..script.range[2]

RunTask(k) ==
    /\ pc \in {"generated", "running"}
    /\ script.mode = "array" /\ ~conc
    /\ k \in Tasks \ Range(ran)
    /\ \/ order = "any"
       \/ order = "asc"  /\ \A j \in Tasks \ Range(ran) : k <= j
       \/ order = "desc" /\ \A j \in Tasks \ Range(ran) : k >= j
    /\ k = 0 => script.fixed           \* without an array line the index variable is unset
    /\ LET idx == IF script.fixed THEN 1 ELSE k
           \* 'all':     grow($ID, ...)
           \* 'partial': grow(batch_ids[$ID - 1], ...)
           b   == IF script.template = "all" THEN idx ELSE script.ids[idx]
       IN  /\ grown' = Append(grown, b)
           /\ res' = res \cup {b}
    /\ ran' = Append(ran, k)
    /\ pc' = IF Range(ran') = Tasks THEN "done" ELSE "running"
    /\ UNCHANGED <<B, res0, stray, explicit, opt, script, order, conc, started, lastw, clob, hist, want, other>>

(* Overlapping tasks.  The shell part of task k expands the here-document with its own index into the
   program text of the task - kept in the task's own memory (a shell variable handed to the launcher
   with -c), so lastw, "whose text was written last", matters only to the wrong reading "shared_file"
   where all tasks keep the text in one file.  PyTask(k): the launcher runs the program of task k. *)
StartTask(k) ==
    /\ pc \in {"generated", "running"}
    /\ script.mode = "array" /\ conc
    /\ k \in Tasks \ (started \cup Range(ran))
    /\ started' = started \cup {k}
    /\ lastw' = k
    /\ hist' = Append(hist, <<"start", k>>)
    /\ pc' = "running"
    /\ UNCHANGED <<B, res0, res, stray, explicit, opt, script, order, conc, clob, ran, grown, want, other>>

PyTask(k) ==
    /\ pc = "running"
    /\ conc /\ k \in started
    /\ LET text == IF Variant = "shared_file" THEN lastw ELSE k     \* whose program text is run
           idx  == IF script.fixed THEN 1 ELSE text
           b    == IF script.template = "all" THEN idx ELSE script.ids[idx]
       IN  /\ grown' = Append(grown, b)
           /\ res' = res \cup {b}
    /\ clob' = clob + (IF lastw # k THEN 1 ELSE 0)    \* another task passed its shell part in between
    /\ started' = started \ {k}
    /\ ran' = Append(ran, k)
    /\ hist' = Append(hist, <<"py", k>>)
    /\ pc' = IF Range(ran') = Tasks THEN "done" ELSE "running"
    /\ UNCHANGED <<B, res0, stray, explicit, opt, script, order, conc, lastw, want, other>>

RunSingle ==
    /\ pc = "generated"
    /\ script.mode = "single"
    /\ LET todo == IF script.dynamic THEN Asc(CodeMissing(B, res)) ELSE script.ids
       IN  /\ grown' = grown \o todo
           /\ res' = res \cup Range(todo)
    /\ ran' = <<0>>
    /\ pc' = "done"
    /\ UNCHANGED <<B, res0, stray, explicit, opt, script, order, conc, started, lastw, clob, hist, want, other>>

OtherGrow(b) ==
    /\ pc = "generated"
    /\ script.dynamic
    /\ other = 0
    /\ b \in Missing(B, res)
    /\ Cardinality(Missing(B, res)) >= 2
    /\ res' = res \cup {b}
    /\ other' = b
    /\ want' = SelectSeq(want, LAMBDA x : x # b)     \* "currently missing" when the script runs
    /\ UNCHANGED <<B, res0, stray, explicit, opt, script, order, conc, started, lastw, clob, hist, ran, grown, pc>>

(* xyzpy-grow: crop.grow_missing() *)
CliGrow(co, nm) ==
    /\ pc = "sown"
    /\ nm # "default" => (co = "default" /\ stray = {} /\ B \in NameBs)
    /\ LET todo == IF Variant = "cli_all" THEN Upto(B)
                   ELSE IF Variant = "cli_lstrip" /\ nm \in PrefixCharNames THEN <<>>   \* crop not found
                   ELSE Asc(CodeMissing(B, res))
       IN  /\ grown' = todo
           /\ res' = res \cup Range(todo)
    /\ want' = Asc(Missing(B, res))
    /\ script' = [NoScript EXCEPT !.sched = "cli", !.mode = "cli", !.template = "cli", !.dynamic = TRUE]
    /\ opt' = [DefaultOpt EXCEPT !.par = co, !.name = nm]
    /\ ran' = <<0>>
    /\ pc' = "done"
    /\ UNCHANGED <<B, res0, stray, explicit, order, conc, started, lastw, clob, hist, other>>

(* One named action per kind of step (TLC reports coverage per named disjunct of Next); the
   guards on pc are repeated in front of the quantifiers only to spare TLC the enumeration. *)
GenScript  == /\ pc = "sown"
              /\ \E s \in Scheds, m \in Modes, e \in ExplicitChoices(B), ord \in {"any", "asc", "desc"} :
                   \E o \in OptChoices(B, res, e), cc \in BOOLEAN : Gen(s, m, e, o, ord, cc)
RunArray   == /\ pc \in {"generated", "running"}
              /\ \E k \in Tasks : RunTask(k)
StartShell == /\ pc \in {"generated", "running"}
              /\ \E k \in Tasks : StartTask(k)
RunPython  == /\ pc = "running"
              /\ \E k \in started : PyTask(k)
Interfere  == /\ pc = "generated"
              /\ \E b \in 1..B : OtherGrow(b)
RunCli     == /\ pc = "sown"
              /\ \E co \in CliOpts, nm \in NameOpts : CliGrow(co, nm)
Finished   == pc = "done" /\ UNCHANGED vars

Next == GenScript \/ RunArray \/ StartShell \/ RunPython \/ RunSingle \/ Interfere \/ RunCli \/ Finished

Spec == Init /\ [][Next]_vars

-----------------------------------------------------------------------------
(* The property. *)

Done == pc = "done"

TypeOK ==
    /\ B \in Bs /\ res \subseteq 1..B /\ res0 \subseteq res
    /\ pc \in {"sown", "generated", "running", "done"}
    /\ Range(grown) \subseteq 1..B
    /\ script.mode = "array" => Range(ran) \subseteq Tasks /\ started \subseteq Tasks
    /\ \A f \in stray : f[1] \in {"tmp", "bak"} /\ f[2] \in 1..B

(* exactly the intended batches, each once *)
GrownExact == Done => SameBag(grown, want) /\ Injective(grown)

(* every array index of the header is started exactly once (by construction of RunTask) *)
TasksOnce == (Done /\ script.mode = "array") => Range(ran) = Tasks /\ Injective(ran)

(* the header range covers exactly the tasks 1..|ids|; PBS cannot run arrays of size one:
   there the array line is dropped and the index is the literal 1 *)
RangeExact ==
    (pc # "sown" /\ script.mode = "array") =>
        \/ script.range = <<1, Len(want)>> /\ ~script.fixed
        \/ script.sched = "pbs" /\ Len(want) = 1 /\ script.range = <<>> /\ script.fixed

Others == IF other = 0 THEN {} ELSE {other}

(* afterwards the finished batches are the old ones plus the intended ones, and the crop is
   ready to reap whenever the intended ids included everything that was missing *)
ReadyAfter ==
    Done => /\ res = res0 \cup Range(want) \cup Others
            /\ (Missing(B, res0) \subseteq Range(want) \cup Others) => res = 1..B

-----------------------------------------------------------------------------
(* Emission of every explored terminal behaviour for the replay (vx/props/C16.py). *)
EmitCase ==
    Done =>
        PrintT(<<"CASE", ToJson([B |-> B, res0 |-> Asc(res0), explicit |-> explicit,
                                 given |-> explicit # NotGiven, opt |-> opt,
                                 sched |-> script.sched, mode |-> script.mode,
                                 template |-> script.template, ids |-> script.ids,
                                 dynamic |-> script.dynamic,
                                 range |-> script.range, fixed |-> script.fixed,
                                 order |-> order, ran |-> ran, grown |-> grown, want |-> want,
                                 stray |-> [i \in 1..Cardinality(stray) |->
                                              CHOOSE f \in stray : Cardinality({g \in stray :
                                                  g[2] < f[2] \/ (g[2] = f[2] /\ g[1] = "bak" /\ f[1] = "tmp")}) = i - 1],
                                 conc |-> conc, hist |-> hist, clobbered |-> clob,
                                 other |-> other, res |-> Asc(res), missing |-> Asc(Missing(B, res)),
                                 ready |-> res = 1..B])>>)
=============================================================================
