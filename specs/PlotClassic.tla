---------------------------- MODULE PlotClassic ----------------------------
(***************************************************************************)
(* Property C17.  What xyzpy's classic plots (lineplot, scatter,          *)
(* histogram, heatmap and their auto_* variants, matplotlib backend) draw, *)
(* as a machine with one action per step the code takes:                   *)
(*                                                                         *)
(*   SetCell / SetSeries / Start   the environment builds the Dataset:     *)
(*                 every cell of y (and of x when x is a variable) is      *)
(*                 finite, NaN or +-inf                                    *)
(*   Prepare       prepare_data_single / prepare_data_multi_grid:          *)
(*                 calc_use_legend_or_colorbar and calc_color_norm         *)
(*   BeginPanel    mpl_multi_plot: next (row, col) slice, in coordinate    *)
(*                 order, column title on the first grid row, row label    *)
(*                 on the last grid column                                 *)
(*   DrawSeries    one turn of gen_xy / gen_x + plot_lines / plot_scatter  *)
(*                 / gen_ind_plots: select the series, broadcast, flatten, *)
(*                 drop the non-finite pairs, pick label and colour        *)
(*   DrawMesh      prepare_heatmap_data + plot_heatmap                     *)
(*   EndPanel      back to mpl_multi_plot                                  *)
(*   Finish        plot_legend / plot_colorbar                             *)
(*                                                                         *)
(* A dataset is abstract: cells are numbered                               *)
(*    Idx(r, c, z, k) = (((r-1)*C + (c-1))*NZ + (z-1))*NX + k              *)
(* (r, c grid coordinates, z the series - z coordinate value, variable or  *)
(* heat-map row - and k the position along the series) and carry only      *)
(* "f" (finite), "n" (NaN) or "i" (infinite).  The harness gives cell i a  *)
(* value that encodes i, so a drawn point is identified by its value.      *)
(* Quantities that colours are computed from are integer "positions"       *)
(* (ZPos for the z coordinate, CTab for a separate colour variable, the    *)
(* cell number for a heat map); the harness maps positions to concrete     *)
(* values by an increasing affine map (or 2^position under a logarithmic   *)
(* norm), which leaves the normalised value - a rational <<num, den>> -    *)
(* unchanged.                                                              *)
(*                                                                         *)
(* Variant = "ok" is the machine the property demands.  The other values   *)
(* are deliberately wrong machines (one realistic slip each) used to show  *)
(* that the invariants are not vacuous: TLC must reject every one.         *)
(***************************************************************************)
EXTENDS Integers, Sequences, FiniteSets, TLC, Json

CONSTANTS Configs,    \* set of configuration records, see vx/props/C17.py:make_cfg
          Variant     \* "ok" | "xonly" | "notnan" | "zdata" | "revz" | "transpose"
                      \* | "colz" | "panellim" | "inplace" | "dropempty" | "auxmask"
                      \* | "rotgrid"

VARIABLES cfg,        \* the configuration chosen
          pc,         \* "setup" | "prepare" | "panel" | "series" | "finish" | "done"
          ym, xm,     \* masks of y (values / heat-map variable) and of x (when a variable)
          am,         \* mask of the auxiliary per-point variable (y_err / x_err, or scatter's c) when cfg.aux
          cur, bad,   \* set-up cursor and number of non-finite choices made so far
          ym0, xm0,   \* the dataset as handed to the plotting function
          useLegend, useCbar, lim,   \* decided by Prepare
          gi, gj,     \* grid position of the current panel
          zi,         \* turn of the series loop
          panels,     \* panels begun: [gi, gj, ct, rt] (ct/rt: coordinate named by the title, 0 if none)
          drawn,      \* what has been drawn, in drawing order
          fin         \* <<legend drawn, colour bar drawn>>

vars == <<cfg, pc, ym, xm, am, cur, bad, ym0, xm0, useLegend, useCbar, lim, gi, gj, zi, panels, drawn, fin>>

-----------------------------------------------------------------------------
R == IF cfg.NR = 0 THEN 1 ELSE cfg.NR
C == IF cfg.NC = 0 THEN 1 ELSE cfg.NC
nx == cfg.NX
nz == cfg.NZ
NCells == R * C * nz * nx
AOff == IF cfg.xvar THEN 2 * NCells ELSE NCells          \* where the cells of the auxiliary variable start
Total == IF cfg.aux THEN AOff + NCells ELSE AOff
AuxFin(i) == cfg.aux => am[i] = "f"
Idx(r, c, z, k) == (((r - 1) * C + (c - 1)) * nz + (z - 1)) * nx + k
SIdx(r, c, z) == ((r - 1) * C + (c - 1)) * nz + z

SetMin(S) == CHOOSE a \in S : \A b \in S : a <= b
SetMax(S) == CHOOSE a \in S : \A b \in S : a >= b
Elems(s) == { s[i] : i \in 1..Len(s) }

-----------------------------------------------------------------------------
(* Building the dataset.  The cursor walks the cells of y, then of x; at most
   cfg.maxbad non-finite choices are made; a whole series may be made NaN at
   the price of one (so that all-NaN series occur under a small budget too). *)

Init == /\ cfg \in Configs
        /\ pc = "setup"
        /\ ym = [i \in 1..NCells |-> "f"]
        /\ xm = [i \in 1..(IF cfg.xvar THEN NCells ELSE 0) |-> "f"]
        /\ am = [i \in 1..(IF cfg.aux THEN NCells ELSE 0) |-> "f"]
        /\ cur = 0 /\ bad = 0
        /\ ym0 = <<>> /\ xm0 = <<>>
        /\ useLegend = FALSE /\ useCbar = FALSE /\ lim = <<>>
        /\ gi = 0 /\ gj = 0 /\ zi = 0
        /\ panels = <<>> /\ drawn = <<>> /\ fin = <<>>

SetCell ==
    /\ pc = "setup" /\ cur < Total
    /\ \E v \in (IF cur >= AOff THEN cfg.avals ELSE cfg.vals) :
          /\ v = "f" \/ bad < cfg.maxbad
          /\ IF cur < NCells
                THEN ym' = [ym EXCEPT ![cur + 1] = v] /\ xm' = xm /\ am' = am
                ELSE IF cur < AOff
                THEN xm' = [xm EXCEPT ![cur + 1 - NCells] = v] /\ ym' = ym /\ am' = am
                ELSE am' = [am EXCEPT ![cur + 1 - AOff] = v] /\ ym' = ym /\ xm' = xm
          /\ bad' = IF v = "f" THEN bad ELSE bad + 1
    /\ cur' = cur + 1
    /\ UNCHANGED <<cfg, pc, ym0, xm0, useLegend, useCbar, lim, gi, gj, zi, panels, drawn, fin>>

SetSeries ==
    /\ pc = "setup" /\ cfg.whole /\ nx > 1
    /\ cur < NCells /\ cur % nx = 0 /\ bad < cfg.maxbad
    /\ ym' = [i \in 1..NCells |-> IF i > cur /\ i <= cur + nx THEN "n" ELSE ym[i]]
    /\ cur' = cur + nx
    /\ bad' = bad + 1
    /\ UNCHANGED <<cfg, pc, xm, am, ym0, xm0, useLegend, useCbar, lim, gi, gj, zi, panels, drawn, fin>>

Start ==
    /\ pc = "setup" /\ cur = Total
    /\ pc' = "prepare"
    /\ ym0' = ym /\ xm0' = xm
    /\ bad' = 0
    /\ UNCHANGED <<cfg, ym, xm, am, cur, useLegend, useCbar, lim, gi, gj, zi, panels, drawn, fin>>

-----------------------------------------------------------------------------
(* calc_use_legend_or_colorbar, transcribed.  "auto" = option left at None. *)
AutoLegend == 1 < nz /\ nz <= 10
HasC == cfg.colour = "c"
L1 == IF cfg.colorbar = "on" /\ cfg.legend = "auto"
         THEN (IF ~HasC THEN "off" ELSE IF AutoLegend THEN "on" ELSE "off")
         ELSE cfg.legend
B1 == IF L1 = "on" /\ cfg.colorbar = "auto"
         THEN (IF ~HasC THEN "off" ELSE "on")
         ELSE cfg.colorbar
UseLegend == IF cfg.kind = "heat" THEN FALSE            \* heat maps: legend=False, colorbar=True by default
             ELSE IF L1 = "auto" /\ B1 = "auto" THEN AutoLegend ELSE L1 = "on"
UseCbar == IF cfg.kind = "heat" THEN cfg.colorbar # "off"
           ELSE IF L1 = "auto" /\ B1 = "auto"
              THEN ((~AutoLegend /\ cfg.colour = "z") \/ HasC)
              ELSE B1 = "on"

(* calc_color_norm: the limits of the quantity colours are computed from, over the
   WHOLE dataset (all panels, masked points included), unless given by zlims. *)
FiniteCells == { i \in 1..NCells : ym[i] = "f" }
AllQ == IF cfg.kind = "heat" THEN FiniteCells
        ELSE IF cfg.colour = "c" /\ cfg.kind = "scatter" THEN { cfg.CTab[i] : i \in { j \in 1..NCells : AuxFin(j) } }
        ELSE IF cfg.colour = "c" THEN Elems(cfg.CTab)
        ELSE Elems(cfg.ZPos)
Limits == IF cfg.lims # <<>> THEN cfg.lims
          ELSE IF AllQ = {} THEN <<>>
          ELSE <<SetMin(AllQ), SetMax(AllQ)>>
Mapped == cfg.kind = "heat" \/ cfg.colour \in {"z", "c"}

Prepare ==
    /\ pc = "prepare"
    /\ useLegend' = UseLegend
    /\ useCbar' = UseCbar
    /\ lim' = IF Mapped /\ ~(cfg.colour = "z" /\ cfg.even) THEN Limits ELSE <<>>
    /\ gi' = 1 /\ gj' = 1
    /\ pc' = "panel"
    /\ UNCHANGED <<cfg, ym, xm, am, cur, bad, ym0, xm0, zi, panels, drawn, fin>>

-----------------------------------------------------------------------------
BeginPanel ==
    /\ pc = "panel"
    /\ panels' = Append(panels, [gi |-> gi, gj |-> gj,
                                 ct |-> IF gi = 1 /\ cfg.NC > 0 THEN gj ELSE 0,
                                 rt |-> IF gj = C /\ cfg.NR > 0 THEN gi ELSE 0])
    /\ zi' = 1
    /\ pc' = "series"
    /\ UNCHANGED <<cfg, ym, xm, am, cur, bad, ym0, xm0, useLegend, useCbar, lim, gi, gj, drawn, fin>>

(* the slice the current panel's data is taken from *)
SrcR == IF Variant = "transpose" /\ R = C THEN gj
        ELSE IF Variant = "rotgrid" THEN (gi % R) + 1          \* slices taken in another order than the titles
        ELSE gi
SrcC == IF Variant = "transpose" /\ R = C THEN gi ELSE gj

XFin(r, c, z, k) == cfg.xvar => xm[Idx(r, c, z, k)] = "f"
YFin(r, c, z, k) == ym[Idx(r, c, z, k)] = "f"

(* not_null = isfinite(x) & isfinite(y)   (for a histogram: isfinite(x) of the values) *)
NotNull(r, c, z, k) ==
    CASE Variant = "xonly"  -> XFin(r, c, z, k)
      [] Variant = "notnan" -> ym[Idx(r, c, z, k)] # "n" /\ (cfg.xvar => xm[Idx(r, c, z, k)] # "n")
      [] Variant = "auxmask" -> XFin(r, c, z, k) /\ YFin(r, c, z, k) /\ AuxFin(Idx(r, c, z, k))
      [] OTHER              -> XFin(r, c, z, k) /\ YFin(r, c, z, k)

RECURSIVE Keep(_, _, _, _)
Keep(r, c, z, k) ==
    IF k > nx THEN <<>>
    ELSE (IF NotNull(r, c, z, k) THEN <<k>> ELSE <<>>) \o Keep(r, c, z, k + 1)

(* normalised value of quantity q as a rational; <<0, 0>> when the limits coincide
   (degenerate: the property does not say which colour a single value gets) *)
Norm(q, l) == IF l = <<>> \/ l[1] = l[2] THEN <<0, 0>> ELSE <<q - l[1], l[2] - l[1]>>

PanelLimits(r, c) ==
    IF cfg.lims # <<>> THEN cfg.lims
    ELSE LET S == IF cfg.colour = "c"
                     THEN IF cfg.kind = "scatter"
                             THEN { cfg.CTab[Idx(r, c, z, k)] : z \in 1..nz, k \in 1..nx }
                             ELSE { cfg.CTab[SIdx(r, c, z)] : z \in 1..nz }
                     ELSE Elems(cfg.ZPos)
         IN  <<SetMin(S), SetMax(S)>>

UsedLimits(r, c) == IF Variant = "panellim" THEN PanelLimits(r, c) ELSE lim

SeriesColour(r, c, z, turn) ==
    IF cfg.colour = "none" \/ (cfg.colour = "c" /\ cfg.kind = "scatter") THEN <<>>
    ELSE IF cfg.colour = "z" /\ cfg.even
            THEN (IF nz = 1 THEN <<0, 1>> ELSE <<turn - 1, nz - 1>>)       \* linspace(0, 1, n)
    ELSE IF cfg.colour = "c" /\ Variant # "colz"
            THEN Norm(cfg.CTab[SIdx(r, c, z)], UsedLimits(r, c))
    ELSE Norm(cfg.ZPos[z], IF cfg.colour = "c" THEN <<SetMin(Elems(cfg.ZPos)), SetMax(Elems(cfg.ZPos))>>
                           ELSE UsedLimits(r, c))

PointColours(r, c, z, pts) ==
    IF cfg.colour = "c" /\ cfg.kind = "scatter"
       THEN [j \in 1..Len(pts) |-> IF AuxFin(Idx(r, c, z, pts[j]))
                                       THEN Norm(cfg.CTab[Idx(r, c, z, pts[j])], UsedLimits(r, c))
                                       ELSE <<0, 0>>]          \* no colour value at this point: nothing demanded
       ELSE <<>>

DrawSeries ==
    /\ pc = "series" /\ cfg.kind # "heat" /\ zi <= nz
    /\ LET lab  == IF Variant = "revz" THEN nz + 1 - zi ELSE zi          \* series whose turn it is
           dz   == IF Variant = "zdata" THEN nz + 1 - lab ELSE lab        \* series whose data is selected
           pts  == Keep(SrcR, SrcC, dz, 1)
       IN  /\ IF Variant = "dropempty" /\ pts = <<>>
                 THEN drawn' = drawn
                 ELSE drawn' = Append(drawn, [r |-> gi, c |-> gj, s |-> lab, pts |-> pts,
                                              col |-> SeriesColour(SrcR, SrcC, lab, zi),
                                              pcol |-> PointColours(SrcR, SrcC, dz, pts)])
           /\ IF Variant = "inplace"
                 THEN ym' = [i \in 1..NCells |->
                               IF \E k \in 1..nx : i = Idx(SrcR, SrcC, dz, k) /\ ym[i] # "f" THEN "f" ELSE ym[i]]
                 ELSE ym' = ym
    /\ zi' = zi + 1
    /\ UNCHANGED <<cfg, pc, xm, am, cur, bad, ym0, xm0, useLegend, useCbar, lim, gi, gj, panels, fin>>

PanelFinite(r, c) == { i \in FiniteCells : \E j \in 1..nz, k \in 1..nx : i = Idx(r, c, j, k) }
UsedLimitsHeat ==
    IF Variant = "panellim"
       THEN (IF PanelFinite(SrcR, SrcC) = {} THEN <<>>
             ELSE <<SetMin(PanelFinite(SrcR, SrcC)), SetMax(PanelFinite(SrcR, SrcC))>>)
       ELSE lim

(* masked_invalid(ds[z].transpose(y, x)): row j of the mesh is heat-map row j, column k is x position k *)
DrawMesh ==
    /\ pc = "series" /\ cfg.kind = "heat" /\ zi = 1
    /\ drawn' = Append(drawn, [r |-> gi, c |-> gj,
                               cells |-> [j \in 1..nz |-> [k \in 1..nx |->
                                    LET i == IF Variant = "transpose" /\ nx = nz /\ R * C = 1
                                                THEN Idx(SrcR, SrcC, k, j) ELSE Idx(SrcR, SrcC, j, k)
                                    IN  IF (IF Variant = "notnan" THEN ym[i] # "n" ELSE ym[i] = "f") THEN i ELSE 0]],
                               lim |-> UsedLimitsHeat])
    /\ zi' = nz + 1
    /\ UNCHANGED <<cfg, pc, ym, xm, am, cur, bad, ym0, xm0, useLegend, useCbar, lim, gi, gj, panels, fin>>

EndPanel ==
    /\ pc = "series" /\ zi > nz
    /\ IF gj < C THEN gj' = gj + 1 /\ gi' = gi /\ pc' = "panel"
       ELSE IF gi < R THEN gj' = 1 /\ gi' = gi + 1 /\ pc' = "panel"
       ELSE gj' = gj /\ gi' = gi /\ pc' = "finish"
    /\ UNCHANGED <<cfg, ym, xm, am, cur, bad, ym0, xm0, useLegend, useCbar, lim, zi, panels, drawn, fin>>

Finish ==
    /\ pc = "finish"
    /\ fin' = <<useLegend, useCbar>>
    /\ pc' = "done"
    /\ UNCHANGED <<cfg, ym, xm, am, cur, bad, ym0, xm0, useLegend, useCbar, lim, gi, gj, zi, panels, drawn>>

Next == \/ SetCell \/ SetSeries \/ Start \/ Prepare \/ BeginPanel \/ DrawSeries \/ DrawMesh \/ EndPanel \/ Finish
        \/ (pc = "done" /\ UNCHANGED vars)

Spec == Init /\ [][Next]_vars

-----------------------------------------------------------------------------
(* The property, stated on what has been drawn, independently of how the machine got there. *)

TypeOK == /\ pc \in {"setup", "prepare", "panel", "series", "finish", "done"}
          /\ cfg \in Configs
          /\ \A i \in 1..Len(ym) : ym[i] \in {"f", "n", "i"}
          /\ \A i \in 1..Len(xm) : xm[i] \in {"f", "n", "i"}
          /\ \A i \in 1..Len(am) : am[i] \in {"f", "n", "i"}

Entries(r, c) == SelectSeq(drawn, LAMBDA d : d.r = r /\ d.c = c)
PanelDone(r, c) == pc \in {"finish", "done"} \/ (r < gi) \/ (r = gi /\ c < gj) \/ (r = gi /\ c = gj /\ pc = "series" /\ zi > nz)

(* one drawn series per z value / variable, in order, labelled with it - an all-NaN
   series is an empty series, not a missing one; one mesh per panel for a heat map *)
OneSeriesEach ==
    \A r \in 1..R, c \in 1..C :
        PanelDone(r, c) /\ pc # "setup" /\ pc # "prepare" =>
            LET e == Entries(r, c)
            IN  IF cfg.kind = "heat" THEN Len(e) = 1
                ELSE /\ Len(e) = nz
                     /\ \A i \in 1..nz : e[i].s = i

(* (the auxiliary variable's mask am does not occur below: a point whose error-bar or
   colour value is NaN / inf is still one of the dataset's finite (x, y) pairs)
   the points of a series are exactly the positions where x and y are both finite
   (histogram: where the value is finite), each once, in order - in the panel
   titled with the slice's coordinates *)
PointsExact ==
    cfg.kind # "heat" =>
    \A i \in 1..Len(drawn) :
        LET d == drawn[i]
        IN  /\ \A k \in 1..nx :
                  (\E j \in 1..Len(d.pts) : d.pts[j] = k)
                      <=> (ym0[Idx(d.r, d.c, d.s, k)] = "f" /\ (cfg.xvar => xm0[Idx(d.r, d.c, d.s, k)] = "f"))
            /\ \A j \in 1..(Len(d.pts) - 1) : d.pts[j] < d.pts[j + 1]

(* heat map: cell (row j, column k) shows the value of cell Idx(r, c, j, k), or nothing *)
MeshExact ==
    cfg.kind = "heat" =>
    \A i \in 1..Len(drawn) :
        LET d == drawn[i]
        IN  \A j \in 1..nz, k \in 1..nx :
                d.cells[j][k] = IF ym0[Idx(d.r, d.c, j, k)] = "f" THEN Idx(d.r, d.c, j, k) ELSE 0

(* colour = colour map at the normalised value of the z coordinate / the colour variable,
   normalised over the whole dataset (or the given limits); evenly spaced for strings *)
GlobalLimits ==
    IF cfg.lims # <<>> THEN cfg.lims
    ELSE IF cfg.kind = "heat" THEN (IF FiniteCells = {} THEN <<>> ELSE <<SetMin(FiniteCells), SetMax(FiniteCells)>>)
    ELSE IF cfg.colour = "c" /\ cfg.kind = "scatter"
            THEN LET S == { cfg.CTab[i] : i \in { j \in 1..NCells : AuxFin(j) } }
                 IN  IF S = {} THEN <<>> ELSE <<SetMin(S), SetMax(S)>>
    ELSE IF cfg.colour = "c" THEN <<SetMin(Elems(cfg.CTab)), SetMax(Elems(cfg.CTab))>>
    ELSE <<SetMin(Elems(cfg.ZPos)), SetMax(Elems(cfg.ZPos))>>

IsNorm(col, q, l) ==       \* col = (q - lo) / (hi - lo), by cross-multiplication
    IF l = <<>> \/ l[1] = l[2] THEN col = <<0, 0>>
    ELSE col[2] > 0 /\ col[1] * (l[2] - l[1]) = (q - l[1]) * col[2]

ColourExact ==
    pc \notin {"setup", "prepare"} =>
    \A i \in 1..Len(drawn) :
        LET d == drawn[i]
        IN  CASE cfg.kind = "heat" -> d.lim = GlobalLimits
              [] cfg.colour = "none" -> d.col = <<>> /\ d.pcol = <<>>
              [] cfg.colour = "z" /\ cfg.even ->
                    d.col[1] * (IF nz = 1 THEN 1 ELSE nz - 1) = (d.s - 1) * d.col[2] /\ d.col[2] > 0
              [] cfg.colour = "z" -> IsNorm(d.col, cfg.ZPos[d.s], GlobalLimits)
              [] cfg.colour = "c" /\ cfg.kind = "scatter" ->
                    /\ Len(d.pcol) = Len(d.pts)
                    /\ \A j \in 1..Len(d.pts) :
                          IF AuxFin(Idx(d.r, d.c, d.s, d.pts[j]))
                             THEN IsNorm(d.pcol[j], cfg.CTab[Idx(d.r, d.c, d.s, d.pts[j])], GlobalLimits)
                             ELSE d.pcol[j] = <<0, 0>>
              [] OTHER -> IsNorm(d.col, cfg.CTab[SIdx(d.r, d.c, d.s)], GlobalLimits)

(* each panel is titled with the coordinate of the slice drawn in it (the data side of
   this is PointsExact / MeshExact, which read the cells at (d.r, d.c)) *)
PanelsTitled ==
    \A i \in 1..Len(panels) :
        LET p == panels[i]
        IN  /\ (p.gi = 1 /\ cfg.NC > 0) => p.ct = p.gj
            /\ (p.gj = C /\ cfg.NR > 0) => p.rt = p.gi
            /\ \A j \in 1..Len(panels) : (panels[j].gi = p.gi /\ panels[j].gj = p.gj) => j = i

(* plotting never modifies the dataset passed in *)
DatasetUnchanged == pc \notin {"setup"} => (ym = ym0 /\ xm = xm0)

(* legend iff 1 < #series <= 10 unless forced; colour bar iff colour-mapped and no legend, or c given *)
FinishRule == pc = "done" => fin = <<UseLegend, UseCbar>>

-----------------------------------------------------------------------------
(* every finished drawing, with the input that led to it, for the replay into the real code *)
EmitCase ==
    pc = "done" =>
        PrintT(<<"CASE", ToJson([id |-> cfg.id, ym |-> ym0, xm |-> xm0, am |-> am, drawn |-> drawn, panels |-> panels,
                                 legend |-> fin[1], cbar |-> fin[2], lim |-> lim])>>)
=============================================================================
