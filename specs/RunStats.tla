------------------------------ MODULE RunStats ------------------------------
(***************************************************************************)
(* Property C19.  Two machines over exact integers (no reals are needed).  *)
(*                                                                         *)
(* 1. SpecStats - xyzpy.utils.RunningStatistics / RunningCovariance /      *)
(*    RunningCovarianceMatrix.  Every accumulator of the code (one         *)
(*    RunningCovariance per pair i <= j of the K series; RunningStatistics *)
(*    is the diagonal instance x = y) holds count, xmean, ymean, C.  The   *)
(*    model keeps their integer images                                     *)
(*          n = count,  sx = count*xmean,  sy = count*ymean,  u = count*C  *)
(*    and performs the update the code performs                            *)
(*          dx = x - xmean ; xmean += dx/count ; ymean += dy/count ;       *)
(*          C += dx * (y - ymean_new)                                      *)
(*    rewritten over these integers:                                       *)
(*          u' = ((n+1)*u + (n*x - sx)*(n*y - sy)) / n                     *)
(*    with the division asserted exact (field ok).                         *)
(*    Actions: Update(x)       one sample, every pair advanced once        *)
(*                             (RunningCovarianceMatrix.update)            *)
(*             UpdateChunk(c)  update_from_it: per pair, the updates of    *)
(*                             the chunk in order                          *)
(*             Permute(p)      the same sample fed in the order p to a     *)
(*                             fresh accumulator st2                       *)
(*    Invariants: WholeSample  st = statistics computed from the whole     *)
(*                             history at once (n, sums, n*Sxy - Sx*Sy),   *)
(*                             all divisions exact                         *)
(*                OrderFree    st2 = st                                    *)
(*    => count/mean/var/std/err/covar are functions of the multiset of     *)
(*    samples: independent of order and of chunking.                       *)
(*                                                                         *)
(* 2. SpecStop - estimate_from_repeats as a loop machine, one action per   *)
(*    step of the loop body:                                               *)
(*       Draw(x)        x = fn(...)            (calls to fn counted)       *)
(*       Absorb         rs.update(x)                                       *)
(*       SkipCheck      i > min_samples is false                           *)
(*       Check          rs.converged(rtol, tol_scale*rtol) evaluated       *)
(*       StopConverged  break                                              *)
(*       StopLimit      i >= max_samples - 1: break                        *)
(*       Loop           next i                                             *)
(*    The predicate err < rtol*|mean| + rtol*tol_scale is decided exactly  *)
(*    on squares:  with rtol = p/q, tol_scale = a/b, err^2 = u/n^3,        *)
(*         u*q^2*b^2  <  n*p^2*(|sx|*b + n*a)^2                            *)
(*    equality is flagged as a tie (the floating-point code may go either  *)
(*    way) and ends the behaviour.                                         *)
(*    Invariants: StopSound (stopped => converged on the whole drawn       *)
(*    sample, or count = max_samples), NeverExceeds, ExactlyDrawn (stats   *)
(*    are those of the drawn prefix; calls to fn = count), AsCoded (count  *)
(*    >= min(min_samples + 2, max_samples): what the code does, not part   *)
(*    of the property).                                                    *)
(*                                                                         *)
(* Variant selects the code ("code") or a deliberately wrong machine that  *)
(* TLC must reject (non-vacuity self-test):                                *)
(*    "oldmean"   C += dx*dy with dy taken before the mean moved           *)
(*    "limit1"    the limit test reads i >= max_samples                    *)
(*    "nocheck"   break without looking at the convergence predicate       *)
(*                                                                         *)
(* TLC integers are 32 bit: with samples in -3..3 the largest product is   *)
(* (n+1)*u <= 9*n^2*(n+1) < 2^31 for n <= 500; with samples in {-1, 1}     *)
(* (n+1)*u <= n^2*(n+1) < 2^31 for n <= 1289, which is how far the stop    *)
(* machine is simulated (NeverExceeds etc. are stated for every mx; longer *)
(* runs are checked by the harness against the same rule).  TLC aborts on  *)
(* overflow.                                                               *)
(***************************************************************************)
EXTENDS Integers, Sequences, FiniteSets, TLC, Json

CONSTANTS K,          \* number of series (stats machine); the stop machine uses series 1 only
          Samples,    \* sample alphabet: set of K-tuples of integers
          MinLen,     \* Permute only once this many samples were fed
          MaxLen,     \* longest history
          MaxChunk,   \* longest argument of update_from_it (0: no chunked updates)
          PermKinds,  \* subset of {"id", "rev", "rot", "swap", "oddeven", "all"}
          TrackCalls, \* TRUE: remember how the history was cut into calls (needed for emission)
          Variant,    \* "code", or a buggy variant (see above)
          Params      \* stop machine: set of [p, q, a, b, mn, mx]  (rtol = p/q, tol_scale = a/b)

VARIABLES xs,      \* history: sequence of K-tuples fed / drawn so far
          calls,   \* how it was fed: 0 = update(x), L >= 1 = update_from_it(L samples)
          st,      \* accumulators: Pairs -> [n, sx, sy, u, ok]
          phase,   \* stats: "feed" | "done";  stop: "draw" | "absorb" | "check" | "conv" | "limit" | "stopped"
          perm,    \* stats: the permutation applied by Permute
          st2,     \* stats: accumulators fed in permuted order
          par,     \* stop: the parameter record
          idx,     \* stop: the loop index i (0-based, as in the code)
          ncalls,  \* stop: number of calls made to fn
          pend,    \* stop: value returned by fn, not yet absorbed
          reason,  \* stop: "none" | "converged" | "limit" | "tie"
          tie,     \* stop: the predicate was an exact equality
          rst,     \* cov: accumulators with the code's own variables as reduced rationals
          hist     \* cov: rst after every call (kept when TrackCalls)

vars == <<xs, calls, st, phase, perm, st2, par, idx, ncalls, pend, reason, tie, rst, hist>>

Abs(a) == IF a < 0 THEN -a ELSE a
Min(a, b) == IF a <= b THEN a ELSE b

Pairs == {pr \in (1..K) \X (1..K) : pr[1] <= pr[2]}

Zero == [n |-> 0, sx |-> 0, sy |-> 0, u |-> 0, ok |-> TRUE]
ZeroState == [pr \in Pairs |-> Zero]
NoPar == [p |-> 0, q |-> 1, a |-> 0, b |-> 1, mn |-> 0, mx |-> 0]

-----------------------------------------------------------------------------
(* RunningCovariance.update(x, y) on the integer image of one accumulator.
   n > 0:  dx = (n*x - sx)/n,  y - ymean' = (n*y - sy)/(n+1),
           C' = C + dx*(y - ymean'),  u' = (n+1)*C'.
   n = 0:  xmean = ymean = 0, ymean' = y, so C' = 0.                        *)
Step1(acc, x, y) ==
    LET n   == acc.n
        dxn == n * x - acc.sx
        dyn == n * y - acc.sy
    IN  IF Variant = "oldmean"
        THEN \* buggy: C' = C + dx*dy with dy = y - ymean (before the move) = dyn/n
             IF n = 0
             THEN [n |-> 1, sx |-> x, sy |-> y, u |-> x * y, ok |-> acc.ok]
             ELSE LET num == (n + 1) * (n * acc.u + dxn * dyn)
                  IN  [n |-> n + 1, sx |-> acc.sx + x, sy |-> acc.sy + y,
                       u |-> num \div (n * n), ok |-> acc.ok /\ (num % (n * n) = 0)]
        ELSE IF n = 0
             THEN [n |-> 1, sx |-> x, sy |-> y, u |-> 0, ok |-> acc.ok]
             ELSE LET num == (n + 1) * acc.u + dxn * dyn
                  IN  [n |-> n + 1, sx |-> acc.sx + x, sy |-> acc.sy + y,
                       u |-> num \div n, ok |-> acc.ok /\ (num % n = 0)]

(* update_from_it on one accumulator: the updates of s (series i against series j) in order *)
FeedPair(acc, s, i, j) ==
    LET f[k \in 0..Len(s)] == IF k = 0 THEN acc ELSE Step1(f[k - 1], s[k][i], s[k][j])
    IN  f[Len(s)]

(* RunningCovarianceMatrix.update(x1, .., xK): every pair advanced by the one sample *)
UpdateAll(state, x) == [pr \in Pairs |-> Step1(state[pr], x[pr[1]], x[pr[2]])]
(* RunningCovarianceMatrix.update_from_it(xs1, .., xsK): pair by pair, the whole chunk *)
FeedAll(state, s) == [pr \in Pairs |-> FeedPair(state[pr], s, pr[1], pr[2])]

-----------------------------------------------------------------------------
(* The same quantities "computed from the whole sample at once". *)
SumCol(s, i) ==
    LET f[k \in 0..Len(s)] == IF k = 0 THEN 0 ELSE f[k - 1] + s[k][i] IN f[Len(s)]
SumProd(s, i, j) ==
    LET f[k \in 0..Len(s)] == IF k = 0 THEN 0 ELSE f[k - 1] + s[k][i] * s[k][j] IN f[Len(s)]
WholePair(s, i, j) ==
    [n |-> Len(s), sx |-> SumCol(s, i), sy |-> SumCol(s, j),
     u |-> Len(s) * SumProd(s, i, j) - SumCol(s, i) * SumCol(s, j), ok |-> TRUE]
Whole(s) == [pr \in Pairs |-> WholePair(s, pr[1], pr[2])]

U(state, i, j) == IF i <= j THEN state[<<i, j>>].u ELSE state[<<j, i>>].u

-----------------------------------------------------------------------------
(* Machine 1: feeding the accumulators *)

Chunks == UNION {[1..L -> Samples] : L \in 1..MaxChunk}

PermOf(kind, n) ==
    CASE kind = "rev"  -> [k \in 1..n |-> n + 1 - k]
      [] kind = "rot"  -> [k \in 1..n |-> (k % n) + 1]
      [] kind = "swap" -> [k \in 1..n |-> IF k = 1 THEN n ELSE IF k = n THEN 1 ELSE k]
      [] kind = "oddeven" ->                      \* 1 3 5 .. 2 4 6 ..
            LET h == (n + 1) \div 2
            IN  [k \in 1..n |-> IF k <= h THEN 2 * k - 1 ELSE 2 * (k - h)]
      [] OTHER -> [k \in 1..n |-> k]

PermChoices(n) ==
    IF "all" \in PermKinds THEN {[k \in 1..n |-> f[k]] : f \in Permutations(1..n)}
    ELSE {PermOf(kind, n) : kind \in PermKinds}

InitStats ==
    /\ xs = <<>> /\ calls = <<>> /\ st = ZeroState /\ phase = "feed"
    /\ perm = <<>> /\ st2 = ZeroState
    /\ par = NoPar /\ idx = 0 /\ ncalls = 0 /\ pend = <<>> /\ reason = "none" /\ tie = FALSE
    /\ rst = <<>> /\ hist = <<>>

Update(x) ==
    /\ phase = "feed" /\ Len(xs) < MaxLen
    /\ xs' = Append(xs, x)
    /\ st' = UpdateAll(st, x)
    /\ calls' = IF TrackCalls THEN Append(calls, 0) ELSE calls
    /\ UNCHANGED <<phase, perm, st2, par, idx, ncalls, pend, reason, tie, rst, hist>>

UpdateChunk(c) ==
    /\ phase = "feed" /\ Len(xs) + Len(c) <= MaxLen
    /\ xs' = xs \o c
    /\ st' = FeedAll(st, c)
    /\ calls' = IF TrackCalls THEN Append(calls, Len(c)) ELSE calls
    /\ UNCHANGED <<phase, perm, st2, par, idx, ncalls, pend, reason, tie, rst, hist>>

Permute(p) ==
    /\ phase = "feed" /\ Len(xs) >= MinLen /\ Len(xs) >= 1
    /\ perm' = p
    /\ st2' = FeedAll(ZeroState, [k \in 1..Len(xs) |-> xs[p[k]]])
    /\ phase' = "done"
    /\ UNCHANGED <<xs, calls, st, par, idx, ncalls, pend, reason, tie, rst, hist>>

PermuteSome == \E p \in PermChoices(Len(xs)) : Permute(p)

NextStats ==
    \/ \E x \in Samples : Update(x)
    \/ \E c \in Chunks : UpdateChunk(c)
    \/ PermuteSome

SpecStats == InitStats /\ [][NextStats]_vars

(* INVARIANTS C19, part 1 *)
WholeSample == st = Whole(xs)
OrderFree == phase = "done" => st2 = st

-----------------------------------------------------------------------------
(* Machine 2: estimate_from_repeats *)

(* rs.converged(rtol, tol_scale*rtol) on an accumulator, exactly: "y", "n" or "t" (equality) *)
Conv(acc, pm) ==
    LET lhs == acc.u * pm.q * pm.q * pm.b * pm.b
        w   == Abs(acc.sx) * pm.b + acc.n * pm.a
        rhs == acc.n * pm.p * pm.p * w * w
    IN  IF lhs < rhs THEN "y" ELSE IF lhs = rhs THEN "t" ELSE "n"

Acc == st[<<1, 1>>]

InitStop ==
    /\ par \in Params
    /\ xs = <<>> /\ calls = <<>> /\ st = ZeroState /\ phase = "draw"
    /\ perm = <<>> /\ st2 = ZeroState
    /\ idx = 0 /\ ncalls = 0 /\ pend = <<>> /\ reason = "none" /\ tie = FALSE
    /\ rst = <<>> /\ hist = <<>>

Draw(x) ==                       \* x = fn(..)
    /\ phase = "draw"
    /\ pend' = x
    /\ ncalls' = ncalls + 1
    /\ phase' = "absorb"
    /\ UNCHANGED <<xs, calls, st, perm, st2, par, idx, reason, tie, rst, hist>>

Absorb ==                        \* rs.update(x)
    /\ phase = "absorb"
    /\ xs' = Append(xs, pend)
    /\ st' = UpdateAll(st, pend)
    /\ phase' = "check"
    /\ UNCHANGED <<calls, perm, st2, par, idx, ncalls, pend, reason, tie, rst, hist>>

SkipCheck ==                     \* "if i > min_samples" is false
    /\ phase = "check" /\ Variant # "nocheck"
    /\ ~(idx > par.mn)
    /\ phase' = "limit"
    /\ UNCHANGED <<xs, calls, st, perm, st2, par, idx, ncalls, pend, reason, tie, rst, hist>>

Check ==                         \* rs.converged(rtol, tol_scale * rtol)
    /\ phase = "check" /\ Variant # "nocheck"
    /\ idx > par.mn
    /\ LET c == Conv(Acc, par)
       IN  CASE c = "y" -> phase' = "conv" /\ UNCHANGED <<reason, tie>>
             [] c = "n" -> phase' = "limit" /\ UNCHANGED <<reason, tie>>
             [] OTHER   -> phase' = "stopped" /\ reason' = "tie" /\ tie' = TRUE
    /\ UNCHANGED <<xs, calls, st, perm, st2, par, idx, ncalls, pend, rst, hist>>

CheckBlind ==                    \* buggy variant: breaks once i > min_samples, predicate ignored
    /\ phase = "check" /\ Variant = "nocheck"
    /\ phase' = IF idx > par.mn THEN "conv" ELSE "limit"
    /\ UNCHANGED <<xs, calls, st, perm, st2, par, idx, ncalls, pend, reason, tie, rst, hist>>

StopConverged ==                 \* break
    /\ phase = "conv"
    /\ phase' = "stopped" /\ reason' = "converged"
    /\ UNCHANGED <<xs, calls, st, perm, st2, par, idx, ncalls, pend, tie, rst, hist>>

LimitHit == IF Variant = "limit1" THEN idx >= par.mx ELSE idx >= par.mx - 1

StopLimit ==                     \* "if i >= max_samples - 1: break"
    /\ phase = "limit" /\ LimitHit
    /\ phase' = "stopped" /\ reason' = "limit"
    /\ UNCHANGED <<xs, calls, st, perm, st2, par, idx, ncalls, pend, tie, rst, hist>>

Loop ==                          \* next i of itertools.count()
    /\ phase = "limit" /\ ~LimitHit
    /\ idx' = idx + 1
    /\ phase' = "draw"
    /\ UNCHANGED <<xs, calls, st, perm, st2, par, ncalls, pend, reason, tie, rst, hist>>

NextStop ==
    \/ \E x \in Samples : Draw(x)
    \/ Absorb \/ SkipCheck \/ Check \/ CheckBlind \/ StopConverged \/ StopLimit \/ Loop

SpecStop == InitStop /\ [][NextStop]_vars

(* the predicate on the whole drawn sample, computed at once *)
ConvWhole(s) == Conv(WholePair(s, 1, 1), par)

(* INVARIANTS C19, part 2 *)
StopSound ==
    (phase = "stopped" /\ ~tie) => (ConvWhole(xs) = "y" \/ Len(xs) = par.mx)
ReasonTrue ==
    /\ reason = "converged" => ConvWhole(xs) = "y"
    /\ reason = "limit" => Len(xs) = par.mx
NeverExceeds == Len(xs) <= par.mx /\ ncalls <= par.mx
ExactlyDrawn ==
    /\ st = Whole(xs)
    /\ phase # "absorb" => (ncalls = Len(xs) /\ Acc.n = ncalls)
    /\ phase = "absorb" => ncalls = Len(xs) + 1
(* what the code does beyond the property: the 0-based index is compared with min_samples *)
AsCoded ==
    (phase = "stopped" /\ ~tie) => Len(xs) >= Min(par.mn + 2, par.mx)

TypeOK ==
    /\ phase \in {"feed", "done", "draw", "absorb", "check", "conv", "limit", "stopped", "cov"}
    /\ reason \in {"none", "converged", "limit", "tie"}
    /\ Len(xs) <= MaxLen

-----------------------------------------------------------------------------
(* Emission of what was explored, with the exact statistics as rationals <<num, den>>. *)

Series == 1..K

EmitStats ==
    phase = "done" =>
        LET n == Len(xs)
        IN  PrintT(<<"CASE", ToJson(
              [kind  |-> "stats", k |-> K, n |-> n, xs |-> xs, calls |-> calls, perm |-> perm,
               mean  |-> [i \in Series |-> <<st[<<i, i>>].sx, n>>],
               cov   |-> [i \in Series |-> [j \in Series |-> <<U(st, i, j), n * n>>]],
               scov  |-> [i \in Series |-> [j \in Series |-> <<U(st, i, j), n * (n - 1)>>]],
               err2  |-> [i \in Series |-> <<U(st, i, i), n * n * n>>]])>>)

EmitStop ==
    phase = "stopped" =>
        PrintT(<<"CASE", ToJson(
              [kind |-> "stop", p |-> par.p, q |-> par.q, a |-> par.a, b |-> par.b,
               mn |-> par.mn, mx |-> par.mx,
               xs |-> [k \in 1..Len(xs) |-> xs[k][1]],
               n |-> Len(xs), ncalls |-> ncalls, reason |-> reason, tie |-> tie,
               pre |-> [k \in 1..Len(xs) |->
                          LET w == WholePair(SubSeq(xs, 1, k), 1, 1)
                          IN  [s |-> w.sx, u |-> w.u, conv |-> Conv(w, par)]]])>>)

-----------------------------------------------------------------------------
(* Machine 3 (C19: "covariance and covariance matrix"; replayed call by call):    *)
(* RunningCovariance / RunningCovarianceMatrix with the code's OWN variables -     *)
(* count, xmean, ymean, C - as reduced rationals <<num, den>> (den > 0), and the   *)
(* update written line by line as in the code:                                     *)
(*     count += 1 ; dx = x - xmean ; dy = y - ymean                                *)
(*     xmean += dx / count ; ymean += dy / count ; C += dx * (y - ymean)           *)
(* Actions CovUpdate(x) (RunningCovarianceMatrix.update: every pair i <= j once)   *)
(* and CovUpdateChunk(c) (update_from_it: pair by pair, the chunk in order).  The  *)
(* integer-image accumulators st of machine 1 run alongside.  Invariants:          *)
(*   CovImage  the rational variables are exactly the integer image's sx/n, sy/n,  *)
(*             u/n (two independently written models agree)                        *)
(*   CovWhole  covar = C/count = (n*Sxy - Sx*Sy)/n^2 and sample_covar = C/(count-1)*)
(*             computed from the whole history at once                             *)
(*   CovPSD    C[i,i] >= 0 and C[i,j]^2 <= C[i,i]*C[j,j]                            *)
(*   CovTrace  one snapshot per call                                               *)
(* hist holds the accumulators after every call; EmitCov prints the history, how   *)
(* it was cut into calls and every snapshot for the step-by-step replay.           *)

RECURSIVE GCD(_, _)
GCD(a, b) == IF b = 0 THEN a ELSE GCD(b, a % b)
Norm(n, d) == LET sg == IF d < 0 THEN -1 ELSE 1
                  g  == GCD(Abs(n), Abs(d))
              IN  <<(sg * n) \div g, (sg * d) \div g>>
RInt(k) == <<k, 1>>
RAdd(a, b) == Norm(a[1] * b[2] + b[1] * a[2], a[2] * b[2])
RSub(a, b) == Norm(a[1] * b[2] - b[1] * a[2], a[2] * b[2])
RMul(a, b) == Norm(a[1] * b[1], a[2] * b[2])
RDivInt(a, k) == Norm(a[1], a[2] * k)
RLe(a, b) == a[1] * b[2] <= b[1] * a[2]

CovZero == [n |-> 0, xm |-> RInt(0), ym |-> RInt(0), c |-> RInt(0)]
CovZeroState == [pr \in Pairs |-> CovZero]

(* RunningCovariance.update(x, y), line by line *)
CovStep(acc, x, y) ==
    LET cnt == acc.n + 1
        dx  == RSub(RInt(x), acc.xm)
        dy  == RSub(RInt(y), acc.ym)
        xm2 == RAdd(acc.xm, RDivInt(dx, cnt))
        ym2 == RAdd(acc.ym, RDivInt(dy, cnt))
        c2  == IF Variant = "oldmean"
               THEN RAdd(acc.c, RMul(dx, dy))                       \* buggy: dy before the mean moved
               ELSE RAdd(acc.c, RMul(dx, RSub(RInt(y), ym2)))
    IN  [n |-> cnt, xm |-> xm2, ym |-> ym2, c |-> c2]

CovFeedPair(acc, s, i, j) ==
    LET f[k \in 0..Len(s)] == IF k = 0 THEN acc ELSE CovStep(f[k - 1], s[k][i], s[k][j])
    IN  f[Len(s)]
CovUpdateAll(state, x) == [pr \in Pairs |-> CovStep(state[pr], x[pr[1]], x[pr[2]])]
CovFeedAll(state, s) == [pr \in Pairs |-> CovFeedPair(state[pr], s, pr[1], pr[2])]

InitCov ==
    /\ xs = <<>> /\ calls = <<>> /\ st = ZeroState /\ phase = "cov"
    /\ perm = <<>> /\ st2 = ZeroState
    /\ par = NoPar /\ idx = 0 /\ ncalls = 0 /\ pend = <<>> /\ reason = "none" /\ tie = FALSE
    /\ rst = CovZeroState /\ hist = <<>>

CovUpdate(x) ==
    /\ phase = "cov" /\ Len(xs) < MaxLen
    /\ xs' = Append(xs, x)
    /\ st' = UpdateAll(st, x)
    /\ \E new \in {CovUpdateAll(rst, x)} :
          /\ rst' = new
          /\ hist' = IF TrackCalls THEN Append(hist, new) ELSE hist
    /\ calls' = IF TrackCalls THEN Append(calls, 0) ELSE calls
    /\ UNCHANGED <<phase, perm, st2, par, idx, ncalls, pend, reason, tie>>

CovUpdateChunk(c) ==
    /\ phase = "cov" /\ Len(xs) + Len(c) <= MaxLen
    /\ xs' = xs \o c
    /\ st' = FeedAll(st, c)
    /\ \E new \in {CovFeedAll(rst, c)} :
          /\ rst' = new
          /\ hist' = IF TrackCalls THEN Append(hist, new) ELSE hist
    /\ calls' = IF TrackCalls THEN Append(calls, Len(c)) ELSE calls
    /\ UNCHANGED <<phase, perm, st2, par, idx, ncalls, pend, reason, tie>>

NextCov ==
    \/ \E x \in Samples : CovUpdate(x)
    \/ \E c \in Chunks : CovUpdateChunk(c)

SpecCov == InitCov /\ [][NextCov]_vars

CovImage ==
    \A pr \in Pairs :
        LET a == rst[pr]
            b == st[pr]
        IN  /\ a.n = b.n /\ b.ok
            /\ b.n > 0 => /\ a.xm = Norm(b.sx, b.n)
                          /\ a.ym = Norm(b.sy, b.n)
                          /\ a.c = Norm(b.u, b.n)
CovWhole ==
    \A pr \in Pairs :
        LET n == Len(xs)
            w == WholePair(xs, pr[1], pr[2])
        IN  /\ rst[pr].n = n
            /\ n >= 1 => RDivInt(rst[pr].c, n) = Norm(w.u, n * n)
            /\ n >= 2 => RDivInt(rst[pr].c, n - 1) = Norm(w.u, n * (n - 1))
CovPSD ==
    /\ \A i \in 1..K : rst[<<i, i>>].c[1] >= 0
    /\ \A pr \in Pairs :
          RLe(RMul(rst[pr].c, rst[pr].c), RMul(rst[<<pr[1], pr[1]>>].c, rst[<<pr[2], pr[2]>>].c))
CovTrace == TrackCalls => Len(hist) = Len(calls)

PairOf(i, j) == IF i <= j THEN <<i, j>> ELSE <<j, i>>

EmitCov ==
    (phase = "cov" /\ Len(xs) = MaxLen) =>
        PrintT(<<"CASE", ToJson(
              [kind |-> "cov", k |-> K, n |-> Len(xs), xs |-> xs, calls |-> calls,
               trace |-> [t \in 1..Len(hist) |->
                            [i \in 1..K |-> [j \in 1..K |->
                                LET a == hist[t][PairOf(i, j)]
                                IN  [n |-> a.n, xm |-> a.xm, ym |-> a.ym, c |-> a.c,
                                     covar |-> RDivInt(a.c, a.n),
                                     scov  |-> IF a.n >= 2 THEN RDivInt(a.c, a.n - 1) ELSE <<0, 0>>]]]]])>>)
=============================================================================
