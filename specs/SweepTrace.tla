----------------------------- MODULE SweepTrace -----------------------------
(***************************************************************************)
(* Trace validation (code -> spec) for Sweep.tla: executions of the real   *)
(* combo_runner with *real* nondeterminism (the real seeded random.shuffle,*)
(* real thread / process pools) are recorded by vx/props/C01.py as         *)
(*   [cfg |-> ..., calls |-> <<ids in the order the function really ran>>, *)
(*    out |-> <<what was returned, projected to setting ids>>]             *)
(* and this module checks that each recorded execution is a behaviour of   *)
(* Sweep.tla: TLC infers what was not logged (the permutation, the         *)
(* submit/collect interleaving) and every invariant of Sweep.tla is        *)
(* evaluated on every state of the matching behaviours.                    *)
(*                                                                         *)
(* Several traces are validated per TLC run: the initial state picks the   *)
(* trace id, an accepted trace prints <<"ACCEPT", tid>>.                   *)
(***************************************************************************)
EXTENDS Sweep, IOUtils

Traces == JsonDeserialize(IOEnv.TRACE_FILE)

VARIABLES tid, l     \* which trace, and how many of its logged calls have been matched

tvars == <<vars, tid, l>>

TraceInit ==
    /\ tid \in 1..Len(Traces)
    /\ l = 0
    /\ cfg = Traces[tid].cfg
    /\ phase = "start" /\ n = 0
    /\ settings = <<>> /\ order = <<>> /\ labels = <<>>
    /\ nsub = 0 /\ finished = {} /\ calls = <<>> /\ got = <<>> /\ lin = <<>>
    /\ out = <<>> /\ hist = <<>>

Logged == Traces[tid].calls

(* actions that leave no mark in the log *)
Silent == (Reject \/ Enumerate \/ Shuffle \/ Submit \/ Collect \/ Collected \/ Unshuffle \/ Place)
          /\ UNCHANGED <<tid, l>>

(* a logged call: the function really ran for setting Logged[l+1] *)
TraceCall ==
    /\ l < Len(Logged)
    /\ (CompleteAny \/ RunSeq)
    /\ calls' = Append(calls, Logged[l + 1])
    /\ l' = l + 1
    /\ UNCHANGED tid

TraceNext == Silent \/ TraceCall

TraceSpec == TraceInit /\ [][TraceNext]_tvars

(* the execution is explained when all calls are matched, the model is done (or rejected) and
   the model's output equals the recorded one *)
Accepted ==
    /\ l = Len(Logged)
    /\ phase \in {"done", "rejected"}
    /\ phase = "done" => out = Traces[tid].out
    /\ (phase = "rejected") = Traces[tid].rejected

ReportAccepted == Accepted => PrintT(<<"ACCEPT", tid>>)
=============================================================================
