----------------------------- MODULE Infiniplot -----------------------------
(***************************************************************************)
(* Property C18.  xyzpy.infiniplot(ds, x, y, z, color=, hue=, marker=,     *)
(* markersize=, linestyle=, linewidth=, col=, row=, ...) as a machine over *)
(* an abstract dataset, one action per step the code really takes          *)
(* (xyzpy/plot/infiniplot.py, Infiniplotter.__init__ / plot_lines /        *)
(* plot_heatmap):                                                          *)
(*                                                                         *)
(*   Prepare      only `hue` given  ->  it is treated as `color`           *)
(*   InitMapped   init_mapped_dim(prop), in the code's fixed order         *)
(*                hue, color, marker, markersize, linestyle, linewidth,    *)
(*                col, row:  fuse (stack) a pair of dims, select / order   *)
(*                by an explicit *_order, drop coordinates that are        *)
(*                entirely null (Dataset.dropna(dim, how="all")), record   *)
(*                domain[prop]; style index i -> i-th default value        *)
(*   Unmapped     the dims that are neither mapped nor x / y               *)
(*   Histogram    (y is None) bin edges from bins=None|int|edges over the  *)
(*                remaining data, all unmapped dims are binned away        *)
(*   Aggregate    aggregate=True|dim, forced in heat-map mode              *)
(*   DrawNext     one iteration of itertools.product over the remaining    *)
(*                dims: pick the panel axs[row idx, col idx], pick the     *)
(*                style index of every mapped property, mask, skip the     *)
(*                slice if nothing is left, else ax.plot / pcolormesh      *)
(*   Judge        compare the finished draw list with the oracle           *)
(*                                                                         *)
(* The dataset is abstract: dims 1..N with sizes Sizes[d] <= 3; a cell is  *)
(* its flat row-major number c \in 0..NCells-1, Idx(c, d) its index along  *)
(* dim d.  The values encode the cell (y = c+1, x-variable = 1000+c, z =   *)
(* c+1, histogram samples = 2c), so every drawn number names the cell(s)   *)
(* it came from.  Null-ness is a set of cells.  A coordinate of a plain    *)
(* dim is its index i; of a fused dim (d1, d2) the code 4 i + j.  A slice  *)
(* is named by its base cell (all non-slice dims at index 1).  Rationals   *)
(* are <<num, den>>, den = 0 meaning null (NaN).                           *)
(*                                                                         *)
(* The property is the conjunction of the invariants ExactlyOnce,          *)
(* NothingEmpty, Placement, Styles, Points, Shape: the draw list produced  *)
(* by the code-shaped actions against an oracle computed declaratively     *)
(* from the input alone (action Judge evaluates the clauses once per       *)
(* behaviour; the invariants read its verdict).  Bug # "none" switches on  *)
(* deliberately wrong variants of single steps (non-vacuity).              *)
(*                                                                         *)
(* Init enumerates: every injective assignment of <= MaxMapped dims to the *)
(* 8 properties (optionally one fused pair), x every mask of the chosen    *)
(* family (all 2^cells, or a structured family) x the option sequences;    *)
(* Sub, Stride > 1 keep 1/Sub of the assignments (hash of the assignment   *)
(* number and Seed) and the cases whose mixed-radix number is congruent    *)
(* mod Stride to a value derived from the same hash - a sample chosen by   *)
(* TLC, not by the harness.                                                *)
(***************************************************************************)
EXTENDS Integers, Sequences, FiniteSets, TLC, Json

CONSTANTS Sizes,      \* <<s1, .., sN>>, 2 <= N <= 5, sizes 1..3
          Mode,       \* "lines" | "heat" | "hist"
          MaxMapped,  \* at most this many dims are mapped
          Fuse,       \* BOOLEAN: also enumerate one fused pair  prop=(d1, d2)
          MaskFam,    \* "all" (every subset of cells null; cells <= 12) | "struct"
          XVar,       \* BOOLEAN (lines): x is a data variable linked along the x dim
          XDeps,      \* sequence over {"all", "line", "one"}: the dims the x variable has - all of y's, only the
                      \* line (xlink) dim, or the line dim and the first mappable dim   (<<"all">> unless XVar)
          Orders,     \* sequence over {"none", "rev", "sub"}: explicit *_order for plain mapped dims
          Joins,      \* sequence of BOOLEAN: join_across_missing
          Aggs,       \* sequence over {"none", "all", "one"} (lines) / {"auto", "all"} (heat)
          Methods,    \* sequence over {"median", "mean"}
          Errs,       \* sequence over {"q", "std", "stderr"}   (passed through; spread bands are not lines)
          Pals,       \* sequence of BOOLEAN: palette given      (passed through)
          Dens,       \* sequence of BOOLEAN: bins_density
          Bins,       \* sequence over {"auto", "n4", "nN", "e1", "e3", "eu", "en", "ee"} (hist) / <<"na">>
          HistAll,    \* BOOLEAN (hist): also assignments that leave no dim to bin over (each slice one sample)
          Stride, Sub, Seed, \* sampling: keep 1/Sub of the assignments and 1/Stride of the case numbers
          Bug         \* "none" | "domBeforeDrop" | "swapRowCol" | "maskYOnly" | "joinInverted"
                      \*        | "noSkip" | "aggAll" | "countsForDensity" | "transposeMesh"

VARIABLES inp,    \* the input (never changes: the dataset is not modified)
          pc, pi, \* control; next property for InitMapped
          pm,     \* property -> <<>> | <<d>> | <<d1, d2>>   (after Prepare)
          cur,    \* current dims of the working dataset, in order (each a tuple of original dims)
          crd,    \* current coordinates of each current dim (sequence of coordinate codes)
          live,   \* cells still in the working dataset
          dom,    \* domain recorded for each property
          unm,    \* unmapped dims
          aggd,   \* dims aggregated away
          hb,     \* histogram bins
          offs,   \* cell-number offsets spanning one slice (the x / y / aggregated / binned dims)
          it,     \* product iteration counter
          draws,  \* what was drawn, in order
          verdict \* which clauses of the property hold for the finished plot

vars == <<inp, pc, pi, pm, cur, crd, live, dom, unm, aggd, hb, offs, it, draws, verdict>>

-----------------------------------------------------------------------------
N == Len(Sizes)
Dims == 1..N
XD == IF Mode = "hist" THEN 0 ELSE N              \* the x dimension
YD == IF Mode = "heat" THEN N - 1 ELSE 0          \* the y dimension of a heat map
MD == Dims \ {XD, YD}                             \* mappable dims
Props == 1..8
PropNames == <<"hue", "color", "marker", "markersize", "linestyle", "linewidth", "col", "row">>
AllowedProps == IF Mode = "heat" THEN {7, 8} ELSE Props
RNull == <<0, 0>>

Range(s) == {s[i] : i \in DOMAIN s}
Min(S) == CHOOSE v \in S : \A w \in S : v <= w
Max(S) == CHOOSE v \in S : \A w \in S : v >= w
RECURSIVE SumSet(_)
SumSet(S) == IF S = {} THEN 0 ELSE LET v == CHOOSE v \in S : TRUE IN v + SumSet(S \ {v})
RECURSIVE SumSeq(_)
SumSeq(s) == IF s = <<>> THEN 0 ELSE Head(s) + SumSeq(Tail(s))

(* constant tables, forced to explicit values once *)
StrdR[d \in 1..(N + 1)] == IF d >= N THEN 1 ELSE Sizes[d + 1] * StrdR[d + 1]
Strd == TLCEval([d \in 1..(N + 1) |-> StrdR[d]])           \* Strd[d] = product of the sizes after d
NCells == Sizes[1] * Strd[1]
Cells == 0..(NCells - 1)
IdxTab == TLCEval([k \in 0..(NCells * N - 1) |-> (((k \div N) \div Strd[(k % N) + 1]) % Sizes[(k % N) + 1]) + 1])
Idx(c, d) == IdxTab[c * N + d - 1]                          \* index of cell c along dim d (1-based)
Pow2R[k \in 0..30] == IF k = 0 THEN 1 ELSE 2 * Pow2R[k - 1]
Pow2 == TLCEval([k \in 0..30 |-> Pow2R[k]])
Agree(c, b, D) == \A d \in D : Idx(c, d) = Idx(b, d)
DimsProd(S) == LET RECURSIVE P(_)
                   P(T) == IF T = {} THEN 1 ELSE LET d == CHOOSE d \in T : TRUE IN Sizes[d] * P(T \ {d})
               IN  P(S)

(* coordinate code of cell c on the target t, and back to the cell-number contribution *)
Code(c, t) == IF Len(t) = 1 THEN Idx(c, t[1]) ELSE 4 * Idx(c, t[1]) + Idx(c, t[2])
Contrib(t, code) == IF Len(t) = 1 THEN (code - 1) * Strd[t[1]]
                    ELSE ((code \div 4) - 1) * Strd[t[1]] + ((code % 4) - 1) * Strd[t[2]]

(* the cell obtained from c by putting every dim outside D at index 1: what a variable that only has the    *)
(* dims D sees of cell c                                                                                   *)
RECURSIVE ProjFrom(_, _, _)
ProjFrom(c, D, d) == IF d > N THEN 0 ELSE (IF d \in D THEN (Idx(c, d) - 1) * Strd[d] ELSE 0) + ProjFrom(c, D, d + 1)
Proj(c, D) == ProjFrom(c, D, 1)

-----------------------------------------------------------------------------
(* Masks *)
NullBits(m) == {c \in Cells : (m \div Pow2[c]) % 2 = 1}

MDk(i) == IF MD = {} THEN 1
          ELSE LET below(d) == Cardinality({e \in MD : e < d})
                   k == IF i > Cardinality(MD) THEN Cardinality(MD) ELSE i
               IN  CHOOSE d \in MD : below(d) = k - 1
LineDims == IF Mode = "heat" THEN {XD, YD} ELSE IF Mode = "hist" THEN {N} ELSE {XD}

(* structured family: 0 = nothing null; otherwise kind k = 1..9 around cell j *)
StructNull(i) ==
    IF i = 0 THEN {}
    ELSE LET k == 1 + (i - 1) \div NCells
             j == (i - 1) % NCells
             line == {c \in Cells : Agree(c, j, Dims \ LineDims)}
             co(d) == {c \in Cells : Idx(c, d) = Idx(j, d)}
         IN  CASE k = 1 -> {j}                                  \* one interior NaN
               [] k = 2 -> line                                 \* one slice empty
               [] k = 3 -> co(MDk(1))                           \* one coordinate empty
               [] k = 4 -> co(MDk(2))
               [] k = 5 -> co(MDk(1)) \cup co(MDk(2))
               [] k = 6 -> Cells \ line                         \* all but one slice empty
               [] k = 7 -> co(MDk(1)) \cup {(j * 7 + 3) % NCells}
               [] k = 8 -> co(MDk(3))
               [] k = 9 -> Cells \ co(MDk(1))                   \* all but one coordinate empty
               [] OTHER -> {}

NMask == IF MaskFam = "all" THEN Pow2[NCells] ELSE 1 + 9 * NCells
NullOf(m) == IF MaskFam = "all" THEN NullBits(m) ELSE StructNull(m)
NXMask == IF XVar THEN 1 + 3 * NCells ELSE 1      \* x-variable: nothing | one cell | one line | one coordinate

(* mixed-radix numbering of (mask, x mask, options) *)
Radix == <<NMask, NXMask, Len(Joins), Len(Aggs), Len(Methods), Len(Errs), Len(Pals), Len(Dens), Len(Bins), Len(Orders), Len(XDeps)>>
WeightR[k \in 1..(Len(Radix) + 1)] == IF k = 1 THEN 1 ELSE WeightR[k - 1] * Radix[k - 1]
Weight == TLCEval([k \in 1..(Len(Radix) + 1) |-> WeightR[k]])
Total == Weight[Len(Radix) + 1]
Digit(M, k) == (M \div Weight[k]) % Radix[k]

-----------------------------------------------------------------------------
(* Assignments of dims to properties *)
Roles == TLCEval({ro \in [MD -> 0..8] :
            /\ \A d \in MD : ro[d] # 0 => ro[d] \in AllowedProps
            /\ \A d1, d2 \in MD : (d1 # d2 /\ ro[d1] # 0) => ro[d1] # ro[d2]
            /\ Cardinality({d \in MD : ro[d] # 0}) <= MaxMapped
            /\ (Mode = "hist" /\ ~HistAll) => (\E d \in MD : ro[d] = 0)})

FZ(ro) == {<<>>} \cup
          (IF Fuse
           THEN {f \in {<<d1, d2>> : d1 \in {d \in MD : ro[d] # 0}, d2 \in {d \in MD : ro[d] = 0}} :
                    /\ Cardinality({d \in MD : ro[d] # 0}) + 1 <= MaxMapped
                    /\ (Mode = "hist" /\ ~HistAll) => (\E d \in MD : ro[d] = 0 /\ d # f[2])}
           ELSE {})

RECURSIVE RoleNum(_, _)
RoleNum(ro, d) == IF d > N THEN 0 ELSE (IF d \in MD THEN ro[d] ELSE 0) + 9 * RoleNum(ro, d + 1)
AIdx(ro, fz) == RoleNum(ro, 1) + 59051 * (IF fz = <<>> THEN 0 ELSE fz[1] * 6 + fz[2])

PM0(ro, fz) == [p \in Props |->
                  IF \E d \in MD : ro[d] = p
                  THEN LET d == CHOOSE d \in MD : ro[d] = p
                       IN  IF fz # <<>> /\ fz[1] = d THEN <<d, fz[2]>> ELSE <<d>>
                  ELSE <<>>]

OrdSeq(kind, s) == IF kind = "rev" THEN [q \in 1..s |-> s + 1 - q]
                   ELSE IF kind = "sub" /\ s >= 2 THEN [q \in 1..(s - 1) |-> s + 1 - q]
                   ELSE IF kind = "sub" THEN <<1>>
                   ELSE <<>>

MkInp(ro, fz, M) ==
    LET pm0 == PM0(ro, fz)
        ok == Orders[Digit(M, 10) + 1]
        xk == XDeps[Digit(M, 11) + 1]
        xd == IF ~XVar \/ xk = "all" THEN Dims ELSE IF xk = "line" THEN {XD} ELSE {XD, MDk(1)}
    IN  [pm    |-> pm0,
         ordd  |-> [d \in Dims |-> IF \E p \in Props : pm0[p] = <<d>> THEN OrdSeq(ok, Sizes[d]) ELSE <<>>],
         ordk  |-> ok,
         ynull |-> NullOf(Digit(M, 1)),
         xdims |-> xd,
         \* the x variable is null at cell c iff it is null at what it sees of c
         xnull |-> IF XVar THEN LET raw == {Proj(j, xd) : j \in StructNull(Digit(M, 2))}
                                IN  {c \in Cells : Proj(c, xd) \in raw}
                   ELSE {},
         join  |-> Joins[Digit(M, 3) + 1],
         agg   |-> Aggs[Digit(M, 4) + 1],
         meth  |-> Methods[Digit(M, 5) + 1],
         err   |-> Errs[Digit(M, 6) + 1],
         pal   |-> Pals[Digit(M, 7) + 1],
         dens  |-> Dens[Digit(M, 8) + 1],
         bins  |-> Bins[Digit(M, 9) + 1],
         num   |-> M, anum |-> AIdx(ro, fz)]

-----------------------------------------------------------------------------
(* Values *)
YVal(c) == c + 1            \* y (lines), z (heat)
XVal(c, D) == 1000 + Proj(c, D)   \* x as a data variable that has the dims D
HVal(c) == 2 * c            \* histogram samples (even; explicit edges are odd)

Kth(S, i) == CHOOSE v \in S : Cardinality({w \in S : w < v}) = i - 1
Median(S) == LET k == Cardinality(S)
             IN  IF k = 0 THEN RNull
                 ELSE IF k % 2 = 1 THEN <<Kth(S, (k + 1) \div 2), 1>>
                 ELSE <<Kth(S, k \div 2) + Kth(S, k \div 2 + 1), 2>>
Mean(S) == IF S = {} THEN RNull ELSE <<SumSet(S), Cardinality(S)>>

(* y (or z) over the cells P: one cell, or the cells aggregated together (nulls skipped) *)
YAt(P, ynull, aggregated, meth) ==
    LET S == {YVal(c) : c \in P \ ynull}
    IN  IF S = {} THEN RNull
        ELSE IF ~aggregated THEN <<Max(S), 1>>
        ELSE IF meth = "mean" THEN Mean(S) ELSE Median(S)

ISqrt(h) == CHOOSE k \in 0..h : k * k <= h /\ (k + 1) * (k + 1) > h

(* bin edges  e_k = (e0 + k w + q k (k + 1)) / den, k = 0..nb:  q = 0 equally spaced (computed from the     *)
(* non-null samples V for bins=None|int; H = length of the binned dim), q = 1 explicit edges -1, 1, 5, 11, 19, *)
(* ... of widths 2, 4, 6, 8, ... (kind "eu": unequally spaced, all odd, so no even sample sits on an edge)     *)
NbUnequal == CHOOSE k \in 1..(NCells + 1) : k * (k + 1) > 2 * NCells - 1 /\ (k - 1) * k <= 2 * NCells - 1
BinsFor(kind, V, H) ==
    LET nbi == CASE kind = "auto" -> Min({Max({3, ISqrt(H)}), 50})
                 [] kind = "n4" -> 4
                 [] OTHER -> NCells
    IN  CASE kind = "e1" -> [e0 |-> -1, w |-> 2, q |-> 0, den |-> 1, nb |-> NCells, edges |-> TRUE]
          [] kind = "e3" -> [e0 |-> -1, w |-> 6, q |-> 0, den |-> 1, nb |-> (NCells + 2) \div 3, edges |-> TRUE]
          [] kind = "eu" -> [e0 |-> -1, w |-> 0, q |-> 1, den |-> 1, nb |-> NbUnequal, edges |-> TRUE]
          \* "en": explicit edges narrower than the data (samples are 0 .. 2 NCells - 2): samples outside are not counted
          [] kind = "en" -> [e0 |-> 2 * (NCells \div 4) - 1, w |-> 4, q |-> 0, den |-> 1,
                             nb |-> Max({1, NCells \div 4}), edges |-> TRUE]
          \* "ee": explicit *even* edges 2, 6, 10, ... : samples sit exactly on the first edge (2), on interior edges
          \* and on / beyond the last edge; np.histogram's bins are half-open [a, b) except the last, which is closed
          [] kind = "ee" -> [e0 |-> 2, w |-> 4, q |-> 0, den |-> 1, nb |-> Max({1, (NCells - 2) \div 2}), edges |-> TRUE]
          [] OTHER -> [e0 |-> Min(V) * nbi, w |-> Max(V) - Min(V), q |-> 0, den |-> nbi, nb |-> nbi, edges |-> FALSE]
Edge(b, k) == b.e0 + k * b.w + b.q * k * (k + 1)
BinOf(b, v) == LET x == v * b.den
               IN  IF x = Edge(b, b.nb) THEN b.nb
                   ELSE IF b.q = 0 THEN (x - b.e0) \div b.w + 1
                   ELSE CHOOSE k \in 1..b.nb : Edge(b, k - 1) <= x /\ x < Edge(b, k)
(* a sample exactly on an interior edge computed by np.linspace: either neighbouring bin is acceptable *)
(* - unless the step (hi - lo) / nb is an integer: then every edge is an exact float and the half-open rule decides  *)
BinTie(b, V) == (~b.edges) /\ (b.w % b.den # 0)
                /\ \E v \in V : LET u == v * b.den - b.e0 IN u % b.w = 0 /\ u > 0 /\ u < b.w * b.nb
(* the samples np.histogram counts at all: those within [first edge, last edge] *)
InBins(b, V) == {v \in V : Edge(b, 0) <= v * b.den /\ v * b.den <= Edge(b, b.nb)}
(* points <<centre num, centre den, y num, y den>>: counts, or count / (n * width of that bin), n = samples counted *)
HistPts(b, V0, density) ==
    LET V == InBins(b, V0)
        n == Cardinality(V)
    IN  [k \in 1..b.nb |->
            LET c == Cardinality({v \in V : BinOf(b, v) = k})
                wk == Edge(b, k) - Edge(b, k - 1)
            IN  <<Edge(b, k - 1) + Edge(b, k), 2 * b.den, IF density THEN c * b.den ELSE c, IF density THEN n * wk ELSE 1>>]

-----------------------------------------------------------------------------
(* The oracle: what the property demands, computed from an input i alone *)
OMapped(i) == UNION {Range(i.pm[p]) : p \in Props}
OUnm(i) == MD \ OMapped(i)
OAgg(i) == CASE Mode = "hist" -> OUnm(i)
             [] Mode = "heat" -> OUnm(i)
             [] i.agg = "all" -> OUnm(i)
             [] i.agg = "one" -> {Min(OUnm(i))}
             [] OTHER -> {}
OSelCells(i) == {c \in Cells : \A d \in Dims : i.ordd[d] = <<>> \/ Idx(c, d) \in Range(i.ordd[d])}
OGood(i, c) == c \notin i.ynull /\ c \notin i.xnull
OSamples(i) == {HVal(c) : c \in OSelCells(i) \ i.ynull}

(* inputs on which the call is meaningful *)
Valid(i) ==
    /\ \E c \in OSelCells(i) : OGood(i, c)                          \* something to draw
    /\ (Mode = "lines" /\ i.agg # "none") => (OUnm(i) # {} /\ ~XVar)
    /\ (Mode = "heat" /\ i.agg = "all") => OUnm(i) # {}
    /\ (Mode = "hist" /\ i.bins \in {"auto", "n4", "nN"}) => Cardinality(OSamples(i)) >= 2

(* the expectation for the slice with base cell b, spanned by the offsets F *)
OLinePts(i, b, F, agged) ==
    LET allp == [xi \in 1..Sizes[XD] |->
                    LET col == {b + f : f \in {g \in F : Idx(g, XD) = xi}}
                        one == CHOOSE c \in col : TRUE
                    IN  (IF ~XVar THEN <<xi, 1>> ELSE IF one \in i.xnull THEN RNull ELSE <<XVal(one, i.xdims), 1>>)
                        \o YAt(col, i.ynull, agged, i.meth)]
    IN  IF i.join THEN SelectSeq(allp, LAMBDA p : p[2] # 0 /\ p[4] # 0) ELSE allp
OMesh(i, b, F, agged) ==
    [yi \in 1..Sizes[YD] |-> [xi \in 1..Sizes[XD] |->
        YAt({b + f : f \in {g \in F : Idx(g, XD) = xi /\ Idx(g, YD) = yi}}, i.ynull, agged, i.meth)]]
OHist(i, b, F, bins) == HistPts(bins, {HVal(c) : c \in {b + f : f \in F} \ i.ynull}, i.dens)

-----------------------------------------------------------------------------
NextMapped(m, p) == IF \E q \in Props : q > p /\ m[q] # <<>>
                    THEN Min({q \in Props : q > p /\ m[q] # <<>>}) ELSE 9
NoVerdict == [once |-> TRUE, empty |-> TRUE, place |-> TRUE, styles |-> TRUE, points |-> TRUE, shape |-> TRUE]

Init ==
    /\ \E ro \in Roles : \E fz \in FZ(ro) :
         LET h1 == (AIdx(ro, fz) * 499 + Seed * 7919) % 1000003
             h2 == (h1 * 2039 + 17) % 1000003
             r == h2 % Stride
         IN  /\ h1 % Sub = 0
             /\ \E M \in {r + k * Stride : k \in 0..((Total - 1 - r) \div Stride)} :
                    inp = MkInp(ro, fz, M)
    /\ Valid(inp) = TRUE
    /\ pc = "start" /\ pi = 0
    /\ pm = inp.pm
    /\ cur = [d \in Dims |-> <<d>>]
    /\ crd = [t \in {<<d>> : d \in Dims} |-> [j \in 1..Sizes[t[1]] |-> j]]
    /\ live = Cells
    /\ dom = [p \in Props |-> <<>>]
    /\ unm = {} /\ aggd = {} /\ hb = [e0 |-> 0, w |-> 1, q |-> 0, den |-> 1, nb |-> 0, edges |-> FALSE]
    /\ offs = {} /\ it = 0 /\ draws = <<>> /\ verdict = NoVerdict

(* `if (self.hue is not None) and (self.color is None)`: hue (and its order) becomes color *)
Prepare ==
    /\ pc = "start"
    /\ LET m == IF pm[1] # <<>> /\ pm[2] = <<>> THEN [pm EXCEPT ![2] = pm[1], ![1] = <<>>] ELSE pm
       IN  /\ pm' = m
           /\ pi' = NextMapped(m, 0)
           /\ pc' = IF NextMapped(m, 0) = 9 THEN "unm" ELSE "init"
    /\ UNCHANGED <<inp, cur, crd, live, dom, unm, aggd, hb, offs, it, draws, verdict>>

Cross(a, b) == [k \in 1..(Len(a) * Len(b)) |-> 4 * a[(k - 1) \div Len(b) + 1] + b[((k - 1) % Len(b)) + 1]]
Without(sq, S) == SelectSeq(sq, LAMBDA u : u \notin S)
(* a coordinate survives dropna(dim, how="all") iff some data variable is non-null somewhere on it *)
(* (Dataset.dropna(dim) only looks at the variables that have dim) *)
AnyVar(c, t) == (c \notin inp.ynull) \/ (XVar /\ Range(t) \cap inp.xdims # {} /\ c \notin inp.xnull)

(* (\E v \in {e} : ..) binds v to the value of e, evaluated once - TLC does not cache LET inside actions *)
InitMapped ==
    /\ pc = "init"
    /\ \E t \in {pm[pi]} :
       \E cur1 \in {IF Len(t) = 2 THEN Append(Without(cur, {<<t[1]>>, <<t[2]>>}), t) ELSE cur} :       \* ds.stack
       \E start \in {IF Len(t) = 2 THEN Cross(crd[<<t[1]>>], crd[<<t[2]>>]) ELSE crd[t]} :
       \E sel \in {IF Len(t) = 1 /\ inp.ordd[t[1]] # <<>> THEN inp.ordd[t[1]] ELSE start} :            \* ds.sel({dim: order})
       \E live1 \in {{c \in live : Code(c, t) \in Range(sel)}} :
       \E has \in {{Code(c, t) : c \in {c \in live1 : AnyVar(c, t)}}} :
       \E kept \in {SelectSeq(sel, LAMBDA v : v \in has)} :                                          \* dropna(dim, how="all")
           /\ cur' = cur1
           /\ crd' = [u \in Range(cur1) |-> IF u = t THEN kept ELSE crd[u]]
           /\ live' = {c \in live1 : Code(c, t) \in has}
           /\ dom' = [dom EXCEPT ![pi] = IF Bug = "domBeforeDrop" THEN sel ELSE kept]
    /\ pi' = NextMapped(pm, pi)
    /\ pc' = IF NextMapped(pm, pi) = 9 THEN "unm" ELSE "init"
    /\ UNCHANGED <<inp, pm, unm, aggd, hb, offs, it, draws, verdict>>

SpanOf(c) == {g \in Cells : \A k \in 1..Len(c) : c[k] \in {<<XD>>, <<YD>>} \/ \A q \in 1..Len(c[k]) : Idx(g, c[k][q]) = 1}

Unmapped ==
    /\ pc = "unm"
    /\ \E u \in {{d \in MD : <<d>> \in Range(cur) /\ \A p \in Props : pm[p] # <<d>>}} :
           /\ unm' = u
           /\ pc' = CASE Mode = "hist" -> "hist"
                      [] Mode = "heat" -> IF u # {} THEN "agg" ELSE "draw"
                      [] OTHER -> IF inp.agg # "none" THEN "agg" ELSE "draw"
    /\ offs' = SpanOf(cur)
    /\ UNCHANGED <<inp, pi, pm, cur, crd, live, dom, aggd, hb, it, draws, verdict>>

Histogram ==
    /\ pc = "hist"
    /\ hb' = BinsFor(inp.bins, {HVal(c) : c \in live \ inp.ynull}, DimsProd(unm))
    /\ \E cur1 \in {Without(cur, {<<d>> : d \in unm})} : cur' = cur1 /\ offs' = SpanOf(cur1)
    /\ aggd' = unm
    /\ pc' = "draw"
    /\ UNCHANGED <<inp, pi, pm, crd, live, dom, unm, it, draws, verdict>>

Aggregate ==
    /\ pc = "agg"
    /\ \E a \in {IF Mode = "lines" /\ inp.agg = "one" /\ Bug # "aggAll" THEN {Min(unm)} ELSE unm} :
       \E cur1 \in {Without(cur, {<<d>> : d \in a})} :
           /\ aggd' = a
           /\ cur' = cur1
           /\ offs' = SpanOf(cur1)
    /\ pc' = "draw"
    /\ UNCHANGED <<inp, pi, pm, crd, live, dom, unm, hb, it, draws, verdict>>

(* number of iterations of itertools.product over the ranges *)
NIter == LET rem == Without(cur, {<<XD>>, <<YD>>})
             RECURSIVE P(_)
             P(k) == IF k > Len(rem) THEN 1 ELSE Len(crd[rem[k]]) * P(k + 1)
         IN  P(1)

DrawNext ==
    /\ pc = "draw"
    /\ it < NIter
    /\ \E rem \in {Without(cur, {<<XD>>, <<YD>>})} :
       \E lens \in {[k \in 1..Len(rem) |-> Len(crd[rem[k]])]} :
       \E idx \in {[k \in 1..Len(rem) |->                                                        \* loc
                      LET RECURSIVE P(_)
                          P(j) == IF j > Len(rem) THEN 1 ELSE lens[j] * P(j + 1)
                      IN  ((it \div P(k + 1)) % lens[k]) + 1]} :
       \E sty \in {[p \in Props |-> IF pm[p] # <<>> THEN idx[CHOOSE k \in 1..Len(rem) : rem[k] = pm[p]] ELSE 0]} :
       \E lab \in {[p \in Props |-> IF pm[p] # <<>> THEN dom[p][sty[p]] ELSE 0]} :              \* domains[prop][idx]
       \E base \in {SumSeq([k \in 1..Len(rem) |-> Contrib(rem[k], crd[rem[k]][idx[k]])])} :     \* ds.isel(loc)
       \E rowi \in {IF pm[8] # <<>> THEN sty[8] ELSE 1} :
       \E coli \in {IF pm[7] # <<>> THEN sty[7] ELSE 1} :
       LET rec(pts, opt) == [ri |-> IF Bug = "swapRowCol" THEN coli ELSE rowi,
                             ci |-> IF Bug = "swapRowCol" THEN rowi ELSE coli,
                             sty |-> sty, lab |-> lab, slice |-> base,
                             \* where in the colour scale (palette or the hue's colormap) the i-th of N colour
                             \* coordinates sits: np.linspace(0, 1, N)[i] - by rank, whatever the coordinate values
                             cpos |-> IF pm[2] # <<>> THEN <<sty[2] - 1, Max({1, Len(dom[2]) - 1})>> ELSE <<0, 1>>,
                             fd |-> UNION {Range(rem[k]) : k \in 1..Len(rem)}, pts |-> pts, opt |-> opt]
       IN  IF Mode = "lines" THEN
               \E allp \in {[xi \in 1..Sizes[XD] |->
                               LET col == {base + f : f \in {g \in offs : Idx(g, XD) = xi}}
                                   one == CHOOSE c \in col : TRUE
                               IN  (IF ~XVar THEN <<xi, 1>> ELSE IF one \in inp.xnull THEN RNull ELSE <<XVal(one, inp.xdims), 1>>)
                                   \o YAt(col, inp.ynull, aggd # {}, inp.meth)]} :
               LET good(p) == p[4] # 0 /\ (Bug = "maskYOnly" \/ p[2] # 0)                  \* mask
                   anyg == \E j \in DOMAIN allp : good(allp[j])
                   joined == IF Bug = "joinInverted" THEN ~inp.join ELSE inp.join
               IN  draws' = IF anyg \/ Bug = "noSkip"
                             THEN Append(draws, rec(IF joined THEN SelectSeq(allp, good) ELSE allp, FALSE))
                             ELSE draws                                                     \* don't plot all null lines
           ELSE IF Mode = "heat" THEN
               LET tr == Bug = "transposeMesh" /\ Sizes[XD] = Sizes[YD]
                   mesh == [yi \in 1..Sizes[YD] |-> [xi \in 1..Sizes[XD] |->
                               YAt({base + f : f \in {g \in offs : Idx(g, XD) = (IF tr THEN yi ELSE xi)
                                                                 /\ Idx(g, YD) = (IF tr THEN xi ELSE yi)}},
                                   inp.ynull, aggd # {}, inp.meth)]]
               IN  draws' = Append(draws, rec(mesh, FALSE))
           ELSE
               \E V \in {{HVal(c) : c \in {base + f : f \in offs} \ inp.ynull}} :
               \E Vin \in {InBins(hb, V)} :
                   draws' = IF inp.dens /\ Vin = {} THEN draws   \* the density of nothing is NaN everywhere: skipped
                             ELSE Append(draws, rec(HistPts(hb, V, inp.dens /\ Bug # "countsForDensity"), Vin = {}))
    /\ it' = it + 1
    /\ UNCHANGED <<inp, pc, pi, pm, cur, crd, live, dom, unm, aggd, hb, offs, verdict>>

(* The property, clause by clause, on the finished draw list, against the oracle computed from inp alone *)
Judge ==
    /\ pc = "draw" /\ it >= NIter
    /\ \E sdims \in {MD \ OAgg(inp)} :                                         \* dims that distinguish slices
       \E sel \in {OSelCells(inp)} :                                            \* cells selected by explicit orders
       \E F \in {{g \in Cells : \A d \in sdims : Idx(g, d) = 1}} :                \* offsets spanning a slice
       \E slices \in {{b \in sel : \A d \in Dims \ sdims : Idx(b, d) = 1}} :
       \E bins \in {IF Mode = "hist" THEN BinsFor(inp.bins, OSamples(inp), DimsProd(OUnm(inp))) ELSE hb} :
       \E hasdata \in {{b \in slices : \E f \in F :
                            (OGood(inp, b + f) /\ ((Mode = "hist") => (InBins(bins, {HVal(b + f)}) # {})))}} :
       \E agged \in {OAgg(inp) # {}} :
       LET DI == DOMAIN draws
           mapped == {p \in Props : pm[p] # <<>>}
           times(b) == Cardinality({j \in DI : draws[j].slice = b})
           co(j, p) == Code(draws[j].slice, pm[p])           \* the slice's own coordinate on property p
           exp(b) == CASE Mode = "lines" -> OLinePts(inp, b, F, agged)
                       [] Mode = "heat" -> OMesh(inp, b, F, agged)
                       [] OTHER -> OHist(inp, b, F, bins)
       IN  verdict' =
             [once   |-> \A b \in hasdata : times(b) = 1,
              empty  |-> \A j \in DI :
                            /\ draws[j].slice \in slices
                            /\ times(draws[j].slice) = 1
                            /\ (Mode = "lines") => (draws[j].slice \in hasdata)
                            /\ (Mode = "hist") => (draws[j].opt <=> draws[j].slice \notin hasdata),
              place  |-> \A j \in DI :
                            /\ pm[8] # <<>> => /\ draws[j].ri \in 1..Len(dom[8])
                                               /\ dom[8][draws[j].ri] = co(j, 8)
                            /\ pm[7] # <<>> => /\ draws[j].ci \in 1..Len(dom[7])
                                               /\ dom[7][draws[j].ci] = co(j, 7)
                            /\ pm[8] = <<>> => draws[j].ri = 1
                            /\ pm[7] = <<>> => draws[j].ci = 1
                            /\ \A k \in DI :
                                  /\ pm[8] # <<>> => ((draws[j].ri = draws[k].ri) <=> (co(j, 8) = co(k, 8)))
                                  /\ pm[7] # <<>> => ((draws[j].ci = draws[k].ci) <=> (co(j, 7) = co(k, 7))),
              styles |-> \A j \in DI : \A p \in mapped :
                            /\ draws[j].lab[p] = co(j, p)
                            /\ \A k \in DI : (draws[j].sty[p] = draws[k].sty[p]) <=> (co(j, p) = co(k, p)),
              points |-> \A j \in DI : draws[j].slice \in slices => draws[j].pts = exp(draws[j].slice),
              shape  |-> \A j \in DI : draws[j].fd = sdims]
    /\ pc' = "done"
    /\ UNCHANGED <<inp, pi, pm, cur, crd, live, dom, unm, aggd, hb, offs, it, draws>>

Next == Prepare \/ InitMapped \/ Unmapped \/ Histogram \/ Aggregate \/ DrawNext \/ Judge
        \/ (pc = "done" /\ UNCHANGED vars)

Spec == Init /\ [][Next]_vars

-----------------------------------------------------------------------------
(* Invariants = property C18 on the finished plot *)
Done == pc = "done"
ExactlyOnce  == Done => verdict.once     \* every mapped-coordinate combination that has data is drawn exactly once
NothingEmpty == Done => verdict.empty    \* nothing else is drawn: no all-null slice, nothing twice
Placement    == Done => verdict.place    \* in the panel of its row / col coordinate (index and label)
Styles       == Done => verdict.styles   \* equal coordinate <=> equal style index, across panels too
Points       == Done => verdict.points   \* the slice's own points / (aggregated) z / counts or density
Shape        == Done => verdict.shape    \* the dims that distinguish drawn slices are the expected ones
TypeOK == pc \in {"start", "init", "unm", "hist", "agg", "draw", "done"}

-----------------------------------------------------------------------------
(* Emission for the replay into the real infiniplot (vx/props/C18.py) *)
EmitCase ==
    Done =>
        PrintT(<<"CASE", ToJson(
            [sizes |-> Sizes, mode |-> Mode, xvar |-> XVar,
             pm |-> inp.pm, ordd |-> inp.ordd, ordk |-> inp.ordk,
             ynull |-> inp.ynull, xnull |-> inp.xnull, xdims |-> inp.xdims,
             join |-> inp.join, agg |-> inp.agg, meth |-> inp.meth, err |-> inp.err, pal |-> inp.pal,
             dens |-> inp.dens, bins |-> inp.bins, num |-> inp.num, anum |-> inp.anum,
             aggd |-> aggd, eff |-> pm, dom |-> dom, hb |-> hb,
             tie |-> (Mode = "hist" /\ BinTie(hb, OSamples(inp))),
             draws |-> draws])>>)
=============================================================================
